(* Git/TreeDiff.v -- executable model of src/git/diff.rs and src/commands/check/check_git_diff.rs
   (definitions only; lemmas are in Git/Proofs_C19.v, the property theorems in Git/Properties_C19.v).

   What enters as data (results of gix / the file system, not modelled):
   - the two commit trees, read object by object: a [gentry];
   - the index: a flat list of (path, entry);
   - std::fs::canonicalize / Path::exists on the work tree: a function [canon : path -> option path]
     (None = the path does not resolve, Some q = its canonical spelling), work-tree relative.

   Object ids.  Git names an object by a hash of its serialised content.  The model ASSUMES THE HASH
   IS COLLISION FREE and therefore compares ids by comparing what they are hashes of ([oid_eqb]):
   a blob id is its content (a symbolic link is stored as a blob holding the target, so a Link and a
   Blob with the same bytes have the same id; the executable bit lives in the parent tree, not in the
   id), a tree id is the list of (mode, name, id) of its entries, a submodule entry carries the id of
   a commit.  Ids of objects of different types never coincide.

   Names: a tree never lists the same name twice (git fsck rejects it); the code puts the entries
   of a tree in a HashMap keyed by name, the model looks names up with [assoc] (first hit).  The two
   agree on trees without duplicate names, which is the hypothesis [wf] of the theorems.  The
   iteration order of those HashMaps is arbitrary; the outputs are sets (HashSet, or a Vec that is
   only ever inserted into a set), and every statement below is about membership only. *)
From Coq Require Import NArith List Bool.
Import ListNotations.
Open Scope N_scope.

Definition str := list N.          (* bytes *)
Definition name := str.            (* one path component: non-empty, no slash (git guarantees it) *)
Definition path := list name.      (* relative to the tree / work-tree root, outermost first *)

Fixpoint str_eqb (a b : str) : bool :=
  match a, b with
  | [], [] => true
  | x :: a', y :: b' => N.eqb x y && str_eqb a' b'
  | _, _ => false
  end.

Fixpoint path_eqb (a b : path) : bool :=
  match a, b with
  | [], [] => true
  | x :: a', y :: b' => str_eqb x y && path_eqb a' b'
  | _, _ => false
  end.

(* ------------------------------------------------------------------ git objects *)

Inductive gentry : Type :=
| Blob (exec : bool) (content : str)          (* EntryKind::Blob / BlobExecutable *)
| Tree (entries : list (name * gentry))       (* EntryKind::Tree *)
| Link (target : str)                         (* EntryKind::Link, symbolic link *)
| Commit (id : str).                          (* EntryKind::Commit, submodule *)

Inductive ekind := KBlob | KBlobExec | KTree | KLink | KCommit.

Definition kind_of (e : gentry) : ekind :=
  match e with
  | Blob false _ => KBlob
  | Blob true _ => KBlobExec
  | Tree _ => KTree
  | Link _ => KLink
  | Commit _ => KCommit
  end.

Definition ekind_eqb (a b : ekind) : bool :=
  match a, b with
  | KBlob, KBlob | KBlobExec, KBlobExec | KTree, KTree | KLink, KLink | KCommit, KCommit => true
  | _, _ => false
  end.

(* regular file or directory, as opposed to the two kinds the code skips *)
Definition is_special (e : gentry) : bool :=
  match e with Link _ | Commit _ => true | _ => false end.

(* [base_entry.oid == target_entry.oid] under the collision-freeness assumption *)
Fixpoint oid_eqb (a b : gentry) {struct a} : bool :=
  match a, b with
  | Blob _ c, Blob _ c' => str_eqb c c'
  | Blob _ c, Link c' => str_eqb c c'
  | Link c, Blob _ c' => str_eqb c c'
  | Link c, Link c' => str_eqb c c'
  | Commit i, Commit i' => str_eqb i i'
  | Tree es, Tree es' =>
      (fix go (l l' : list (name * gentry)) {struct l} : bool :=
         match l, l' with
         | [], [] => true
         | ne :: r, ne' :: r' =>
             str_eqb (fst ne) (fst ne') && ekind_eqb (kind_of (snd ne)) (kind_of (snd ne'))
             && oid_eqb (snd ne) (snd ne') && go r r'
         | _, _ => false
         end) es es'
  | _, _ => false
  end.

Fixpoint assoc {A : Type} (n : name) (l : list (name * A)) : option A :=
  match l with
  | [] => None
  | mx :: r => if str_eqb n (fst mx) then Some (snd mx) else assoc n r
  end.

Definition has_name {A : Type} (n : name) (l : list (name * A)) : bool :=
  match assoc n l with Some _ => true | None => false end.

(* what git records for a regular file: the executable bit (kept in the parent tree) and the content *)
Definition file := (bool * str)%type.

Definition file_eqb (a b : file) : bool := Bool.eqb (fst a) (fst b) && str_eqb (snd a) (snd b).

(* the regular file at a path, mode and content (None for directories, links, submodules, nothing) *)
Fixpoint blob_at (e : gentry) (p : path) {struct p} : option file :=
  match p, e with
  | [], Blob x c => Some (x, c)
  | n :: q, Tree es => match assoc n es with Some x => blob_at x q | None => None end
  | _, _ => None
  end.

(* every regular file below an entry with its mode and content *)
Fixpoint blobs (e : gentry) : list (path * file) :=
  match e with
  | Blob x c => [([], (x, c))]
  | Tree es => flat_map (fun ne => map (fun pc => (fst ne :: fst pc, snd pc)) (blobs (snd ne))) es
  | Link _ | Commit _ => []
  end.

(* no name twice in any tree *)
Fixpoint wf (e : gentry) : Prop :=
  match e with
  | Tree es => NoDup (map fst es) /\
               (fix all (l : list (name * gentry)) : Prop :=
                  match l with [] => True | ne :: r => wf (snd ne) /\ all r end) es
  | _ => True
  end.

Fixpoint nodup_names (l : list name) : bool :=
  match l with
  | [] => true
  | n :: r => negb (existsb (str_eqb n) r) && nodup_names r
  end.

Fixpoint wfb (e : gentry) : bool :=
  match e with
  | Tree es => nodup_names (map fst es) && forallb (fun ne => wfb (snd ne)) es
  | _ => true
  end.

(* ------------------------------------------------------------------ diff.rs: tree comparison *)

Inductive tag := Chg | Del.         (* `changed` set / `deleted_candidates` vector *)
Definition res := list (tag * path).

Definition tag_eqb (a b : tag) : bool :=
  match a, b with Chg, Chg | Del, Del => true | _, _ => false end.

Definition tagged (t : tag) (ps : list path) : res := map (fun p => (t, p)) ps.
(* prefix.join(name) for everything found below the entry called n *)
Definition under (n : name) (r : res) : res := map (fun tp => (fst tp, n :: snd tp)) r.
Definition paths_with (t : tag) (r : res) : list path :=
  map snd (filter (fun tp => tag_eqb (fst tp) t) r).

(* collect_all_blob_paths applied to one entry: regular files below it, Link and Commit skipped.
   The same shape serves process_added_entry and process_deleted_entry (Blob: the path itself). *)
Fixpoint collect (e : gentry) : list path :=
  match e with
  | Blob _ _ => [[]]
  | Tree es => flat_map (fun ne => map (cons (fst ne)) (collect (snd ne))) es
  | Link _ | Commit _ => []
  end.

Definition collect_all_blob_paths (es : list (name * gentry)) : list path := collect (Tree es).

Definition process_added_entry (e : gentry) : res :=
  match e with
  | Blob _ _ => [(Chg, [])]
  | Tree es => tagged Chg (collect_all_blob_paths es)
  | Link _ | Commit _ => []
  end.

Definition process_deleted_entry (e : gentry) : res :=
  match e with
  | Blob _ _ => [(Del, [])]
  | Tree es => tagged Del (collect_all_blob_paths es)
  | Link _ | Commit _ => []
  end.

(* the test that guards process_changed_entry: same object id and same entry kind (file mode).
   The mode lives in the parent tree, not in the object: a chmod leaves the id alone, and a symbolic
   link is stored as a blob and can share an id with a file.  (Originally the test was the id alone;
   fix D32 added the link/submodule class, fix D70 the full kind, so that a mode-only change is a
   change, as in git diff --name-only.) *)
Definition same_object (b t : gentry) : bool :=
  oid_eqb b t && ekind_eqb (kind_of b) (kind_of t).

(* process_changed_entry; the Tree/Tree case is compare_trees_recursive, written inline because
   the recursion goes through it. Link / Commit against Blob / Tree: the regular side counts as
   added resp. deleted (fix D32; before it every pair with a Link or Commit was skipped). *)
Fixpoint process_changed_entry (be te : gentry) {struct te} : res :=
  match te with
  | Blob _ _ =>
      match be with
      | Blob _ _ => [(Chg, [])]
      | Tree _ => process_deleted_entry be ++ [(Chg, [])]
      | Link _ | Commit _ => process_added_entry te
      end
  | Tree tes =>
      match be with
      | Tree bes =>
          flat_map (fun nt =>
            under (fst nt)
              (match assoc (fst nt) bes with
               | Some b => if same_object b (snd nt) then [] else process_changed_entry b (snd nt)
               | None => process_added_entry (snd nt)
               end)) tes
          ++ flat_map (fun nb =>
               if has_name (fst nb) tes then []
               else under (fst nb) (process_deleted_entry (snd nb))) bes
      | Blob _ _ => (Del, []) :: process_added_entry te
      | Link _ | Commit _ => process_added_entry te
      end
  | Link _ | Commit _ =>
      match be with
      | Blob _ _ | Tree _ => process_deleted_entry be
      | Link _ | Commit _ => []
      end
  end.

Definition compare_entry (be te : gentry) : res :=
  if same_object be te then [] else process_changed_entry be te.

(* compare_trees_recursive(base_tree, target_tree, prefix = empty) *)
Definition compare_trees_recursive (bes tes : list (name * gentry)) : res :=
  flat_map (fun nt =>
    under (fst nt)
      (match assoc (fst nt) bes with
       | Some b => compare_entry b (snd nt)
       | None => process_added_entry (snd nt)
       end)) tes
  ++ flat_map (fun nb =>
       if has_name (fst nb) tes then [] else under (fst nb) (process_deleted_entry (snd nb))) bes.

(* ------------------------------------------------------------------ work tree oracle *)

Definition exists_b (canon : path -> option path) (p : path) : bool :=
  match canon p with Some _ => true | None => false end.

Definition mem_path (p : path) (l : list path) : bool := existsb (path_eqb p) l.

Fixpoint filter_map {A B : Type} (f : A -> option B) (l : list A) : list B :=
  match l with
  | [] => []
  | x :: r => match f x with Some y => y :: filter_map f r | None => filter_map f r end
  end.

(* get_changed_files_range: changed paths, plus deleted candidates that still exist *)
Definition get_changed_files_range (canon : path -> option path)
           (bes tes : list (name * gentry)) : list path :=
  let r := compare_trees_recursive bes tes in
  paths_with Chg r ++ filter (exists_b canon) (paths_with Del r).

(* ------------------------------------------------------------------ diff.rs: index vs HEAD *)

Inductive ientry :=
| IBlob (exec : bool) (content : str)
| ILink (target : str)
| ICommit (id : str)
| IIntent.                               (* intent-to-add entry (git add -N): a placeholder *)

Definition index := list (path * ientry).

Fixpoint assoc_path {A : Type} (p : path) (l : list (path * A)) : option A :=
  match l with
  | [] => None
  | qx :: r => if path_eqb p (fst qx) then Some (snd qx) else assoc_path p r
  end.

Definition is_regular (e : ientry) : bool :=
  match e with IBlob _ _ => true | _ => false end.

(* the regular-file content held by the index at a path *)
Definition iblob_at (idx : index) (p : path) : option file :=
  match assoc_path p idx with Some (IBlob x c) => Some (x, c) | _ => None end.

(* build_head_path_map: regular files of HEAD with their blob ids; no HEAD commit -> empty *)
Definition build_head_path_map (head : option (list (name * gentry))) : list (path * file) :=
  match head with Some es => blobs (Tree es) | None => [] end.

(* index_paths: does the index hold a regular-file entry at p *)
Definition has_regular (idx : index) (p : path) : bool :=
  existsb (fun pe => path_eqb p (fst pe) && is_regular (snd pe)) idx.

(* get_staged_files. Entries that are not regular files are skipped like on the HEAD side
   (fix D21); regular files of HEAD that have no regular index entry and still exist are
   included (fix D22). A missing index file is the empty index (fix D33). The executable bit is
   compared along with the id (fix D70); intent-to-add entries are skipped (fix D71). *)
Definition get_staged_files (canon : path -> option path)
           (head : option (list (name * gentry))) (idx : index) : list path :=
  let hm := build_head_path_map head in
  filter_map (fun pe =>
      match snd pe with
      | IBlob x c =>
          match assoc_path (fst pe) hm with
          | Some hf => if file_eqb hf (x, c) then None else Some (fst pe)
          | None => Some (fst pe)
          end
      | ILink _ | ICommit _ | IIntent => None
      end) idx
  ++ filter (fun p => negb (has_regular idx p) && exists_b canon p) (map fst hm).

(* ------------------------------------------------------------------ check_git_diff.rs *)

Definition dot : N := 46.
Definition HEAD : str := [72; 69; 65; 68].

(* str::find of two dots: text before the first occurrence, text after it *)
Fixpoint find_dotdot (s : str) : option (str * str) :=
  match s with
  | [] => None
  | c :: r =>
      match r with
      | [] => None
      | d :: r' =>
          if N.eqb c dot && N.eqb d dot then Some ([], r')
          else match find_dotdot r with
               | Some ab => Some (c :: fst ab, snd ab)
               | None => None
               end
      end
  end.

Inductive range_result := RangeErr | RangeOk (base target : str).

Definition parse_diff_range (s : str) : range_result :=
  match s with
  | [] => RangeErr
  | _ :: _ =>
      match find_dotdot s with
      | Some ab =>
          match fst ab with
          | [] => RangeErr
          | _ :: _ => RangeOk (fst ab) (match snd ab with [] => HEAD | _ :: _ => snd ab end)
          end
      | None => RangeOk s HEAD
      end
  end.

(* filter_by_git_diff: both sides canonicalised, scanned files kept in order. A member of the set
   whose canonical spelling is not the path itself is, or lies behind, a symbolic link and is
   dropped (fix D34; before it every member that resolved was kept under its resolved name). *)
Definition self_canonical (canon : path -> option path) (p : path) : option path :=
  match canon p with
  | Some q => if path_eqb q p then Some q else None
  | None => None
  end.

(* a scanned or listed path is compared under its own name only: one that is a symbolic link, or is
   spelled through a linked directory, resolves elsewhere and is dropped as well (fix D190; before it the
   resolved name was looked up, [resolves_into]) *)
Definition resolves_into (canon : path -> option path) (cs : list path) (f : path) : bool :=
  match canon f with Some c => mem_path c cs | None => false end.

Definition in_canonical_set (canon : path -> option path) (cs : list path) (f : path) : bool :=
  match self_canonical canon f with Some c => mem_path c cs | None => false end.

Definition filter_by_set (canon : path -> option path) (files set : list path) : list path :=
  filter (in_canonical_set canon (filter_map (self_canonical canon) set)) files.

Definition diff_files canon (bes tes : list (name * gentry)) (files : list path) : list path :=
  filter_by_set canon files (get_changed_files_range canon bes tes).

Definition staged_files canon (head : option (list (name * gentry))) (idx : index)
           (files : list path) : list path :=
  filter_by_set canon files (get_staged_files canon head idx).

(* ------------------------------------------------------------------ check_scan.rs / runner
   The run evaluates each file of the list on its own ([eval], None = skipped) and computes the
   structure results from the scan ([structure]), which --diff / --staged do not touch. *)
Section Run.
  Variables (R S Scan : Type).
  Variable eval : path -> option R.
  Variable structure : Scan -> S.
  Variable scanned : Scan -> list path.

  Definition run_on (files : list path) (sc : Scan) : list (path * R) * S :=
    (filter_map (fun f => match eval f with Some r => Some (f, r) | None => None end) files,
     structure sc).

  Definition full_run (sc : Scan) := run_on (scanned sc) sc.
  Definition restricted_run canon (set : list path) (sc : Scan) :=
    run_on (filter_by_set canon (scanned sc) set) sc.
End Run.

(* check_scan.rs with --files L: no scan; the listed files that exist are the file list and there are
   no structure results.  --diff / --staged restrict the list exactly as they restrict a scanned
   list (fix D105; before it the set was ignored, see listed_run_v0 in Git/BeforeFixes.v).
   [set] = None: neither flag given. *)
Definition listed_run (R : Type) (eval : path -> option R) (canon : path -> option path)
           (set : option (list path)) (listed : list path) : list (path * R) * unit :=
  run_on R unit (list path) eval (fun _ => tt)
         (match set with Some s => filter_by_set canon listed s | None => listed end) listed.

(* canonicalisation oracle given as a table (used by the extracted driver) *)
Definition canon_of (m : list (path * path)) (p : path) : option path := assoc_path p m.
