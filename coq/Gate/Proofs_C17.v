(* Gate/Proofs_C17.v -- lemmas about the configuration-gate model (Gate/Validate.v). *)
From Coq Require Import NArith ZArith List Bool Lia ZifyBool ZifyN.
From SG Require Import Gate.Validate.
Import ListNotations.
Open Scope N_scope.

(* ------------------------------------------------------------------ check combinators *)

Lemma orelse_none : forall a b : check, a ;; b = None -> a = None /\ b = None.
Proof. intros [e|] b H; simpl in H; [discriminate | auto]. Qed.

Lemma guard_none : forall b k i j, guard b k i j = None -> b = false.
Proof. intros [] k i j H; simpl in H; [discriminate | reflexivity]. Qed.

Lemma first_err_Forall : forall {A} (f : N -> A -> check) (l : list A) (i : N),
  first_err f l i = None -> Forall (fun x => exists k, f k x = None) l.
Proof.
  intros A f l; induction l as [|x l IH]; intros i H; simpl in H.
  - constructor.
  - destruct (f i x) eqn:E; [discriminate|]. constructor; [exists i; exact E | eapply IH; exact H].
Qed.

Lemma glob_list_all_ok : forall k ri l, glob_list k ri l = None -> all_ok l = true.
Proof.
  intros k ri l H. unfold glob_list in H. apply first_err_Forall in H.
  unfold all_ok. apply forallb_forall. intros b Hin.
  rewrite Forall_forall in H. destruct (H b Hin) as [j Hj]. apply guard_none in Hj. destruct b; simpl in *; congruence.
Qed.

Ltac orb_false :=
  repeat match goal with
         | H : _ || _ = false |- _ => apply orb_false_iff in H; destruct H
         end.

Ltac split_checks H :=
  repeat match type of H with
         | _ ;; _ = None => let H1 := fresh "G" in apply orelse_none in H; destruct H as [H1 H]
         end.

(* ------------------------------------------------------------------ small boolean facts *)

Lemma thr_ok_of_bad : forall o, opt_thr_bad o = false -> opt_thr_ok o = true.
Proof. intros [b|] H; simpl in *; [destruct (unit_range b); simpl in *; congruence | reflexivity]. Qed.

Lemma negb_false_true : forall b, negb b = false -> b = true.
Proof. intros []; simpl; congruence. Qed.

Lemma warn_at_lt : forall (o : option N) (m : N),
  match o with Some w => m <=? w | None => false end = false ->
  match o with Some w => w <? m | None => true end = true.
Proof. intros [w|] m H; [lia | reflexivity]. Qed.

Lemma limit_ok_of_bad : forall o, limit_bad o = false -> opt_limit_ok o = true.
Proof. intros [z|] H; simpl in *; [lia | reflexivity]. Qed.

Lemma warn_at_ok_of_bad : forall w m, opt_neg w = false -> warn_at_vs_limit_bad w m = false -> opt_warn_at_ok w m = true.
Proof. intros [w|] [m|] H1 H2; simpl in *; try reflexivity; lia. Qed.

Lemma date_ok_of_guard : forall bh o,
  (b_expires bh && match o with Some d => negb (gate_date bh d) | None => false end) = false ->
  b_expires bh = true -> b_strict_dates bh = true -> opt_date_ok o = true.
Proof.
  intros bh [d|] H Hb Hs; [|reflexivity]. unfold gate_date in H. rewrite Hb, Hs in H. simpl in *.
  destruct (date_strict d); simpl in *; congruence.
Qed.

(* ------------------------------------------------------------------ overrides leave most fields alone *)

Lemma overrides_no_flags : forall c f, flags_touch f = false -> apply_cli_overrides c f = c.
Proof.
  intros c [hp ml wt mf md mdp] H. unfold flags_touch, has_structure_params in H; simpl in H.
  destruct ml, wt, mf, md, mdp; simpl in H; try discriminate. destruct c; reflexivity.
Qed.

(* ------------------------------------------------------------------ durations *)

Lemma parse_duration_checked_profile : forall p q s, parse_duration true p s = parse_duration true q s.
Proof.
  intros p q s. unfold parse_duration. destruct (trim s) as [|a l]; [reflexivity|].
  destruct (span_digits (a :: l) 0 0) as [[v k] rest]. destruct rest as [|r0 rest]; [reflexivity|].
  destruct (k =? 0); [reflexivity|]. destruct (two64 <=? v); [reflexivity|]. destruct (v =? 0); [reflexivity|].
  destruct (unit_mult (r0 :: rest)) as [m|]; [|reflexivity]. destruct (v * m <? two64); reflexivity.
Qed.

Lemma parse_duration_ok_value : forall chk p s v,
  parse_duration chk p s = DurOk v ->
  parse_duration false Debug s <> DurPanic ->
  parse_duration true Release s = DurOk v.
Proof.
  intros chk p s v. unfold parse_duration. destruct (trim s) as [|a l]; [discriminate|].
  destruct (span_digits (a :: l) 0 0) as [[x k] rest]. destruct rest as [|r0 rest]; [discriminate|].
  destruct (k =? 0); [discriminate|]. destruct (two64 <=? x); [discriminate|]. destruct (x =? 0); [discriminate|].
  destruct (unit_mult (r0 :: rest)) as [m|]; [|discriminate]. destruct (x * m <? two64); [auto|].
  intros _ H. exfalso; apply H; reflexivity.
Qed.

Lemma parse_duration_checked_ok : forall p s v,
  parse_duration true p s = DurOk v -> parse_duration true Release s = DurOk v.
Proof. intros p s v H. rewrite (parse_duration_checked_profile Release p). exact H. Qed.

Lemma parse_duration_checked_never_panics : forall p s, parse_duration true p s <> DurPanic.
Proof.
  intros p s. unfold parse_duration. destruct (trim s) as [|a l]; [discriminate|].
  destruct (span_digits (a :: l) 0 0) as [[x k] rest]. destruct rest as [|r0 rest]; [discriminate|].
  destruct (k =? 0); [discriminate|]. destruct (two64 <=? x); [discriminate|]. destruct (x =? 0); [discriminate|].
  destruct (unit_mult (r0 :: rest)) as [m|]; [|discriminate]. destruct (x * m <? two64); discriminate.
Qed.

Lemma parse_duration_release_never_panics : forall chk s, parse_duration chk Release s <> DurPanic.
Proof.
  intros chk s. unfold parse_duration. destruct (trim s) as [|a l]; [discriminate|].
  destruct (span_digits (a :: l) 0 0) as [[x k] rest]. destruct rest as [|r0 rest]; [discriminate|].
  destruct (k =? 0); [discriminate|]. destruct (two64 <=? x); [discriminate|]. destruct (x =? 0); [discriminate|].
  destruct (unit_mult (r0 :: rest)) as [m|]; [|discriminate]. destruct (x * m <? two64); [discriminate|]. destruct chk; discriminate.
Qed.

(* an accepted duration of the checked parser is below 2^64 *)
Lemma parse_duration_checked_bound : forall p s v, parse_duration true p s = DurOk v -> v < two64.
Proof.
  intros p s v. unfold parse_duration. destruct (trim s) as [|a l]; [discriminate|].
  destruct (span_digits (a :: l) 0 0) as [[x k] rest]. destruct rest as [|r0 rest]; [discriminate|].
  destruct (k =? 0); [discriminate|]. destruct (two64 <=? x); [discriminate|]. destruct (x =? 0); [discriminate|].
  destruct (unit_mult (r0 :: rest)) as [m|]; [|discriminate]. destruct (x * m <? two64) eqn:E; [|discriminate].
  intros H; inversion H; subst. apply N.ltb_lt; exact E.
Qed.

(* ------------------------------------------------------------------ semantic validation, piece by piece *)

Lemma validate_semantics_ok : forall bh p c,
  validate_semantics bh p c = SemOk ->
  validate_content bh c = None /\ validate_globs bh c = None /\ validate_stats bh p c = SemOk /\ validate_structure bh c = None.
Proof.
  intros bh p c H. unfold validate_semantics in H.
  destruct (validate_content bh c ;; validate_globs bh c) eqn:E1; [discriminate|].
  apply orelse_none in E1. destruct E1 as [E1 E2].
  destruct (validate_stats bh p c) eqn:E3; try discriminate.
  destruct (validate_structure bh c) eqn:E4; [discriminate|]. auto.
Qed.

Lemma stats_ok_dom : forall bh p c,
  validate_stats bh p c = SemOk ->
  (b_dur_checked bh = false ->
     match r_trend_since c with Some d => parse_duration false Debug d <> DurPanic | None => True end) ->
  forallb (fun s => mem_str (lower_str s) [s_summary; s_files; s_breakdown; s_trend]) (r_exclude c) = true /\
  match r_breakdown_by c with Some b => mem_str (lower_str b) [s_lang; s_language; s_dir; s_directory] | None => true end = true /\
  duration_dom (r_trend_since c) = true.
Proof.
  intros bh p c H Hk. unfold validate_stats in H.
  destruct (first_err _ (r_exclude c) 0) eqn:E1; [discriminate|].
  split.
  { apply first_err_Forall in E1. apply forallb_forall. intros s Hin. rewrite Forall_forall in E1.
    destruct (E1 s Hin) as [k Hg]. apply guard_none in Hg.
    destruct (mem_str (lower_str s) [s_summary; s_files; s_breakdown; s_trend]); simpl in *; congruence. }
  destruct (r_breakdown_by c) as [b|] eqn:E2.
  - destruct (mem_str (lower_str b) [s_lang; s_language; s_dir; s_directory]) eqn:E3; simpl in H; [|discriminate].
    split; [reflexivity|].
    unfold duration_dom, duration_value. destruct (r_trend_since c) as [d|]; [|reflexivity].
    destruct (parse_duration (b_dur_checked bh) p d) eqn:E4; try discriminate.
    destruct (b_dur_checked bh) eqn:Eb.
    + rewrite (parse_duration_checked_ok _ _ _ E4). reflexivity.
    + rewrite (parse_duration_ok_value _ _ _ _ E4 (Hk eq_refl)). reflexivity.
  - simpl in H. split; [reflexivity|].
    unfold duration_dom, duration_value. destruct (r_trend_since c) as [d|]; [|reflexivity].
    destruct (parse_duration (b_dur_checked bh) p d) eqn:E4; try discriminate.
    destruct (b_dur_checked bh) eqn:Eb.
    + rewrite (parse_duration_checked_ok _ _ _ E4). reflexivity.
    + rewrite (parse_duration_ok_value _ _ _ _ E4 (Hk eq_refl)). reflexivity.
Qed.

Lemma content_rule_parts : forall bh r k1 k2,
  content_rule_sem bh k1 r = None ->
  guard (negb (cr_pattern_ok r)) RGlobContentRule k2 0 = None ->
  (b_rule_wt bh = false -> opt_thr_bad (cr_warn_threshold r) = false) ->
  (b_expires bh && b_strict_dates bh = false -> opt_date_ok (cr_expires r) = true) ->
  content_rule_dom r = true.
Proof.
  intros bh r k1 k2 H Hp Hw He. unfold content_rule_sem in H. split_checks H.
  apply guard_none in G, G0, H, Hp. unfold content_rule_dom.
  assert (P1 : cr_pattern_ok r = true) by (destruct (cr_pattern_ok r); simpl in *; congruence).
  assert (P2 : opt_thr_ok (cr_warn_threshold r) = true).
  { apply thr_ok_of_bad. destruct (b_rule_wt bh) eqn:E; [simpl in G0; exact G0 | auto]. }
  assert (P3 : match cr_warn_at r with Some w => w <? cr_max_lines r | None => true end = true).
  { destruct (cr_warn_at r); [lia | reflexivity]. }
  assert (P4 : opt_date_ok (cr_expires r) = true).
  { destruct (b_expires bh) eqn:E; destruct (b_strict_dates bh) eqn:E2;
      try (apply He; reflexivity). eapply date_ok_of_guard; [rewrite E; exact H | exact E | exact E2]. }
  rewrite P1, P2, P3, P4. reflexivity.
Qed.

(* ------------------------------------------------------------------ sibling rules *)

Lemma pattern_wf_dom : forall i j p, pattern_wf i j p = None -> pattern_dom p = true.
Proof.
  intros i j p H. unfold pattern_wf in H. split_checks H. apply guard_none in G, H.
  unfold pattern_dom. rewrite G. destruct (has_stem p); simpl in *; congruence.
Qed.

Lemma patterns_wf_dom : forall i j l k, first_err (fun _ p => pattern_wf i j p) l k = None -> forallb pattern_dom l = true.
Proof.
  intros i j l k H. apply first_err_Forall in H. apply forallb_forall. intros p Hin.
  rewrite Forall_forall in H. destruct (H p Hin) as [n Hn]. eapply pattern_wf_dom; exact Hn.
Qed.

Lemma sibling_parts : forall i j i2 j2 s,
  sibling_wf i j s = None ->
  match s with SDirected _ ok _ => guard (negb ok) RGlobSiblingMatch i2 j2 | SGroup _ => None end = None ->
  sibling_dom s = true.
Proof.
  intros i j i2 j2 [m ok req | g] H Hm; simpl in *.
  - split_checks H. apply guard_none in G, G0, Hm. apply patterns_wf_dom in H.
    rewrite G, G0, H. destruct ok; simpl in *; congruence.
  - split_checks H. apply guard_none in G. apply patterns_wf_dom in H. rewrite H.
    assert (2 <=? N.of_nat (length g) = true) by lia. rewrite H0. reflexivity.
Qed.

(* ------------------------------------------------------------------ structure rules *)

Lemma nonempty_false : forall {A} (l : list A), nonempty l = false -> l = [].
Proof. intros A [|x l] H; [reflexivity | discriminate]. Qed.

Lemma allowlist_build_parts : forall i r,
  allowlist_rule_build i r = None ->
  all_ok (sr_allow_patterns r) = true /\ all_ok (sr_allow_files r) = true /\ all_ok (sr_allow_dirs r) = true /\
  all_ok (sr_deny_patterns r) = true /\ all_ok (sr_deny_files r) = true /\ all_ok (sr_deny_dirs r) = true /\
  match sr_naming r with Some ok => ok | None => true end = true.
Proof.
  intros i r H. unfold allowlist_rule_build in H. destruct (rule_has_lists r) eqn:E.
  - split_checks H. apply guard_none in H.
    repeat match goal with G : glob_list _ _ _ = None |- _ => apply glob_list_all_ok in G end.
    repeat split; try assumption. destruct (sr_naming r) as [[]|]; simpl in *; congruence.
  - unfold rule_has_lists, rule_has_allow, rule_has_deny in E. orb_false.
    repeat match goal with G : nonempty _ = false |- _ => apply nonempty_false in G; rewrite G end.
    repeat split; try reflexivity. destruct (sr_naming r); [discriminate | reflexivity].
Qed.

Lemma struct_rule_parts : forall bh r k1 k2 k3 k4 k5 k6 k7,
  struct_rule_sem bh k1 r = None ->
  (guard (limit_bad (sr_max_files r)) RRuleLimit k2 0 ;; guard (limit_bad (sr_max_dirs r)) RRuleLimit k2 1 ;;
   guard (limit_bad (sr_max_depth r)) RRuleLimit k2 2) = None ->
  first_err (sibling_wf k3) (sr_siblings r) 0 = None ->
  guard (rule_has_allow r && rule_has_deny r) RMixRule k4 0 = None ->
  guard (negb (sr_scope_ok r)) RGlobScope k5 0 = None ->
  (guard (negb (sr_scope_ok r)) RGlobScope k6 0 ;;
   first_err (fun j s => match s with SDirected _ ok _ => guard (negb ok) RGlobSiblingMatch k6 j | SGroup _ => None end)
             (sr_siblings r) 0) = None ->
  allowlist_rule_build k7 r = None ->
  (b_expires bh && b_strict_dates bh = false -> opt_date_ok (sr_expires r) = true) ->
  struct_rule_dom r = true.
Proof.
  intros bh r k1 k2 k3 k4 k5 k6 k7 Hsem Hlim Hsib Hmix Hscope Hbs Hal Hex.
  unfold struct_rule_sem in Hsem. split_checks Hsem. split_checks Hlim. split_checks Hbs.
  repeat match goal with G : guard _ _ _ _ = None |- _ => apply guard_none in G end.
  destruct (allowlist_build_parts _ _ Hal) as (A1 & A2 & A3 & A4 & A5 & A6 & A7).
  unfold struct_rule_dom.
  assert (S0 : sr_scope_ok r = true) by (destruct (sr_scope_ok r); simpl in *; congruence).
  assert (Sib : forallb sibling_dom (sr_siblings r) = true).
  { apply forallb_forall. intros s Hin.
    apply first_err_Forall in Hsib. apply first_err_Forall in Hbs. rewrite Forall_forall in Hsib, Hbs.
    destruct (Hsib s Hin) as [j Hj]. destruct (Hbs s Hin) as [j2 Hj2]. eapply sibling_parts; eassumption. }
  assert (Ex : opt_date_ok (sr_expires r) = true).
  { destruct (b_expires bh) eqn:E; destruct (b_strict_dates bh) eqn:E2;
      try (apply Hex; reflexivity). eapply date_ok_of_guard; [rewrite E; exact Hsem | exact E | exact E2]. }
  rewrite S0, Sib, Ex, A1, A2, A3, A4, A5, A6, A7.
  rewrite (limit_ok_of_bad _ G6), (limit_ok_of_bad _ G7), (limit_ok_of_bad _ Hlim).
  rewrite (thr_ok_of_bad _ G), (thr_ok_of_bad _ G0), (thr_ok_of_bad _ G1).
  rewrite (warn_at_ok_of_bad _ _ G2 G4), (warn_at_ok_of_bad _ _ G3 G5).
  rewrite Hmix. reflexivity.
Qed.

(* ------------------------------------------------------------------ global lists *)

Lemma deny_patterns_all_ok : forall k1 k2 r1 r2 (l : list (bool * bool)),
  glob_list k1 r1 (map snd (filter (fun x => negb (fst x)) l)) = None ->
  glob_list k2 r2 (map snd (filter (fun x => fst x) l)) = None ->
  all_ok (map snd l) = true.
Proof.
  intros k1 k2 r1 r2 l H1 H2. apply glob_list_all_ok in H1, H2. unfold all_ok in *.
  induction l as [|[d ok] l IH]; [reflexivity|]. simpl in *.
  destruct d; simpl in *.
  - apply andb_true_iff in H2. destruct H2 as [Ha Hb]. rewrite Ha. simpl. auto.
  - apply andb_true_iff in H1. destruct H1 as [Ha Hb]. rewrite Ha. simpl. auto.
Qed.

Lemma structure_disabled_empty : forall c, structure_enabled c = false ->
  s_rules c = [] /\ s_allow_files c = [] /\ s_allow_dirs c = [] /\ s_deny_patterns c = [] /\ s_deny_files c = [] /\ s_deny_dirs c = [] /\
  s_max_files c = None /\ s_max_dirs c = None /\ s_max_depth c = None.
Proof.
  intros c H. unfold structure_enabled in H. orb_false.
  repeat match goal with G : nonempty _ = false |- _ => apply nonempty_false in G end.
  repeat match goal with G : negb (is_none ?o) = false |- _ => destruct o; simpl in G; try discriminate end.
  repeat split; assumption.
Qed.

(* ------------------------------------------------------------------ the gate *)

Definition sem_after_overrides (bh : behav) (c : config) : Prop :=
  validate_content bh c = None /\ validate_structure_global c = None.

Lemma gate_check_accept_inv : forall bh p d f c,
  gate_check bh p d f = Accept c ->
  exists c0, d = DocConfig c0 /\ c = apply_cli_overrides c0 f /\ version_ok c0 = true /\
             validate_semantics bh p c0 = SemOk /\ context_from_config c = None /\
             (b_revalidate_cli bh = true -> validate_semantics bh p c = SemOk).
Proof.
  intros bh p d f c H. unfold gate_check in H.
  destruct (has_structure_params f && negb (f_has_path f)); [discriminate|].
  unfold load_config in H. destruct d as [|c0]; [discriminate|].
  destruct (version_ok c0) eqn:Ev; simpl in H; [|discriminate].
  destruct (validate_semantics bh p c0) eqn:Es; try (destruct e as [[? ?] ?]); try discriminate.
  exists c0. destruct (b_revalidate_cli bh) eqn:Er.
  - destruct (validate_semantics bh p (apply_cli_overrides c0 f)) eqn:Es2; try (destruct e as [[? ?] ?]); try discriminate.
    destruct (context_from_config (apply_cli_overrides c0 f)) as [[[? ?] ?]|] eqn:Ec; simpl in H; [discriminate|].
    inversion H; subst. repeat split; auto.
  - destruct (context_from_config (apply_cli_overrides c0 f)) as [[[? ?] ?]|] eqn:Ec; simpl in H; [discriminate|].
    inversion H; subst. repeat split; auto. discriminate.
Qed.

Lemma known_false_parts : forall bh c f, known17 bh c f = false ->
  k_rule_warn_threshold bh c = false /\ k_expires bh c = false /\ k_cli_after_validation bh c f = false /\
  k_overflow bh c = false /\ k_dormant_glob bh c = false /\ k_lenient_date bh c = false.
Proof.
  intros bh c f H. unfold known17 in H. orb_false. repeat split; assumption.
Qed.

Lemma existsb_false_forall : forall {A} (g : A -> bool) l, existsb g l = false -> forall x, In x l -> g x = false.
Proof.
  intros A g l H x Hin. destruct (g x) eqn:E; [|reflexivity].
  assert (existsb g l = true) by (apply existsb_exists; exists x; auto). congruence.
Qed.

Lemma dates_from_known : forall bh c,
  k_expires bh c = false -> k_lenient_date bh c = false -> b_expires bh && b_strict_dates bh = false ->
  (forall o, (exists r, In r (c_rules c) /\ o = cr_expires r) \/ (exists r, In r (s_rules c) /\ o = sr_expires r) -> opt_date_ok o = true).
Proof.
  intros bh c K2 K6 Eb.
  assert (E : existsb (fun r => negb (opt_date_ok (cr_expires r))) (c_rules c) ||
              existsb (fun r => negb (opt_date_ok (sr_expires r))) (s_rules c) = false).
  { unfold k_expires in K2. unfold k_lenient_date in K6.
    destruct (b_expires bh); destruct (b_strict_dates bh); simpl in *; try discriminate; assumption. }
  apply orb_false_iff in E. destruct E as [E1 E2].
  intros o [[r [Hin Ho]] | [r [Hin Ho]]]; subst o.
  - pose proof (existsb_false_forall _ _ E1 r Hin) as Hx. simpl in Hx. apply negb_false_true in Hx. exact Hx.
  - pose proof (existsb_false_forall _ _ E2 r Hin) as Hx. simpl in Hx. apply negb_false_true in Hx. exact Hx.
Qed.

Theorem gate_sound_modulo_known : forall bh p d f c,
  gate_check bh p d f = Accept c -> known17 bh c f = false -> in_domain c = true.
Proof.
  intros bh p d f c H Hk.
  destruct (gate_check_accept_inv _ _ _ _ _ H) as (c0 & Hd & Hc & Hv & Hs0 & Hctx & Hre).
  destruct (known_false_parts _ _ _ Hk) as (K1 & K2 & K3 & K4 & K5 & K6).
  destruct (validate_semantics_ok _ _ _ Hs0) as (S1 & S2 & S3 & S4).
  (* the semantic checks that the overrides can disturb hold of the effective configuration *)
  assert (Sem : sem_after_overrides bh c).
  { destruct (b_revalidate_cli bh) eqn:Er.
    - destruct (validate_semantics_ok _ _ _ (Hre eq_refl)) as (T1 & _ & _ & T4).
      unfold validate_structure in T4. apply orelse_none in T4. split; tauto.
    - destruct (flags_touch f) eqn:Ef.
      + unfold k_cli_after_validation in K3. rewrite Er, Ef in K3. simpl in K3.
        destruct (validate_content bh c ;; validate_structure_global c) eqn:E; [discriminate|].
        apply orelse_none in E. exact E.
      + rewrite (overrides_no_flags _ _ Ef) in Hc. subst c0.
        unfold validate_structure in S4. apply orelse_none in S4. split; tauto. }
  destruct Sem as [SC SG].
  (* fields the overrides never touch *)
  assert (Ev : version_ok c = true) by (subst c; exact Hv).
  assert (Eg : validate_globs bh c = None) by (subst c; exact S2).
  assert (Est : validate_stats bh p c = SemOk) by (subst c; exact S3).
  assert (Esr : first_err (struct_rule_sem bh) (s_rules c) 0 = None).
  { unfold validate_structure in S4. apply orelse_none in S4. subst c; tauto. }
  clear Hc Hs0 S1 S2 S3 S4 Hv Hre H Hd c0.
  (* checker construction *)
  unfold context_from_config in Hctx. apply orelse_none in Hctx. destruct Hctx as [Ht Hctx].
  apply orelse_none in Hctx. destruct Hctx as [Hsc Hscan].
  unfold threshold_checker_new in Ht. apply orelse_none in Ht. destruct Ht as [Ht1 Ht2].
  unfold structure_checker_new in Hsc. split_checks Hsc. rename G into Hlim, G0 into Hsib, G1 into Hmix, G2 into Hbr, Hsc into Hbs.
  unfold validate_limits in Hlim. split_checks Hlim. rename G into L1, G0 into L2, G1 into L3.
  apply guard_none in L1, L2, L3.
  unfold validate_mix in Hmix. apply orelse_none in Hmix. destruct Hmix as [M1 M2]. apply guard_none in M1.
  unfold validate_content in SC. split_checks SC. rename G into C1, G0 into C2. apply guard_none in C1, C2.
  unfold validate_structure_global in SG. split_checks SG. apply guard_none in SG.
  repeat match goal with G : guard _ _ _ _ = None |- _ => apply guard_none in G end.
  unfold validate_globs in Eg. apply orelse_none in Eg. destruct Eg as [E1 Eg]. apply orelse_none in Eg. destruct Eg as [E2 E3].
  apply glob_list_all_ok in E1, E2.
  (* stats *)
  assert (St := stats_ok_dom bh p c Est).
  assert (Hov : b_dur_checked bh = false ->
                match r_trend_since c with Some d => parse_duration false Debug d <> DurPanic | None => True end).
  { intros Eb. unfold k_overflow in K4. rewrite Eb in K4. simpl in K4.
    destruct (r_trend_since c) as [dd|]; [|exact I]. destruct (parse_duration false Debug dd); congruence. }
  destruct (St Hov) as (St1 & St2 & St3). clear St Hov.
  (* content rules *)
  assert (CR : forallb content_rule_dom (c_rules c) = true).
  { apply forallb_forall. intros r Hin.
    apply first_err_Forall in SC, Ht1. rewrite Forall_forall in SC, Ht1.
    destruct (SC r Hin) as [k1 Hk1]. destruct (Ht1 r Hin) as [k2 Hk2].
    eapply content_rule_parts; try eassumption.
    - intros Eb. unfold k_rule_warn_threshold in K1. rewrite Eb in K1. simpl in K1.
      exact (existsb_false_forall _ _ K1 r Hin).
    - intros Eb. apply (dates_from_known bh c K2 K6 Eb). left. exists r. split; [exact Hin | reflexivity]. }
  (* structure lists, depending on whether the scanner configuration is built *)
  assert (Lists : all_ok (s_count_exclude c) = true /\ all_ok (map snd (s_deny_patterns c)) = true /\
                  all_ok (s_deny_files c) = true /\ all_ok (s_deny_dirs c) = true /\
                  all_ok (s_allow_files c) = true /\ all_ok (s_allow_dirs c) = true /\
                  Forall (fun r => exists k, allowlist_rule_build k r = None) (s_rules c)).
  { unfold scan_config_build in Hscan. destruct (structure_enabled c) eqn:En.
    - apply orelse_none in Hscan. destruct Hscan as [B0 Hscan].
      apply orelse_none in Hscan. destruct Hscan as [B1 Hscan].
      apply orelse_none in Hscan. destruct Hscan as [B2 Hscan].
      apply orelse_none in Hscan. destruct Hscan as [B3 Hscan].
      apply orelse_none in Hscan. destruct Hscan as [B4 Hscan].
      apply orelse_none in Hscan. destruct Hscan as [B5 Hscan].
      apply orelse_none in Hscan. destruct Hscan as [B6 Hscan].
      apply orelse_none in Hscan. destruct Hscan as [B7 B8].
      apply first_err_Forall in B0.
      pose proof (deny_patterns_all_ok _ _ _ _ _ B5 B6) as DP.
      apply glob_list_all_ok in B1, B3, B4, B7, B8.
      repeat split; assumption.
    - destruct (structure_disabled_empty _ En) as (R0 & R1 & R2 & R3 & R4 & R5 & _).
      rewrite R0, R1, R2, R3, R4, R5. repeat split; try reflexivity; try constructor.
      destruct (b_count_exclude bh) eqn:Eb.
      + apply glob_list_all_ok in E3. exact E3.
      + unfold k_dormant_glob in K5. rewrite Eb, En in K5. simpl in K5.
        apply negb_false_true in K5. exact K5. }
  destruct Lists as (Q1 & Q2 & Q3 & Q4 & Q5 & Q6 & QR).
  (* structure rules *)
  assert (SR : forallb struct_rule_dom (s_rules c) = true).
  { apply forallb_forall. intros r Hin.
    apply first_err_Forall in Esr, Hlim, Hsib, M2, Hbr, Hbs.
    rewrite Forall_forall in Esr, Hlim, Hsib, M2, Hbr, Hbs, QR.
    destruct (Esr r Hin) as [k1 F1]. destruct (Hlim r Hin) as [k2 F2]. destruct (Hsib r Hin) as [k3 F3].
    destruct (M2 r Hin) as [k4 F4]. destruct (Hbr r Hin) as [k5 F5]. destruct (Hbs r Hin) as [k6 F6].
    destruct (QR r Hin) as [k7 F7].
    eapply struct_rule_parts; try eassumption.
    intros Eb. apply (dates_from_known bh c K2 K6 Eb). right. exists r. split; [exact Hin | reflexivity]. }
  unfold in_domain.
  rewrite Ev, E1, E2, CR, SR, Q1, Q2, Q3, Q4, Q5, Q6, St1, St2, St3.
  rewrite (limit_ok_of_bad _ L1), (limit_ok_of_bad _ L2), (limit_ok_of_bad _ L3).
  rewrite (negb_false_true _ C1), (warn_at_lt _ _ C2).
  rewrite (thr_ok_of_bad _ G), (thr_ok_of_bad _ G0), (thr_ok_of_bad _ G1).
  rewrite (warn_at_ok_of_bad _ _ G2 G4), (warn_at_ok_of_bad _ _ G3 SG).
  rewrite M1. reflexivity.
Qed.

(* ------------------------------------------------------------------ repaired tree: no class left *)

Definition repaired : behav := Build_behav true true true true true true true.

Lemma known17_repaired : forall c f, known17 repaired c f = false.
Proof. intros c f. reflexivity. Qed.

Theorem gate_sound_repaired : forall p d f c, gate_check repaired p d f = Accept c -> in_domain c = true.
Proof. intros p d f c H. eapply gate_sound_modulo_known; [exact H | apply known17_repaired]. Qed.

(* ------------------------------------------------------------------ config validate = check *)

Theorem validate_equals_check : forall bh p d,
  b_validate_builds bh = true -> gate_validate_cmd bh p d = gate_check bh p d no_flags.
Proof.
  intros bh p d Hb. unfold gate_validate_cmd, gate_check. simpl.
  unfold load_config. destruct d as [|c]; [reflexivity|].
  destruct (negb (version_ok c)); [reflexivity|].
  destruct (validate_semantics bh p c) as [|[[k i] j]|] eqn:E; try reflexivity.
  rewrite Hb. rewrite (overrides_no_flags c no_flags eq_refl).
  destruct (b_revalidate_cli bh); [rewrite E|]; reflexivity.
Qed.

(* ------------------------------------------------------------------ exit status, crash freedom *)

Lemma reject_is_exit2 : forall bh p d f v,
  accepts (gate_check bh p d f) = false -> gate_check bh p d f <> Crash -> exit_code (gate_check bh p d f) v = 2.
Proof. intros bh p d f v. destruct (gate_check bh p d f); simpl; congruence. Qed.

Lemma validate_stats_no_panic : forall bh p c,
  b_dur_checked bh = true \/ p = Release -> validate_stats bh p c <> SemPanic.
Proof.
  intros bh p c Hc. unfold validate_stats.
  destruct (first_err _ (r_exclude c) 0); [discriminate|].
  destruct (match r_breakdown_by c with Some b => _ | None => false end); [discriminate|].
  destruct (r_trend_since c) as [d|]; [|discriminate].
  destruct (parse_duration (b_dur_checked bh) p d) eqn:E; try discriminate.
  exfalso. destruct Hc as [Hc|Hc].
  - rewrite Hc in E. exact (parse_duration_checked_never_panics _ _ E).
  - subst p. exact (parse_duration_release_never_panics _ _ E).
Qed.

Lemma validate_semantics_no_panic : forall bh p c,
  b_dur_checked bh = true \/ p = Release -> validate_semantics bh p c <> SemPanic.
Proof.
  intros bh p c Hc. unfold validate_semantics.
  destruct (validate_content bh c ;; validate_globs bh c); [discriminate|].
  pose proof (validate_stats_no_panic bh p c Hc) as Hs.
  destruct (validate_stats bh p c); [destruct (validate_structure bh c); discriminate | discriminate | congruence].
Qed.

Theorem no_crash : forall bh p d f,
  b_dur_checked bh = true \/ p = Release ->
  gate_check bh p d f <> Crash /\ gate_validate_cmd bh p d <> Crash /\ gate_show bh p d <> Crash.
Proof.
  intros bh p d f Hc.
  assert (L : forall k, (forall c, k c <> Crash) -> load_config bh p d k <> Crash).
  { intros k Hk. unfold load_config. destruct d as [|c]; [discriminate|].
    destruct (negb (version_ok c)); [discriminate|].
    pose proof (validate_semantics_no_panic bh p c Hc) as Hs.
    destruct (validate_semantics bh p c) as [|[[? ?] ?]|]; [apply Hk | discriminate | congruence]. }
  assert (O : forall k o, o <> Crash -> of_check k o <> Crash).
  { intros [[[? ?] ?]|] o Ho; simpl; [discriminate | exact Ho]. }
  repeat split.
  - unfold gate_check. destruct (has_structure_params f && negb (f_has_path f)); [discriminate|].
    apply L. intros c. cbv zeta.
    destruct (b_revalidate_cli bh).
    + pose proof (validate_semantics_no_panic bh p (apply_cli_overrides c f) Hc) as Hs.
      destruct (validate_semantics bh p (apply_cli_overrides c f)) as [|[[? ?] ?]|]; [apply O; discriminate | discriminate | congruence].
    + apply O; discriminate.
  - unfold gate_validate_cmd. apply L. intros c. destruct (b_validate_builds bh); [apply O|]; discriminate.
  - unfold gate_show. apply L. intros c. discriminate.
Qed.

Lemma retention_checked_no_panic : forall p now days, retention_cutoff true p now days <> CutPanic.
Proof. intros p now days. unfold retention_cutoff. destruct (days * 86400 <? two64); discriminate. Qed.

(* ------------------------------------------------------------------ the threshold range test on f64 bits *)

(* bits of a finite non-negative binary64 not above 1.0, or negative zero: exactly what
   (0.0..=1.0).contains(x) accepts; every NaN (exponent all ones, mantissa non-zero) and both
   infinities are rejected because their bit patterns exceed one_bits and differ from negzero_bits *)
Lemma unit_range_rejects_nan_inf : forall bits,
  9218868437227405312 <= bits (* 0x7FF0000000000000: +inf and every positive NaN *) ->
  bits <> negzero_bits -> unit_range bits = false.
Proof.
  intros bits H Hn. unfold unit_range, one_bits, negzero_bits in *.
  apply orb_false_iff. split; [apply N.leb_gt; lia | apply N.eqb_neq; exact Hn].
Qed.

(* ------------------------------------------------------------------ witness material *)

(* Config::default() as the harness dumps it: scanner.exclude = [.git/ ** ], max_lines 600, warn_threshold 0.9 *)
Definition mk_config (max_lines : N) (wt : N) (warn_at : option N) (rules : list content_rule)
    (max_files : option Z) (warn_files_at : option Z) (count_exclude : list bool)
    (allow_ext : N) (deny_files : list bool) (srules : list struct_rule) (trend_since : option str) : config :=
  {| c_version := None; c_scanner_exclude := [true]; c_max_lines := max_lines; c_warn_threshold := wt; c_warn_at := warn_at;
     c_content_exclude := []; c_rules := rules;
     s_max_files := max_files; s_max_dirs := None; s_max_depth := None;
     s_warn_threshold := None; s_warn_files_threshold := None; s_warn_dirs_threshold := None;
     s_warn_files_at := warn_files_at; s_warn_dirs_at := None;
     s_count_exclude := count_exclude; s_deny_ext := 0; s_deny_patterns := []; s_deny_files := deny_files; s_deny_dirs := [];
     s_allow_ext := allow_ext; s_allow_files := []; s_allow_dirs := []; s_rules := srules;
     t_max_entries := None; t_max_age_days := None; t_min_interval_secs := None;
     r_exclude := []; r_breakdown_by := None; r_trend_since := trend_since; b_ratchet := None;
     k_warnings_as_errors := false; k_fail_fast := false |}.

Definition bits_0_9 : N := 4606281698874543309.   (* 0.9 *)
Definition bits_7_5 : N := 4620130267728707584.   (* 7.5 *)
Definition bits_7_0 : N := 4619567317775286272.   (* 7.0 *)
Definition bits_nan : N := 9221120237041090560.   (* f64::NAN *)

Definition default_config : config := mk_config 600 bits_0_9 None [] None None [] 0 [] [] None.

Definition mk_rule (ok : bool) (ml : N) (wt : option N) (ex : option str) : content_rule :=
  {| cr_pattern_ok := ok; cr_max_lines := ml; cr_warn_threshold := wt; cr_warn_at := None; cr_expires := ex |}.

Definition mk_srule (naming : option bool) (allow_patterns deny_dirs : list bool) : struct_rule :=
  {| sr_scope_ok := true; sr_max_files := None; sr_max_dirs := None; sr_max_depth := None;
     sr_warn_threshold := None; sr_warn_files_threshold := None; sr_warn_dirs_threshold := None;
     sr_warn_files_at := None; sr_warn_dirs_at := None; sr_allow_ext := 0;
     sr_allow_patterns := allow_patterns; sr_allow_files := []; sr_allow_dirs := []; sr_deny_ext := 0;
     sr_deny_patterns := []; sr_deny_files := []; sr_deny_dirs := deny_dirs; sr_naming := naming;
     sr_siblings := []; sr_expires := None |}.

(* the string soon *)
Definition s_soon : str := [115; 111; 111; 110].
(* 40000000000000w *)
Definition s_40e12w : str := [52;48;48;48;48;48;48;48;48;48;48;48;48;48;119].

Definition with_flags (ml : option N) (wt : option N) (mf : option Z) : flags :=
  {| f_has_path := true; f_max_lines := ml; f_warn_threshold := wt; f_max_files := mf; f_max_dirs := None; f_max_depth := None |}.

(* D19 documents *)
Definition doc_rule_wt : config := mk_config 600 bits_0_9 None [mk_rule true 10 (Some bits_7_5) None] None None [] 0 [] [] None.
Definition doc_rule_expires : config := mk_config 600 bits_0_9 None [mk_rule true 10 None (Some s_soon)] None None [] 0 [] [] None.
(* D18 documents *)
Definition doc_neg_limit : config := mk_config 600 bits_0_9 None [] (Some (-5)%Z) None [] 0 [] [] None.
Definition doc_bad_rule_glob : config := mk_config 600 bits_0_9 None [mk_rule false 10 None None] None None [] 0 [] [] None.
Definition doc_mix : config := mk_config 600 bits_0_9 None [] None None [] 1 [true] [] None.
Definition doc_bad_regex : config := mk_config 600 bits_0_9 None [] None None [] 0 [] [mk_srule (Some false) [] []] None.
(* D17 document *)
Definition doc_overflow : config := mk_config 600 bits_0_9 None [] None None [] 0 [] [] (Some s_40e12w).
(* D35 document *)
Definition doc_dormant : config := mk_config 600 bits_0_9 None [] None None [false] 0 [] [] None.

(* D61 documents: D19 repaired (expires is validated) but with the lenient parser *)
Definition pre_d61 : behav := Build_behav true true true true true true false.
(* 2025-02-31 and +2025-2-3 *)
Definition s_feb31 : str := [50;48;50;53;45;48;50;45;51;49].
Definition s_plus_unpadded : str := [43;50;48;50;53;45;50;45;51].
Definition doc_feb31 : config := mk_config 600 bits_0_9 None [mk_rule true 10 None (Some s_feb31)] None None [] 0 [] [] None.
Definition doc_plus_date : config := mk_config 600 bits_0_9 None [mk_rule true 10 None (Some s_plus_unpadded)] None None [] 0 [] [] None.
