(* Gate/Validate.v -- executable model of the configuration gate of sloc-guard (property C17).

   What is modelled (file: function):
     config/loader.rs      : validate_config_version
     config/validation.rs  : validate_config_semantics (content, globs, stats, structure; in that order)
     stats/duration.rs     : parse_duration (u64 product: unchecked = debug panic / release wrap)
     config/expires.rs     : ParsedDate::parse
     commands/check        : validate_and_resolve_paths, apply_cli_overrides, CheckContext::from_config
                             = ThresholdChecker::new, StructureChecker::new (structure/validation.rs,
                             builder.rs), build_structure_scan_config (allowlist.rs, structure_config.rs)
     commands/config.rs    : run_config_validate_impl, run_config_show_impl
   What enters as oracle data supplied by the harness (real crates): whether a TOML document
   deserialises into Config (DocInvalid otherwise), whether each glob compiles (globset) and whether
   each file_naming_pattern compiles (regex). Floats are the 64 bits of the f64 (N).

   The record [behav] selects, per repaired defect, between the behaviour of the pinned commit
   (all fields false) and the repaired behaviour; the check instantiates it with what /repo's
   working tree does (known_findings/C17.json: fixed entries; b_dur_checked is probed by the harness).
   Definitions only; proofs are in Proofs_C17.v. *)
From Coq Require Import NArith ZArith List Bool.
Import ListNotations.
Open Scope N_scope.

Definition str := list N.

Inductive profile := Debug | Release.

Record behav := {
  b_rule_wt : bool;          (* D19: content.rules[i].warn_threshold range is validated *)
  b_expires : bool;          (* D19: expires dates are validated *)
  b_revalidate_cli : bool;   (* D19: semantic validation runs again after the CLI overrides *)
  b_validate_builds : bool;  (* D18: config validate builds the check context (both checkers) *)
  b_dur_checked : bool;      (* D17: parse_duration uses checked_mul (owned by the C15 work) *)
  b_count_exclude : bool;    (* D35: structure.count_exclude globs are validated even when structure checks are off *)
  b_strict_dates : bool      (* D61: expires must be a calendar date written YYYY-MM-DD (fixed width, digits only) *)
}.
Definition pinned : behav := Build_behav false false false false false false false.

(* ------------------------------------------------------------------ strings *)

Fixpoint str_eqb (a b : str) : bool :=
  match a, b with
  | [], [] => true
  | x :: a', y :: b' => N.eqb x y && str_eqb a' b'
  | _, _ => false
  end.

Fixpoint prefixb (p s : str) : bool :=
  match p, s with
  | [], _ => true
  | x :: p', y :: s' => N.eqb x y && prefixb p' s'
  | _ :: _, [] => false
  end.

Fixpoint containsb (needle s : str) : bool :=
  prefixb needle s || match s with [] => false | _ :: s' => containsb needle s' end.

(* "{stem}" *)
Definition stem_marker : str := [123; 115; 116; 101; 109; 125].
Definition has_stem (s : str) : bool := containsb stem_marker s.
Definition is_empty {A} (s : list A) : bool := match s with [] => true | _ => false end.

(* char::to_lowercase restricted to results that can be ASCII: A-Z, and U+212A KELVIN SIGN -> k.
   Every other scalar value lowercases to something containing a non-ASCII scalar, which can never
   equal one of the ASCII keywords compared below, so it is left unchanged. *)
Definition lower (c : N) : N :=
  if (65 <=? c) && (c <=? 90) then c + 32 else if c =? 8490 then 107 else c.
Definition lower_str (s : str) : str := map lower s.

(* char::is_whitespace (White_Space property) *)
Definition is_ws (c : N) : bool :=
  ((9 <=? c) && (c <=? 13)) || (c =? 32) || (c =? 133) || (c =? 160) || (c =? 5760) ||
  ((8192 <=? c) && (c <=? 8202)) || (c =? 8232) || (c =? 8233) || (c =? 8239) || (c =? 8287) || (c =? 12288).

Fixpoint trim_start (s : str) : str :=
  match s with c :: s' => if is_ws c then trim_start s' else s | [] => [] end.
Definition trim (s : str) : str := rev (trim_start (rev (trim_start s))).

Definition is_digit (c : N) : bool := (48 <=? c) && (c <=? 57).

Fixpoint span_digits (s : str) (acc : N) (n : N) : N * N * str :=
  match s with
  | c :: s' => if is_digit c then span_digits s' (acc * 10 + (c - 48)) (n + 1) else (acc, n, s)
  | [] => (acc, n, [])
  end.

Definition kw (l : list N) : str := l.
Definition s_summary := kw [115;117;109;109;97;114;121].
Definition s_files := kw [102;105;108;101;115].
Definition s_breakdown := kw [98;114;101;97;107;100;111;119;110].
Definition s_trend := kw [116;114;101;110;100].
Definition s_lang := kw [108;97;110;103].
Definition s_language := kw [108;97;110;103;117;97;103;101].
Definition s_dir := kw [100;105;114].
Definition s_directory := kw [100;105;114;101;99;116;111;114;121].
Definition s_two := kw [50].

Definition mem_str (s : str) (l : list str) : bool := existsb (str_eqb s) l.

(* ------------------------------------------------------------------ durations (stats/duration.rs) *)

Definition two64 : N := 18446744073709551616.

Inductive dur_result := DurOk (secs : N) | DurErr | DurPanic.

Definition unit_mult (u : str) : option N :=
  let u := lower_str u in
  if mem_str u [[115]; [115;101;99]; [115;101;99;115]; [115;101;99;111;110;100]; [115;101;99;111;110;100;115]] then Some 1
  else if mem_str u [[109]; [109;105;110]; [109;105;110;115]; [109;105;110;117;116;101]; [109;105;110;117;116;101;115]] then Some 60
  else if mem_str u [[104]; [104;114]; [104;114;115]; [104;111;117;114]; [104;111;117;114;115]] then Some 3600
  else if mem_str u [[100]; [100;97;121]; [100;97;121;115]] then Some 86400
  else if mem_str u [[119]; [119;107]; [119;107;115]; [119;101;101;107]; [119;101;101;107;115]] then Some 604800
  else None.

Definition parse_duration (checked : bool) (p : profile) (input : str) : dur_result :=
  let s := trim input in
  match s with
  | [] => DurErr
  | _ =>
    let '(v, n, rest) := span_digits s 0 0 in
    match rest with
    | [] => DurErr                      (* missing unit *)
    | _ =>
      if n =? 0 then DurErr            (* missing number *)
      else if two64 <=? v then DurErr  (* u64 parse overflow *)
      else if v =? 0 then DurErr
      else match unit_mult rest with
           | None => DurErr
           | Some m =>
             let prod := v * m in
             if prod <? two64 then DurOk prod
             else if checked then DurErr
             else match p with Debug => DurPanic | Release => DurOk (prod mod two64) end
           end
    end
  end.

(* what the number means without a word size: the documented meaning of <number><unit> *)
Definition duration_value (input : str) : option N :=
  match parse_duration true Release input with DurOk v => Some v | _ => None end.

(* trend retention cutoff (stats/trend.rs apply_retention): now.saturating_sub(days * 86400) *)
Inductive cutoff_result := CutOk (c : N) | CutPanic.
Definition retention_cutoff (checked : bool) (p : profile) (now days : N) : cutoff_result :=
  let prod := days * 86400 in
  if prod <? two64 then CutOk (now - prod)
  else if checked then CutOk (now - (two64 - 1))
  else match p with Debug => CutPanic | Release => CutOk (now - (prod mod two64)) end.

(* ------------------------------------------------------------------ dates (config/expires.rs) *)

Fixpoint split_dash (s : str) (cur : str) : list str :=
  match s with
  | [] => [rev cur]
  | c :: s' => if c =? 45 then rev cur :: split_dash s' [] else split_dash s' (c :: cur)
  end.

(* <uN as FromStr>: optional leading +, then one or more ASCII digits, value <= max *)
Definition parse_uint (max : N) (s : str) : option N :=
  let body := match s with 43 :: r => r | _ => s end in
  match body with
  | [] => None
  | _ => let '(v, _, rest) := span_digits body 0 0 in
         match rest with
         | [] => if v <=? max then Some v else None
         | _ => None
         end
  end.

Definition date_valid (s : str) : bool :=
  match split_dash s [] with
  | [y; m; d] =>
    match parse_uint 65535 y, parse_uint 255 m, parse_uint 255 d with
    | Some _, Some mv, Some dv => (1 <=? mv) && (mv <=? 12) && (1 <=? dv) && (dv <=? 31)
    | _, _, _ => false
    end
  | _ => false
  end.

(* the documented format and meaning: exactly YYYY-MM-DD in ASCII digits, month 1-12, day within the month
   (proleptic Gregorian leap years); also what ParsedDate::parse accepts once D61 is repaired *)
Definition digits_value (l : list N) : option N :=
  if forallb is_digit l then Some (fold_left (fun acc c => acc * 10 + (c - 48)) l 0) else None.

Definition is_leap (y : N) : bool := (y mod 4 =? 0) && (negb (y mod 100 =? 0) || (y mod 400 =? 0)).
Definition days_in_month (y m : N) : N :=
  if (m =? 4) || (m =? 6) || (m =? 9) || (m =? 11) then 30
  else if m =? 2 then (if is_leap y then 29 else 28) else 31.

Definition date_strict (s : str) : bool :=
  match s with
  | [y1; y2; y3; y4; d1; m1; m2; d2; a1; a2] =>
    (d1 =? 45) && (d2 =? 45) &&
    match digits_value [y1; y2; y3; y4], digits_value [m1; m2], digits_value [a1; a2] with
    | Some y, Some m, Some d => (1 <=? m) && (m <=? 12) && (1 <=? d) && (d <=? days_in_month y m)
    | _, _, _ => false
    end
  | _ => false
  end.

(* ------------------------------------------------------------------ floats: (0.0..=1.0).contains(x) on f64 bits *)

Definition one_bits : N := 4607182418800017408.        (* 0x3FF0000000000000 *)
Definition negzero_bits : N := 9223372036854775808.    (* 0x8000000000000000 *)
Definition unit_range (bits : N) : bool := (bits <=? one_bits) || (bits =? negzero_bits).

(* ------------------------------------------------------------------ typed configuration *)

Record content_rule := {
  cr_pattern_ok : bool;
  cr_max_lines : N;
  cr_warn_threshold : option N;
  cr_warn_at : option N;
  cr_expires : option str
}.

Inductive sibling :=
| SDirected (mtch : str) (mtch_ok : bool) (require : list str)
| SGroup (grp : list str).

Record struct_rule := {
  sr_scope_ok : bool;
  sr_max_files : option Z; sr_max_dirs : option Z; sr_max_depth : option Z;
  sr_warn_threshold : option N; sr_warn_files_threshold : option N; sr_warn_dirs_threshold : option N;
  sr_warn_files_at : option Z; sr_warn_dirs_at : option Z;
  sr_allow_ext : N;                      (* number of entries; only emptiness matters *)
  sr_allow_patterns : list bool; sr_allow_files : list bool; sr_allow_dirs : list bool;
  sr_deny_ext : N;
  sr_deny_patterns : list bool; sr_deny_files : list bool; sr_deny_dirs : list bool;
  sr_naming : option bool;               (* file_naming_pattern: Some ok *)
  sr_siblings : list sibling;
  sr_expires : option str
}.

Record config := {
  c_version : option str;
  c_scanner_exclude : list bool;
  c_max_lines : N;
  c_warn_threshold : N;
  c_warn_at : option N;
  c_content_exclude : list bool;
  c_rules : list content_rule;
  s_max_files : option Z; s_max_dirs : option Z; s_max_depth : option Z;
  s_warn_threshold : option N; s_warn_files_threshold : option N; s_warn_dirs_threshold : option N;
  s_warn_files_at : option Z; s_warn_dirs_at : option Z;
  s_count_exclude : list bool;
  s_deny_ext : N;
  s_deny_patterns : list (bool * bool);  (* (ends with slash, compiles after trimming the slashes) *)
  s_deny_files : list bool; s_deny_dirs : list bool;
  s_allow_ext : N;
  s_allow_files : list bool; s_allow_dirs : list bool;
  s_rules : list struct_rule;
  t_max_entries : option N; t_max_age_days : option N; t_min_interval_secs : option N;
  r_exclude : list str; r_breakdown_by : option str; r_trend_since : option str;
  b_ratchet : option N;
  k_warnings_as_errors : bool; k_fail_fast : bool
}.

Inductive document := DocInvalid | DocConfig (c : config).

Record flags := {
  f_has_path : bool;
  f_max_lines : option N;
  f_warn_threshold : option N;
  f_max_files : option Z; f_max_dirs : option Z; f_max_depth : option Z
}.
Definition no_flags : flags := Build_flags false None None None None None.

(* ------------------------------------------------------------------ outcomes *)

Inductive rkind :=
| RPathRequired | RParse | RVersion
| RContentWarnThreshold | RContentWarnAt | RContentRuleWarnAt | RContentRuleWarnThreshold | RContentRuleExpires
| RGlobScannerExclude | RGlobContentExclude
| RReportExclude | RBreakdownBy | RTrendSince
| RStructThreshold | RStructWarnAtNeg | RStructWarnAtLimit
| RRuleThreshold | RRuleWarnAtNeg | RRuleWarnAtLimit | RStructRuleExpires
| RGlobContentRule
| RLimit | RRuleLimit
| RSiblingEmptyMatch | RSiblingEmptyRequire | RSiblingEmptyPattern | RSiblingNoStem | RSiblingGroupSize
| RMixGlobal | RMixRule
| RGlobScope | RGlobSiblingMatch
| RGlobRuleList | RRegex
| RGlobCountExclude | RGlobGlobalList.

(* an error: kind, first index (rule number or element), second index (sub-field or element) *)
Definition err := (rkind * N * N)%type.
Inductive outcome := Accept (c : config) | Reject (k : rkind) (i j : N) | Crash.

Definition check := option err.
Definition orelse (a b : check) : check := match a with Some e => Some e | None => b end.
Infix ";;" := orelse (at level 61, right associativity).
Definition guard (bad : bool) (k : rkind) (i j : N) : check := if bad then Some (k, i, j) else None.
Definition is_none {A} (o : option A) : bool := match o with None => true | Some _ => false end.

(* first error over a list, elements numbered from i *)
Fixpoint first_err {A} (f : N -> A -> check) (l : list A) (i : N) : check :=
  match l with
  | [] => None
  | x :: l' => match f i x with Some e => Some e | None => first_err f l' (i + 1) end
  end.

Definition glob_list (k : rkind) (ri : N) (l : list bool) : check :=
  first_err (fun j ok => guard (negb ok) k ri j) l 0.

(* ------------------------------------------------------------------ loader: version *)

Definition version_ok (c : config) : bool :=
  match c_version c with None => true | Some v => str_eqb v s_two end.

(* ------------------------------------------------------------------ validation.rs *)

Definition opt_thr_bad (o : option N) : bool := match o with Some b => negb (unit_range b) | None => false end.
Definition opt_neg (o : option Z) : bool := match o with Some z => (z <? 0)%Z | None => false end.
Definition warn_at_vs_limit_bad (w m : option Z) : bool :=
  match w, m with Some w, Some m => (0 <=? m)%Z && (m <=? w)%Z | _, _ => false end.

Definition gate_date (bh : behav) (d : str) : bool := if b_strict_dates bh then date_strict d else date_valid d.

Definition content_rule_sem (bh : behav) (i : N) (r : content_rule) : check :=
  guard (match cr_warn_at r with Some w => cr_max_lines r <=? w | None => false end) RContentRuleWarnAt i 0 ;;
  guard (b_rule_wt bh && opt_thr_bad (cr_warn_threshold r)) RContentRuleWarnThreshold i 0 ;;
  guard (b_expires bh && match cr_expires r with Some d => negb (gate_date bh d) | None => false end) RContentRuleExpires i 0.

Definition validate_content (bh : behav) (c : config) : check :=
  guard (negb (unit_range (c_warn_threshold c))) RContentWarnThreshold 0 0 ;;
  guard (match c_warn_at c with Some w => c_max_lines c <=? w | None => false end) RContentWarnAt 0 0 ;;
  first_err (content_rule_sem bh) (c_rules c) 0.

Definition validate_globs (bh : behav) (c : config) : check :=
  glob_list RGlobScannerExclude 0 (c_scanner_exclude c) ;;
  glob_list RGlobContentExclude 0 (c_content_exclude c) ;;
  (if b_count_exclude bh then glob_list RGlobCountExclude 0 (s_count_exclude c) else None).

Inductive sem_result := SemOk | SemErr (e : err) | SemPanic.

Definition validate_stats (bh : behav) (p : profile) (c : config) : sem_result :=
  match first_err (fun i s => guard (negb (mem_str (lower_str s) [s_summary; s_files; s_breakdown; s_trend])) RReportExclude i 0)
                  (r_exclude c) 0 with
  | Some e => SemErr e
  | None =>
    match (match r_breakdown_by c with
           | Some b => negb (mem_str (lower_str b) [s_lang; s_language; s_dir; s_directory])
           | None => false end) with
    | true => SemErr (RBreakdownBy, 0, 0)
    | false =>
      match r_trend_since c with
      | None => SemOk
      | Some d => match parse_duration (b_dur_checked bh) p d with
                  | DurOk _ => SemOk
                  | DurErr => SemErr (RTrendSince, 0, 0)
                  | DurPanic => SemPanic
                  end
      end
    end
  end.

Definition validate_structure_global (c : config) : check :=
  guard (opt_thr_bad (s_warn_threshold c)) RStructThreshold 0 0 ;;
  guard (opt_thr_bad (s_warn_files_threshold c)) RStructThreshold 0 1 ;;
  guard (opt_thr_bad (s_warn_dirs_threshold c)) RStructThreshold 0 2 ;;
  guard (opt_neg (s_warn_files_at c)) RStructWarnAtNeg 0 1 ;;
  guard (opt_neg (s_warn_dirs_at c)) RStructWarnAtNeg 0 2 ;;
  guard (warn_at_vs_limit_bad (s_warn_files_at c) (s_max_files c)) RStructWarnAtLimit 0 1 ;;
  guard (warn_at_vs_limit_bad (s_warn_dirs_at c) (s_max_dirs c)) RStructWarnAtLimit 0 2.

Definition struct_rule_sem (bh : behav) (i : N) (r : struct_rule) : check :=
  guard (opt_thr_bad (sr_warn_threshold r)) RRuleThreshold i 0 ;;
  guard (opt_thr_bad (sr_warn_files_threshold r)) RRuleThreshold i 1 ;;
  guard (opt_thr_bad (sr_warn_dirs_threshold r)) RRuleThreshold i 2 ;;
  guard (opt_neg (sr_warn_files_at r)) RRuleWarnAtNeg i 1 ;;
  guard (opt_neg (sr_warn_dirs_at r)) RRuleWarnAtNeg i 2 ;;
  guard (warn_at_vs_limit_bad (sr_warn_files_at r) (sr_max_files r)) RRuleWarnAtLimit i 1 ;;
  guard (warn_at_vs_limit_bad (sr_warn_dirs_at r) (sr_max_dirs r)) RRuleWarnAtLimit i 2 ;;
  guard (b_expires bh && match sr_expires r with Some d => negb (gate_date bh d) | None => false end) RStructRuleExpires i 0.

Definition validate_structure (bh : behav) (c : config) : check :=
  validate_structure_global c ;; first_err (struct_rule_sem bh) (s_rules c) 0.

Definition validate_semantics (bh : behav) (p : profile) (c : config) : sem_result :=
  match validate_content bh c ;; validate_globs bh c with
  | Some e => SemErr e
  | None =>
    match validate_stats bh p c with
    | SemOk => match validate_structure bh c with Some e => SemErr e | None => SemOk end
    | r => r
    end
  end.

(* ------------------------------------------------------------------ check_args.rs *)

Definition or_flag {A} (f : option A) (x : A) : A := match f with Some v => v | None => x end.
Definition or_flag_opt {A} (f : option A) (x : option A) : option A := match f with Some v => Some v | None => x end.

Definition apply_cli_overrides (c : config) (f : flags) : config :=
  {| c_version := c_version c; c_scanner_exclude := c_scanner_exclude c;
     c_max_lines := or_flag (f_max_lines f) (c_max_lines c);
     c_warn_threshold := or_flag (f_warn_threshold f) (c_warn_threshold c);
     c_warn_at := c_warn_at c; c_content_exclude := c_content_exclude c; c_rules := c_rules c;
     s_max_files := or_flag_opt (f_max_files f) (s_max_files c);
     s_max_dirs := or_flag_opt (f_max_dirs f) (s_max_dirs c);
     s_max_depth := or_flag_opt (f_max_depth f) (s_max_depth c);
     s_warn_threshold := s_warn_threshold c; s_warn_files_threshold := s_warn_files_threshold c;
     s_warn_dirs_threshold := s_warn_dirs_threshold c;
     s_warn_files_at := s_warn_files_at c; s_warn_dirs_at := s_warn_dirs_at c;
     s_count_exclude := s_count_exclude c; s_deny_ext := s_deny_ext c; s_deny_patterns := s_deny_patterns c;
     s_deny_files := s_deny_files c; s_deny_dirs := s_deny_dirs c; s_allow_ext := s_allow_ext c;
     s_allow_files := s_allow_files c; s_allow_dirs := s_allow_dirs c; s_rules := s_rules c;
     t_max_entries := t_max_entries c; t_max_age_days := t_max_age_days c;
     t_min_interval_secs := t_min_interval_secs c;
     r_exclude := r_exclude c; r_breakdown_by := r_breakdown_by c; r_trend_since := r_trend_since c;
     b_ratchet := b_ratchet c;
     k_warnings_as_errors := k_warnings_as_errors c; k_fail_fast := k_fail_fast c |}.

Definition has_structure_params (f : flags) : bool :=
  negb (is_none (f_max_files f)) || negb (is_none (f_max_dirs f)) || negb (is_none (f_max_depth f)).

Definition flags_touch (f : flags) : bool :=
  has_structure_params f || negb (is_none (f_max_lines f)) || negb (is_none (f_warn_threshold f)).

(* ------------------------------------------------------------------ checker construction *)

Definition limit_bad (o : option Z) : bool := match o with Some z => (z <? -1)%Z | None => false end.

Definition validate_limits (c : config) : check :=
  guard (limit_bad (s_max_files c)) RLimit 0 0 ;;
  guard (limit_bad (s_max_dirs c)) RLimit 0 1 ;;
  guard (limit_bad (s_max_depth c)) RLimit 0 2 ;;
  first_err (fun i r =>
    guard (limit_bad (sr_max_files r)) RRuleLimit i 0 ;;
    guard (limit_bad (sr_max_dirs r)) RRuleLimit i 1 ;;
    guard (limit_bad (sr_max_depth r)) RRuleLimit i 2) (s_rules c) 0.

Definition pattern_wf (i j : N) (p : str) : check :=
  guard (is_empty p) RSiblingEmptyPattern i j ;; guard (negb (has_stem p)) RSiblingNoStem i j.

Definition sibling_wf (i j : N) (s : sibling) : check :=
  match s with
  | SDirected m _ req =>
    guard (is_empty m) RSiblingEmptyMatch i j ;;
    guard (is_empty req) RSiblingEmptyRequire i j ;;
    first_err (fun _ p => pattern_wf i j p) req 0
  | SGroup g =>
    guard (N.of_nat (length g) <? 2) RSiblingGroupSize i j ;;
    first_err (fun _ p => pattern_wf i j p) g 0
  end.

Definition validate_siblings (c : config) : check :=
  first_err (fun i r => first_err (sibling_wf i) (sr_siblings r) 0) (s_rules c) 0.

Definition nonempty {A} (l : list A) : bool := match l with [] => false | _ => true end.

Definition global_has_allow (c : config) : bool :=
  nonempty (s_allow_files c) || nonempty (s_allow_dirs c) || negb (s_allow_ext c =? 0).
Definition global_has_deny (c : config) : bool :=
  nonempty (s_deny_files c) || nonempty (s_deny_dirs c) || negb (s_deny_ext c =? 0) || nonempty (s_deny_patterns c).
Definition rule_has_allow (r : struct_rule) : bool :=
  nonempty (sr_allow_files r) || nonempty (sr_allow_dirs r) || negb (sr_allow_ext r =? 0) || nonempty (sr_allow_patterns r).
Definition rule_has_deny (r : struct_rule) : bool :=
  nonempty (sr_deny_files r) || nonempty (sr_deny_dirs r) || negb (sr_deny_ext r =? 0) || nonempty (sr_deny_patterns r).

Definition validate_mix (c : config) : check :=
  guard (global_has_allow c && global_has_deny c) RMixGlobal 0 0 ;;
  first_err (fun i r => guard (rule_has_allow r && rule_has_deny r) RMixRule i 0) (s_rules c) 0.

Definition build_rules (c : config) : check :=
  first_err (fun i r => guard (negb (sr_scope_ok r)) RGlobScope i 0) (s_rules c) 0.

Definition build_sibling_rules (c : config) : check :=
  first_err (fun i r =>
    guard (negb (sr_scope_ok r)) RGlobScope i 0 ;;
    first_err (fun j s => match s with SDirected _ ok _ => guard (negb ok) RGlobSiblingMatch i j | SGroup _ => None end)
              (sr_siblings r) 0) (s_rules c) 0.

Definition structure_checker_new (c : config) : check :=
  validate_limits c ;; validate_siblings c ;; validate_mix c ;; build_rules c ;; build_sibling_rules c.

Definition threshold_checker_new (c : config) : check :=
  first_err (fun i r => guard (negb (cr_pattern_ok r)) RGlobContentRule i 0) (c_rules c) 0 ;;
  glob_list RGlobContentExclude 0 (c_content_exclude c).

Definition structure_enabled (c : config) : bool :=
  negb (is_none (s_max_files c)) || negb (is_none (s_max_dirs c)) || negb (is_none (s_max_depth c)) ||
  nonempty (s_rules c) || negb (s_allow_ext c =? 0) || nonempty (s_allow_files c) || nonempty (s_allow_dirs c) ||
  negb (s_deny_ext c =? 0) || nonempty (s_deny_patterns c) || nonempty (s_deny_files c) || nonempty (s_deny_dirs c).

Definition rule_has_lists (r : struct_rule) : bool :=
  rule_has_allow r || rule_has_deny r || negb (is_none (sr_naming r)).

(* AllowlistRuleBuilder::build; sub-field numbers: 0 scope 1 allow_patterns 2 allow_files 3 allow_dirs
   4 deny_patterns 5 deny_files 6 deny_dirs *)
Definition allowlist_rule_build (i : N) (r : struct_rule) : check :=
  if rule_has_lists r then
    guard (negb (sr_scope_ok r)) RGlobScope i 0 ;;
    glob_list RGlobRuleList (i * 8 + 1) (sr_allow_patterns r) ;;
    glob_list RGlobRuleList (i * 8 + 2) (sr_allow_files r) ;;
    glob_list RGlobRuleList (i * 8 + 3) (sr_allow_dirs r) ;;
    glob_list RGlobRuleList (i * 8 + 4) (sr_deny_patterns r) ;;
    glob_list RGlobRuleList (i * 8 + 5) (sr_deny_files r) ;;
    glob_list RGlobRuleList (i * 8 + 6) (sr_deny_dirs r) ;;
    guard (match sr_naming r with Some ok => negb ok | None => false end) RRegex i 0
  else None.

(* StructureScanConfig::from_builder; list numbers: 1 scanner_exclude 2 allow_files 3 allow_dirs
   4 deny_patterns (file patterns) 5 deny_patterns (directory patterns) 6 deny_files 7 deny_dirs *)
Definition scan_config_build (c : config) : check :=
  if structure_enabled c then
    first_err allowlist_rule_build (s_rules c) 0 ;;
    glob_list RGlobCountExclude 0 (s_count_exclude c) ;;
    glob_list RGlobGlobalList 1 (c_scanner_exclude c) ;;
    glob_list RGlobGlobalList 2 (s_allow_files c) ;;
    glob_list RGlobGlobalList 3 (s_allow_dirs c) ;;
    glob_list RGlobGlobalList 4 (map snd (filter (fun x => negb (fst x)) (s_deny_patterns c))) ;;
    glob_list RGlobGlobalList 5 (map snd (filter (fun x => fst x) (s_deny_patterns c))) ;;
    glob_list RGlobGlobalList 6 (s_deny_files c) ;;
    glob_list RGlobGlobalList 7 (s_deny_dirs c)
  else None.

Definition context_from_config (c : config) : check :=
  threshold_checker_new c ;; structure_checker_new c ;; scan_config_build c.

(* ------------------------------------------------------------------ the three commands *)

Definition of_check (k : check) (ok : outcome) : outcome :=
  match k with Some (r, i, j) => Reject r i j | None => ok end.

Definition load_config (bh : behav) (p : profile) (d : document) (k : config -> outcome) : outcome :=
  match d with
  | DocInvalid => Reject RParse 0 0
  | DocConfig c =>
    if negb (version_ok c) then Reject RVersion 0 0
    else match validate_semantics bh p c with
         | SemErr (r, i, j) => Reject r i j
         | SemPanic => Crash
         | SemOk => k c
         end
  end.

(* sloc-guard check [flags] [PATH] *)
Definition gate_check (bh : behav) (p : profile) (d : document) (f : flags) : outcome :=
  if has_structure_params f && negb (f_has_path f) then Reject RPathRequired 0 0
  else load_config bh p d (fun c =>
    let c' := apply_cli_overrides c f in
    let after :=
      of_check (context_from_config c') (Accept c') in
    if b_revalidate_cli bh then
      match validate_semantics bh p c' with
      | SemErr (r, i, j) => Reject r i j
      | SemPanic => Crash
      | SemOk => after
      end
    else after).

(* sloc-guard config validate -c FILE *)
Definition gate_validate_cmd (bh : behav) (p : profile) (d : document) : outcome :=
  load_config bh p d (fun c =>
    if b_validate_builds bh then of_check (context_from_config c) (Accept c) else Accept c).

(* sloc-guard config show, sloc-guard stats ... : load + semantic validation only *)
Definition gate_show (bh : behav) (p : profile) (d : document) : outcome :=
  load_config bh p d (fun c => Accept c).

Definition exit_code (o : outcome) (verdict : N) : N :=
  match o with Accept _ => verdict | Reject _ _ _ => 2 | Crash => 101 end.

Definition accepts (o : outcome) : bool := match o with Accept _ => true | _ => false end.

(* ------------------------------------------------------------------ the documented domain *)

Definition opt_thr_ok (o : option N) : bool := match o with Some b => unit_range b | None => true end.
Definition opt_limit_ok (o : option Z) : bool := match o with Some z => (-1 <=? z)%Z | None => true end.
Definition opt_warn_at_ok (w m : option Z) : bool :=
  match w with
  | None => true
  | Some w => (0 <=? w)%Z && match m with Some m => (m <? 0)%Z || (w <? m)%Z | None => true end
  end.
Definition opt_date_ok (o : option str) : bool := match o with Some d => date_strict d | None => true end.
Definition all_ok (l : list bool) : bool := forallb (fun b => b) l.

Definition content_rule_dom (r : content_rule) : bool :=
  cr_pattern_ok r && opt_thr_ok (cr_warn_threshold r) &&
  match cr_warn_at r with Some w => w <? cr_max_lines r | None => true end &&
  opt_date_ok (cr_expires r).

Definition pattern_dom (p : str) : bool := negb (is_empty p) && has_stem p.
Definition sibling_dom (s : sibling) : bool :=
  match s with
  | SDirected m ok req => negb (is_empty m) && ok && negb (is_empty req) && forallb pattern_dom req
  | SGroup g => (2 <=? N.of_nat (length g)) && forallb pattern_dom g
  end.

Definition struct_rule_dom (r : struct_rule) : bool :=
  sr_scope_ok r &&
  opt_limit_ok (sr_max_files r) && opt_limit_ok (sr_max_dirs r) && opt_limit_ok (sr_max_depth r) &&
  opt_thr_ok (sr_warn_threshold r) && opt_thr_ok (sr_warn_files_threshold r) && opt_thr_ok (sr_warn_dirs_threshold r) &&
  opt_warn_at_ok (sr_warn_files_at r) (sr_max_files r) && opt_warn_at_ok (sr_warn_dirs_at r) (sr_max_dirs r) &&
  all_ok (sr_allow_patterns r) && all_ok (sr_allow_files r) && all_ok (sr_allow_dirs r) &&
  all_ok (sr_deny_patterns r) && all_ok (sr_deny_files r) && all_ok (sr_deny_dirs r) &&
  match sr_naming r with Some ok => ok | None => true end &&
  negb (rule_has_allow r && rule_has_deny r) &&
  forallb sibling_dom (sr_siblings r) &&
  opt_date_ok (sr_expires r).

Definition duration_dom (o : option str) : bool :=
  match o with Some d => negb (is_none (duration_value d)) | None => true end.

Definition in_domain (c : config) : bool :=
  version_ok c &&
  unit_range (c_warn_threshold c) &&
  match c_warn_at c with Some w => w <? c_max_lines c | None => true end &&
  all_ok (c_scanner_exclude c) && all_ok (c_content_exclude c) &&
  forallb content_rule_dom (c_rules c) &&
  opt_limit_ok (s_max_files c) && opt_limit_ok (s_max_dirs c) && opt_limit_ok (s_max_depth c) &&
  opt_thr_ok (s_warn_threshold c) && opt_thr_ok (s_warn_files_threshold c) && opt_thr_ok (s_warn_dirs_threshold c) &&
  opt_warn_at_ok (s_warn_files_at c) (s_max_files c) && opt_warn_at_ok (s_warn_dirs_at c) (s_max_dirs c) &&
  all_ok (s_count_exclude c) && all_ok (map snd (s_deny_patterns c)) &&
  all_ok (s_deny_files c) && all_ok (s_deny_dirs c) && all_ok (s_allow_files c) && all_ok (s_allow_dirs c) &&
  negb (global_has_allow c && global_has_deny c) &&
  forallb struct_rule_dom (s_rules c) &&
  forallb (fun s => mem_str (lower_str s) [s_summary; s_files; s_breakdown; s_trend]) (r_exclude c) &&
  match r_breakdown_by c with Some b => mem_str (lower_str b) [s_lang; s_language; s_dir; s_directory] | None => true end &&
  duration_dom (r_trend_since c).

(* ------------------------------------------------------------------ known defect classes (executable) *)

Definition k_rule_warn_threshold (bh : behav) (c : config) : bool :=
  negb (b_rule_wt bh) && existsb (fun r => opt_thr_bad (cr_warn_threshold r)) (c_rules c).

Definition k_expires (bh : behav) (c : config) : bool :=
  negb (b_expires bh) &&
  (existsb (fun r => negb (opt_date_ok (cr_expires r))) (c_rules c) ||
   existsb (fun r => negb (opt_date_ok (sr_expires r))) (s_rules c)).

(* expires is validated, but with the lenient parser (signs, unpadded fields, day 31 in every month) *)
Definition k_lenient_date (bh : behav) (c : config) : bool :=
  b_expires bh && negb (b_strict_dates bh) &&
  (existsb (fun r => negb (opt_date_ok (cr_expires r))) (c_rules c) ||
   existsb (fun r => negb (opt_date_ok (sr_expires r))) (s_rules c)).

(* values overridden from the command line are never validated: the effective configuration fails a
   check that validation.rs would have applied to the file *)
Definition k_cli_after_validation (bh : behav) (c : config) (f : flags) : bool :=
  negb (b_revalidate_cli bh) && flags_touch f &&
  negb (is_none (validate_content bh c ;; validate_structure_global c)).

Definition k_overflow (bh : behav) (c : config) : bool :=
  negb (b_dur_checked bh) &&
  match r_trend_since c with
  | Some d => match parse_duration false Debug d with DurPanic => true | _ => false end
  | None => false
  end.

Definition k_dormant_glob (bh : behav) (c : config) : bool :=
  negb (b_count_exclude bh) && negb (structure_enabled c) && negb (all_ok (s_count_exclude c)).

Definition known17 (bh : behav) (c : config) (f : flags) : bool :=
  k_rule_warn_threshold bh c || k_expires bh c || k_cli_after_validation bh c f ||
  k_overflow bh c || k_dormant_glob bh c || k_lenient_date bh c.
