(* Properties_C17.v -- C17: configuration gate (invalid settings exit 2, never enforced, never a crash).
   Property theorems only; each is closed by [exact <lemma>] or a [vm_compute] witness and followed by
   Print Assumptions. The model is Gate/Validate.v. [behav] selects, per defect, between the pinned
   commit ([pinned]: nothing repaired) and the repaired code ([repaired]); [Gen_Presets.current] is what
   /repo's working tree does (regenerated on every run together with the preset / template table).
   Glob, regex and TOML typing results are data of the configuration value (oracle bits), so every
   theorem below quantifies over them as well. *)
From Coq Require Import NArith ZArith List Bool.
From SG Require Import Gate.Validate Gate.Proofs_C17 Gen.Gen_Presets.
Import ListNotations.
Open Scope N_scope.

(* ---- soundness of the gate: what check accepts is inside the documented domain *)

(* for every behaviour variant, build profile, document, flag set: an accepted effective configuration
   is in the documented domain unless it falls in one of the executable defect classes of known17 *)
Theorem C17_gate_sound_modulo_known : forall (bh : behav) (p : profile) (d : document) (f : flags) (c : config),
  gate_check bh p d f = Accept c -> known17 bh c f = false -> in_domain c = true.
Proof. exact gate_sound_modulo_known. Qed.
Print Assumptions C17_gate_sound_modulo_known.

(* with D17, D18, D19, D35 and D61 repaired no class is left: the full statement *)
Theorem C17_gate_sound_repaired : forall (p : profile) (d : document) (f : flags) (c : config),
  gate_check repaired p d f = Accept c -> in_domain c = true.
Proof. exact gate_sound_repaired. Qed.
Print Assumptions C17_gate_sound_repaired.

(* the hypotheses are satisfiable by a non-trivial input: a built-in preset with three flags *)
Example C17_gate_sound_nonvacuous :
  exists c, gate_check repaired Debug (DocConfig cfg_preset_rust_strict) (with_flags (Some 700) (Some bits_0_9) (Some 25%Z)) = Accept c /\
            known17 pinned c (with_flags (Some 700) (Some bits_0_9) (Some 25%Z)) = false /\ c_max_lines c = 700.
Proof. eexists. split; [vm_compute; reflexivity | split; vm_compute; reflexivity]. Qed.
Print Assumptions C17_gate_sound_nonvacuous.

(* ---- D19: refuted on the pinned behaviour (witnesses), gone once repaired *)

Theorem C17_refuted_rule_warn_threshold :
  exists c, gate_check pinned Release (DocConfig doc_rule_wt) no_flags = Accept c /\ in_domain c = false /\
            k_rule_warn_threshold pinned c = true /\
            gate_check repaired Release (DocConfig doc_rule_wt) no_flags = Reject RContentRuleWarnThreshold 0 0.
Proof. eexists. repeat split; vm_compute; reflexivity. Qed.
Print Assumptions C17_refuted_rule_warn_threshold.

Theorem C17_refuted_expires :
  exists c, gate_check pinned Release (DocConfig doc_rule_expires) no_flags = Accept c /\ in_domain c = false /\
            k_expires pinned c = true /\
            gate_check repaired Release (DocConfig doc_rule_expires) no_flags = Reject RContentRuleExpires 0 0.
Proof. eexists. repeat split; vm_compute; reflexivity. Qed.
Print Assumptions C17_refuted_expires.

(* check --warn-threshold 7 and --warn-threshold nan on the default configuration; --max-lines 5 under warn_at 450 *)
Theorem C17_refuted_cli_after_validation :
  (exists c, gate_check pinned Release (DocConfig default_config) (with_flags None (Some bits_7_0) None) = Accept c /\
             in_domain c = false /\ k_cli_after_validation pinned c (with_flags None (Some bits_7_0) None) = true) /\
  (exists c, gate_check pinned Release (DocConfig default_config) (with_flags None (Some bits_nan) None) = Accept c /\
             in_domain c = false) /\
  (exists c, gate_check pinned Release (DocConfig (mk_config 500 bits_0_9 (Some 450) [] None None [] 0 [] [] None))
                        (with_flags (Some 5) None None) = Accept c /\ in_domain c = false) /\
  gate_check repaired Release (DocConfig default_config) (with_flags None (Some bits_7_0) None) = Reject RContentWarnThreshold 0 0 /\
  gate_check repaired Release (DocConfig default_config) (with_flags None (Some bits_nan) None) = Reject RContentWarnThreshold 0 0.
Proof. repeat split; try (eexists; repeat split); vm_compute; reflexivity. Qed.
Print Assumptions C17_refuted_cli_after_validation.

(* D61: impossible (2025-02-31) and non-canonical (+2025-2-3) dates passed the lenient parser of expires.rs *)
Theorem C17_refuted_lenient_date :
  (exists c, gate_check pre_d61 Debug (DocConfig doc_feb31) no_flags = Accept c /\ in_domain c = false /\ k_lenient_date pre_d61 c = true) /\
  (exists c, gate_check pre_d61 Debug (DocConfig doc_plus_date) no_flags = Accept c /\ in_domain c = false /\ k_lenient_date pre_d61 c = true) /\
  gate_check repaired Debug (DocConfig doc_feb31) no_flags = Reject RContentRuleExpires 0 0 /\
  gate_check repaired Debug (DocConfig doc_plus_date) no_flags = Reject RContentRuleExpires 0 0.
Proof. repeat split; try (eexists; repeat split); vm_compute; reflexivity. Qed.
Print Assumptions C17_refuted_lenient_date.

(* the calendar of the domain: 2024-02-29 and 2000-02-29 exist, 2025-02-29 and 1900-02-29 do not, 04-31 never *)
Example C17_date_calendar :
  date_strict [50;48;50;52;45;48;50;45;50;57] = true /\ date_strict [50;48;48;48;45;48;50;45;50;57] = true /\
  date_strict [50;48;50;53;45;48;50;45;50;57] = false /\ date_strict [49;57;48;48;45;48;50;45;50;57] = false /\
  date_strict [50;48;50;53;45;48;52;45;51;49] = false /\ date_strict [50;48;50;53;45;49;50;45;51;49] = true /\
  date_valid s_feb31 = true /\ date_valid s_plus_unpadded = true.
Proof. repeat split; vm_compute; reflexivity. Qed.
Print Assumptions C17_date_calendar.

(* ---- D18: config validate accepts exactly what check accepts *)

Theorem C17_validate_equals_check : forall (bh : behav) (p : profile) (d : document),
  b_validate_builds bh = true -> gate_validate_cmd bh p d = gate_check bh p d no_flags.
Proof. exact validate_equals_check. Qed.
Print Assumptions C17_validate_equals_check.

(* refuted on the pinned behaviour: negative structure limit, bad rule glob, allow+deny mix, bad naming regex *)
Theorem C17_validate_equals_check_refuted_pinned :
  (accepts (gate_validate_cmd pinned Debug (DocConfig doc_neg_limit)) = true /\
   gate_check pinned Debug (DocConfig doc_neg_limit) no_flags = Reject RLimit 0 0) /\
  (accepts (gate_validate_cmd pinned Debug (DocConfig doc_bad_rule_glob)) = true /\
   gate_check pinned Debug (DocConfig doc_bad_rule_glob) no_flags = Reject RGlobContentRule 0 0) /\
  (accepts (gate_validate_cmd pinned Debug (DocConfig doc_mix)) = true /\
   gate_check pinned Debug (DocConfig doc_mix) no_flags = Reject RMixGlobal 0 0) /\
  (accepts (gate_validate_cmd pinned Debug (DocConfig doc_bad_regex)) = true /\
   gate_check pinned Debug (DocConfig doc_bad_regex) no_flags = Reject RRegex 0 0).
Proof. repeat split; vm_compute; reflexivity. Qed.
Print Assumptions C17_validate_equals_check_refuted_pinned.

(* ---- rejection is exit 2; no crash *)

Theorem C17_reject_is_exit2 : forall (bh : behav) (p : profile) (d : document) (f : flags) (verdict : N),
  accepts (gate_check bh p d f) = false -> gate_check bh p d f <> Crash -> exit_code (gate_check bh p d f) verdict = 2.
Proof. exact reject_is_exit2. Qed.
Print Assumptions C17_reject_is_exit2.

(* with checked duration arithmetic (D17 repaired), or in the release profile, no command crashes *)
Theorem C17_no_crash : forall (bh : behav) (p : profile) (d : document) (f : flags),
  b_dur_checked bh = true \/ p = Release ->
  gate_check bh p d f <> Crash /\ gate_validate_cmd bh p d <> Crash /\ gate_show bh p d <> Crash.
Proof. exact no_crash. Qed.
Print Assumptions C17_no_crash.

(* D17 witnesses on the pinned behaviour: debug build crashes in every command that loads the file, release
   build wraps and accepts a duration outside the domain; the retention product overflows likewise *)
Theorem K17_overflow :
  gate_check pinned Debug (DocConfig doc_overflow) no_flags = Crash /\
  gate_validate_cmd pinned Debug (DocConfig doc_overflow) = Crash /\
  gate_show pinned Debug (DocConfig doc_overflow) = Crash /\
  (exists c, gate_check pinned Release (DocConfig doc_overflow) no_flags = Accept c /\ in_domain c = false /\ k_overflow pinned c = true) /\
  retention_cutoff false Debug 1700000000 999999999999999999 = CutPanic /\
  gate_check repaired Debug (DocConfig doc_overflow) no_flags = Reject RTrendSince 0 0.
Proof. repeat split; try (eexists; repeat split); vm_compute; reflexivity. Qed.
Print Assumptions K17_overflow.

Theorem C17_retention_checked_no_panic : forall (p : profile) (now days : N), retention_cutoff true p now days <> CutPanic.
Proof. exact retention_checked_no_panic. Qed.
Print Assumptions C17_retention_checked_no_panic.

(* D35 witness: an invalid count_exclude glob is dormant while structure checks are off *)
Theorem C17_refuted_dormant_glob :
  exists c, gate_check pinned Debug (DocConfig doc_dormant) no_flags = Accept c /\ in_domain c = false /\ k_dormant_glob pinned c = true /\
            gate_check repaired Debug (DocConfig doc_dormant) no_flags = Reject RGlobCountExclude 0 0.
Proof. eexists. repeat split; vm_compute; reflexivity. Qed.
Print Assumptions C17_refuted_dormant_glob.

(* ---- every built-in preset and init template passes the gate.
   Finite domain: the table Gen_Presets.all (all_count entries) is regenerated from the crate on every run;
   checked for the behaviour of the working tree AND for the repaired and pinned variants, both profiles,
   through check and config validate, and each entry lies in the documented domain. *)
Theorem C17_presets_pass :
  forallb (fun c =>
    forallb (fun bh =>
      forallb (fun p => accepts (gate_check bh p (DocConfig c) no_flags) && accepts (gate_validate_cmd bh p (DocConfig c)))
              [Debug; Release])
      [Gen_Presets.current; repaired; pinned] && in_domain c)
    Gen_Presets.all = true /\ N.of_nat (length Gen_Presets.all) = Gen_Presets.all_count.
Proof. split; vm_compute; reflexivity. Qed.
Print Assumptions C17_presets_pass.

(* ---- parsers: boundary facts the correspondence run also exercises *)

(* 30500568904943w is the largest week count whose seconds fit in 64 bits *)
Example C17_duration_boundary :
  parse_duration true Debug [51;48;53;48;48;53;54;56;57;48;52;57;52;51;119] = DurOk 18446744073709526400 /\
  parse_duration true Debug [51;48;53;48;48;53;54;56;57;48;52;57;52;52;119] = DurErr /\
  parse_duration false Debug [51;48;53;48;48;53;54;56;57;48;52;57;52;52;119] = DurPanic /\
  parse_duration false Release [51;48;53;48;48;53;54;56;57;48;52;57;52;52;119] = DurOk 579584.
Proof. repeat split; vm_compute; reflexivity. Qed.
Print Assumptions C17_duration_boundary.

Theorem C17_duration_checked_fits : forall (p : profile) (s : str) (v : N), parse_duration true p s = DurOk v -> v < two64.
Proof. exact parse_duration_checked_bound. Qed.
Print Assumptions C17_duration_checked_fits.

Theorem C17_threshold_rejects_nan_inf : forall bits : N,
  9218868437227405312 <= bits -> bits <> negzero_bits -> unit_range bits = false.
Proof. exact unit_range_rejects_nan_inf. Qed.
Print Assumptions C17_threshold_rejects_nan_inf.
