(* State/Proofs_C14d.v: the update lock serialises load-modify-save cycles; a snapshot that was
   reported as recorded stays in the history (second invariant, on top of Proofs_C14b.Inv). *)
From Coq Require Import Arith PeanoNat NArith List Bool Lia String.
From SG Require Import State.Fs State.AtomicWrite State.Proofs_C13 State.Concurrency State.Proofs_C14 State.Proofs_C14b.
Import ListNotations.
Open Scope N_scope.

Definition extensive (u : upd) : bool := match u with UConst _ => false | _ => true end.
Lemma extensive_incl : forall u v, extensive u = true -> incl v (apply_upd u v).
Proof. intros [w|e|w] v H; try discriminate; cbn; apply incl_appl, incl_refl. Qed.

(* every command that saves holds the update lock, loads first and only adds entries *)
Definition good_cmd (c : cmd) : Prop :=
  match csave c with Some u => cupd c = true /\ cload c = true /\ extensive u = true | None => True end.

Definition in_body (x : phase) : bool := match x with PLoad _ | PComp | PStart | PSave _ | PAck => true | _ => false end.
Definition before_rename (x : phase) : bool :=
  match x with PStart | PSave W0 | PSave WMk | PSave WTmp | PSave WWr | PSave WFl | PSave WFs | PSave WOp | PSave WLk => true | _ => false end.
Definition post_save (x : phase) : bool := match x with PAck | PRel _ | PDone | PFail => true | _ => false end.
Definition loading_over (x : phase) : bool := match x with PUpd _ | PLoad _ => false | _ => true end.
Definition loaded_phase (x : phase) : bool := match x with PLoad LR | PComp => true | _ => false end.
Definition docval (b : option bytes) : value :=
  match b with Some b => match parse b with Some v => v | None => [] end | None => [] end.
Definition curval (s : sys) : value := docval (final_target s).
Definition rh_ok (r : proc) : Prop :=
  match rh r with Some _ => ph r = PLoad LO \/ ph r = PLoad LL \/ ph r = PLoad LR | None => True end.

Lemma load_bad_loaded r : loaded (load_bad r) = loaded r. Proof. proj_tac. Qed.
Lemma load_bad_budget r : budget (load_bad r) = budget r. Proof. proj_tac. Qed.

(* ------------------------------------------------------------------ per-process facts of a step *)

Record proc_step2 (p : pid) (s s' : sys) (r r' : proc) : Prop := {
  q_uh : (uh r' = uh r /\ forall ok, ph r <> PRel ok) \/
         (exists i, ph r = PUpd (Some i) /\ try_lock_ex (sfs s) i p = Some (sfs s') /\ uh r' = Some i) \/
         (exists ok, ph r = PRel ok /\ uh r' = None /\ in_body (ph r') = false);
  q_body : in_body (ph r') = true -> (in_body (ph r) = true /\ uh r' = uh r) \/ ((exists i, ph r = PUpd (Some i)) /\ uh r' <> None);
  q_upd : forall i, ph r' = PUpd (Some i) ->
          ph r = PUpd (Some i) \/
          (ph r = PUpd None /\ i = snd (open_create (sfs s) Side) /\ sfs s' = fst (open_create (sfs s) Side));
  q_rhok : rh_ok r -> rh_ok r';
  q_rh : forall i, rh r' = Some i -> rh r = Some i \/ names (sfs s) Target = Some i;
  q_loaded : loaded_phase (ph r') = true ->
             (ph r = PLoad LL /\ exists i, rh r = Some i /\ loaded r' = docval (Some (data (sfs s) i))) \/
             (loaded_phase (ph r) = true /\ loaded r' = loaded r) \/
             (names (sfs s) Target = None /\ loaded r' = []) \/
             cload (pcmd r) = false;
  q_loaded2 : loaded r' = loaded r \/ loaded r' = [] \/
              (exists i, rh r = Some i /\ loaded r' = docval (Some (data (sfs s) i)) /\ reads r' = data (sfs s) i :: reads r);
  q_loaded3 : loading_over (ph r) = true -> loaded r' = loaded r;
  q_content : before_rename (ph r') = true ->
              (ph r = PComp /\ exists u, csave (pcmd r) = Some u /\ wcontent (pw r') = ser (apply_upd u (loaded r))) \/
              (before_rename (ph r) = true /\ wcontent (pw r') = wcontent (pw r));
  q_wrn : ph r' = PSave WRn -> ph r = PSave WLk \/ ph r = PSave WRn;
  q_saved2 : saved r' = Some true -> saved r = Some true \/ (ph r = PSave WRn /\ post_save (ph r') = true);
  q_post : post_save (ph r) = true -> post_save (ph r') = true /\ saved r' = saved r /\ wcontent (pw r') = wcontent (pw r);
  q_sv : in_save (ph r') = true -> in_save (ph r) = true \/ csave (pcmd r) <> None;
  q_acked : acked r' = true -> acked r = true \/ ph r = PAck;
  q_ackph : ph r' = PAck -> saved r' = Some true;
  q_wh : forall j, wh (pw r') = Some j -> wh (pw r) = Some j \/ names (sfs s) Target = Some j;
  q_relphase : forall ok, ph r' = PRel ok -> uh r' <> None
}.

Lemma finish_in_body r ok : in_body (ph (finish r ok)) = false.
Proof. destruct (finish_ph r ok) as [H|[H|H]]; rewrite H; reflexivity. Qed.
Lemma finish_before r ok : before_rename (ph (finish r ok)) = false.
Proof. destruct (finish_ph r ok) as [H|[H|H]]; rewrite H; reflexivity. Qed.
Lemma finish_loadedph r ok : loaded_phase (ph (finish r ok)) = false.
Proof. destruct (finish_ph r ok) as [H|[H|H]]; rewrite H; reflexivity. Qed.
Lemma finish_not_ack r ok : ph (finish r ok) <> PAck.
Proof. destruct (finish_ph r ok) as [H|[H|H]]; rewrite H; discriminate. Qed.
Lemma finish_rel r ok ok' : ph (finish r ok) = PRel ok' -> uh r <> None.
Proof. unfold finish. destruct (uh r); [discriminate|]. destruct ok; cbn; discriminate. Qed.

(* the phase reached through after_load is PComp, or a final phase *)
Lemma after_load_ph r : (ph (after_load r) = PComp /\ csave (pcmd r) <> None) \/ ph (after_load r) = ph (finish r true).
Proof. unfold after_load, emit_if. destruct (csave (pcmd r)); [left; split; [destruct (csnap (pcmd r)); reflexivity|discriminate]|right; reflexivity]. Qed.
Lemma after_save_ph r : (ph (after_save r) = PAck /\ saved r = Some true) \/ ph (after_save r) = ph (finish r true).
Proof.
  unfold after_save. destruct (cack (pcmd r)); cbn; [|right; reflexivity].
  destruct (saved r) as [[|]|]; [left; auto|right; reflexivity|right; reflexivity].
Qed.

Ltac norm :=
  unfold load_missing, load_bad, after_load, after_save, finish, emit_if, body_phase in *;
  repeat match goal with
         | |- context [if ?b then _ else _] => destruct b eqn:?
         | |- context [match ?x with _ => _ end] => destruct x eqn:?
         end.
Ltac slv0 := repeat split; eauto; try discriminate; try congruence.
Ltac slv_core :=
  repeat match goal with
         | |- context [match rh ?r with _ => _ end] => destruct (rh r) eqn:?
         | H : context [match rh ?r with _ => _ end] |- _ => destruct (rh r) eqn:?
         end;
  repeat match goal with H : _ \/ _ |- _ => destruct H end;
  try discriminate; try congruence; auto;
  first [ solve [slv0] | solve [left; slv0] | solve [right; slv0] | solve [right; left; slv0] | solve [right; right; slv0]
        | solve [right; right; left; slv0] | solve [right; right; right; slv0]
        | solve [left; split; [reflexivity|eexists; split; [eassumption| match goal with H : parse _ = _ |- _ => rewrite H end; reflexivity]]]
        | solve [right; right; eexists; split; [eassumption| split; [match goal with H : parse _ = _ |- _ => rewrite H end; reflexivity | reflexivity]]]
        | idtac ].
Ltac slv Hph := intros; unfold rh_ok, docval in *; cbn in *; rewrite ?Hph in *; cbn in *; slv_core.

Lemma step_core_proc2 : forall s p s' r r', step_core s p = Adv s' -> procs s p = Some r -> procs s' p = Some r' ->
  proc_step2 p s s' r r'.
Proof.
  intros s p s' r0 r' H Hp0 Hp'. step_cases H; aw_inv; inversion Hp0; subst; clear Hp0;
    cbn [procs setp setfp] in Hp'; rewrite updp_same in Hp'; inversion Hp'; subst; clear Hp'.
  all: norm.
  all: match goal with Hph : ph _ = _ |- _ => split; slv Hph end.
Qed.

Lemma step_proc2 : forall s p s' r r', step s p = Some s' -> procs s p = Some r -> procs s' p = Some r' ->
  proc_step2 p s s' r r'.
Proof.
  intros s p s' r r' H Hp Hp'. unfold step in H. destruct (step_core s p) as [| |s1] eqn:Hc; [discriminate| |].
  - rewrite Hp in H. destruct (budget r) as [|b] eqn:Hb.
    + inversion H; subst; clear H. unfold timeout_step in Hp' |- *.
      destruct (blk_phase _ _ _ Hc Hp) as [[iu Hph]|[Hph|Hph]]; rewrite Hph in Hp' |- *; cbn in Hp' |- *; rewrite updp_same in Hp';
        inversion Hp'; subst; clear Hp'; norm; split; slv Hph.
      match goal with H : _ && false = true |- _ => rewrite andb_false_r in H; discriminate H end.
    + inversion H; subst; clear H. cbn in Hp'. rewrite updp_same in Hp'. inversion Hp'; subst; clear Hp'.
      destruct (blk_phase _ _ _ Hc Hp) as [[iu Hph]|[Hph|Hph]]; split; slv Hph.
  - inversion H; subst. eapply step_core_proc2; eauto.
Qed.

(* ------------------------------------------------------------------ an exclusive lock stays with its holder *)

Lemma keep_try_lock_ex f j p f' i q : try_lock_ex f j p = Some f' -> lock f i = Excl q -> lock f' i = Excl q.
Proof.
  unfold try_lock_ex. destruct (lock f j) eqn:E; intros H; inversion H; subst. intros Hi. cbn.
  destruct (N.eq_dec i j) as [->|Hne]; [congruence|]. now rewrite updi_other.
Qed.
Lemma keep_try_lock_sh f j f' i q : try_lock_sh f j = Some f' -> lock f i = Excl q -> lock f' i = Excl q.
Proof.
  unfold try_lock_sh. destruct (lock f j) eqn:E; intros H; inversion H; subst; intros Hi; cbn;
    (destruct (N.eq_dec i j) as [->|Hne]; [congruence|]; now rewrite updi_other).
Qed.
Lemma keep_unlock_sh f j i q : lock f i = Excl q -> lock (unlock_sh f j) i = Excl q.
Proof.
  intros Hi. unfold unlock_sh. destruct (lock f j) as [|[|[|n]]|] eqn:E; auto; cbn;
    (destruct (N.eq_dec i j) as [->|Hne]; [congruence|]; now rewrite updi_other).
Qed.
Lemma keep_unlock_ex f j p i q : lock f i = Excl q -> (q <> p \/ j <> i) -> lock (unlock_ex f j p) i = Excl q.
Proof.
  intros Hi Hor. unfold unlock_ex. destruct (lock f j) eqn:E; auto. destruct (N.eqb_spec p p0); auto. subst p0. cbn.
  destruct (N.eq_dec i j) as [->|Hne]; [|now rewrite updi_other].
  exfalso. rewrite E in Hi. inversion Hi; subst. destruct Hor; congruence.
Qed.
Lemma keep_create f n (trunc : bool) i q : lock f i = Excl q -> i < next f ->
  lock (fst (if trunc then create_trunc f n else open_create f n)) i = Excl q.
Proof.
  intros Hi Hlt. unfold create_trunc, open_create. destruct (names f n); destruct trunc; cbn; auto; rewrite updi_other; auto; lia.
Qed.
Lemma lock_temp_write p f b : lock (temp_write p f b) = lock f.
Proof. unfold temp_write. destruct (names f (Temp p)); reflexivity. Qed.
Lemma lock_rename f a b f' : rename f a b = Some f' -> lock f' = lock f.
Proof. unfold rename. destruct (names f a); intros H; inversion H; reflexivity. Qed.

Lemma step_lock_keep : forall s p s' r i q, step s p = Some s' -> procs s p = Some r ->
  lock (sfs s) i = Excl q -> i < next (sfs s) ->
  (q <> p \/ ((forall ok, ph r <> PRel ok) /\ wh (pw r) <> Some i)) ->
  lock (sfs s') i = Excl q.
Proof.
  intros s p s' r0 i q H Hp0 Hi Hlt Hor. unfold step in H. destruct (step_core s p) as [| |s1] eqn:Hc; [discriminate| |].
  - rewrite Hp0 in H. destruct (budget r0).
    + inversion H; subst; clear H. unfold timeout_step.
      destruct (blk_phase _ _ _ Hc Hp0) as [[iu Hph]|[Hph|Hph]]; rewrite Hph; cbn; exact Hi.
    + inversion H; subst. exact Hi.
  - inversion H; subst; clear H. step_cases Hc; aw_inv; inversion Hp0; subst; clear Hp0; cbn [sfs setp setfp]; auto.
    all: try (eapply keep_try_lock_ex; eassumption).
    all: try (eapply keep_try_lock_sh; eassumption).
    all: try (apply (keep_create _ Side false); assumption).
    all: try (apply (keep_create _ (Temp p) true); assumption).
    all: try (rewrite lock_temp_write; assumption).
    all: try (erewrite lock_rename by eassumption; assumption).
    + (* LR: shared unlock *) destruct (rh r0); [destruct (rlocked r0)|]; auto. now apply keep_unlock_sh.
    + (* Unlock of the target lock *)
      apply keep_unlock_ex; auto. destruct Hor as [Hq|[_ Hw]]; [left; exact Hq|right].
      intros ->. apply Hw. match goal with Hh : wh (pw r0) = Some _ |- _ => exact Hh end.
    + (* PRel *) destruct (uh r0) as [j|]; auto. apply keep_unlock_ex; auto.
      destruct Hor as [Hq|[Hr _]]; [left; exact Hq|]. exfalso. eapply Hr; eauto.
Qed.

(* ------------------------------------------------------------------ the second invariant *)

Record Inv2 (s : sys) : Prop := {
  jG : forall q r, procs s q = Some r -> good_cmd (pcmd r);
  (* the update-lock name still denotes the inode a process opened: it is never unbound or rebound *)
  jU0 : forall q r i, procs s q = Some r -> ph r = PUpd (Some i) -> names (sfs s) Side = Some i;
  jU1 : forall q r i, procs s q = Some r -> uh r = Some i -> names (sfs s) Side = Some i /\ lock (sfs s) i = Excl q;
  jU3 : forall q r, procs s q = Some r -> cupd (pcmd r) = true -> in_body (ph r) = true -> uh r <> None;
  jRH : forall q r, procs s q = Some r -> rh_ok r;
  jSV : forall q r, procs s q = Some r -> in_save (ph r) = true -> csave (pcmd r) <> None;
  jH0 : forall q r i, procs s q = Some r -> csave (pcmd r) <> None -> rh r = Some i -> names (sfs s) Target = Some i;
  jWH : forall q r j, procs s q = Some r -> wh (pw r) = Some j -> In j (tgts s);
  jH1 : forall q r, procs s q = Some r -> csave (pcmd r) <> None -> loaded_phase (ph r) = true -> loaded r = curval s;
  jH1b : forall q r u, procs s q = Some r -> csave (pcmd r) = Some u -> before_rename (ph r) = true ->
         wcontent (pw r) = ser (apply_upd u (curval s));
  jH2 : forall q b, In (q, b) (vers s) -> incl (docval (Some b)) (curval s);
  jVS : forall q b, In (q, b) (vers s) -> exists u v, b = ser (apply_upd u v);
  jK : forall q r, procs s q = Some r -> (ph r = PSave WRn \/ saved r = Some true) ->
       In (q, wcontent (pw r)) (vers s) /\ exists u v, csave (pcmd r) = Some u /\ wcontent (pw r) = ser (apply_upd u v);
  jK0 : forall q r, procs s q = Some r -> saved r = Some true -> post_save (ph r) = true;
  jK2 : forall q r, procs s q = Some r -> acked r = true -> saved r = Some true;
  jK3 : forall q r, procs s q = Some r -> ph r = PAck -> saved r = Some true
}.

Lemma eff_side : forall p s s' i, eff p s s' -> names (sfs s) Side = Some i -> names (sfs s') Side = Some i.
Proof.
  intros p s s' i He Hi. destruct He as [Hn Hd Hx Ht Hv | Hf Ht Hv | Hf Ht Hv | b Hf Ht Hv | Hf Ht Hv | r i0 Hp Hph Hn Hr Ht Hv].
  - now rewrite Hn.
  - rewrite Hf. unfold open_create. rewrite Hi. exact Hi.
  - rewrite Hf. unfold create_trunc. destruct (names (sfs s) (Temp p)); cbn; [exact Hi|]. rewrite updn_other by discriminate. exact Hi.
  - rewrite Hf. now rewrite names_temp_write.
  - rewrite Hf. cbn. rewrite updn_other by discriminate. exact Hi.
  - unfold rename in Hr. rewrite Hn in Hr. inversion Hr. cbn. rewrite updn_other by discriminate. rewrite updn_other by discriminate. exact Hi.
Qed.

Lemma eff_target_same : forall p s s', eff p s s' -> vers s' = vers s -> names (sfs s') Target = names (sfs s) Target.
Proof.
  intros p s s' He Hv. destruct He as [Hn Hd Hx Ht Hv' | Hf Ht Hv' | Hf Ht Hv' | b Hf Ht Hv' | Hf Ht Hv' | r i0 Hp Hph Hn Hr Ht Hv'].
  - now rewrite Hn.
  - rewrite Hf. unfold open_create. destruct (names (sfs s) Side); cbn; [reflexivity|]. now rewrite updn_other by discriminate.
  - rewrite Hf. unfold create_trunc. destruct (names (sfs s) (Temp p)); cbn; [reflexivity|]. now rewrite updn_other by discriminate.
  - rewrite Hf. now rewrite names_temp_write.
  - rewrite Hf. cbn. now rewrite updn_other by discriminate.
  - rewrite Hv' in Hv. exfalso. eapply cons_self_neq; eauto.
Qed.

Lemma open_create_names f n : names (fst (open_create f n)) n = Some (snd (open_create f n)).
Proof. unfold open_create. destruct (names f n) eqn:E; cbn; [exact E|apply updn_same]. Qed.

Lemma try_lock_ex_spec f i p f' : try_lock_ex f i p = Some f' -> lock f' i = Excl p.
Proof. unfold try_lock_ex. destruct (lock f i); intros H; inversion H; subst. cbn. apply updi_same. Qed.

(* two processes cannot both hold the update lock *)
Lemma excl : forall s q q' r r', Inv2 s -> procs s q = Some r -> procs s q' = Some r' -> uh r <> None -> uh r' <> None -> q = q'.
Proof.
  intros s q q' r r' J Hq Hq' Hu Hu'. destruct (uh r) as [i|] eqn:E; [|congruence]. destruct (uh r') as [i'|] eqn:E'; [|congruence].
  destruct (jU1 _ J q r i Hq E) as [A B]. destruct (jU1 _ J q' r' i' Hq' E') as [A' B']. rewrite A in A'. inversion A'; subst. congruence.
Qed.

Lemma saver_locked : forall s q r, Inv2 s -> procs s q = Some r -> csave (pcmd r) <> None -> in_body (ph r) = true -> uh r <> None.
Proof.
  intros s q r J Hq Hs Hb. pose proof (jG _ J q r Hq) as G. unfold good_cmd in G. destruct (csave (pcmd r)); [|congruence].
  destruct G as (G1 & _). eapply jU3; eauto.
Qed.

Lemma curval_rename : forall u v, docval (Some (ser (apply_upd u v))) = apply_upd u v.
Proof. intros. unfold docval. now rewrite parse_ser. Qed.

(* the step after the exclusive lock: the rename (or its failure) *)
Lemma wlk_step : forall s p s' r r', step s p = Some s' -> procs s p = Some r -> ph r = PSave WLk -> procs s' p = Some r' ->
  (ph r' = PSave WRn /\ vers s' = (p, wcontent (pw r)) :: vers s) \/ (vers s' = vers s /\ forall w, ph r' <> PSave w).
Proof.
  intros s p s' r r' H Hp Hph Hp'. unfold step, step_core in H. rewrite Hp, Hph in H. cbn in H.
  destruct (rename (sfs s) (Temp p) Target); inversion H; subst; clear H; cbn in Hp'; rewrite updp_same in Hp'; inversion Hp'; subst.
  - left. split; reflexivity.
  - right. split; [reflexivity|]. intros w. apply finish_not_save.
Qed.
