(* State/Proofs_C14.v: invariants of the n-process system of State/Concurrency.v, preserved by
   every atomic step (hence by every schedule). *)
From Coq Require Import Arith PeanoNat NArith List Bool Lia String.
From SG Require Import State.Fs State.AtomicWrite State.Proofs_C13 State.Concurrency.
Import ListNotations.
Open Scope N_scope.

(* ------------------------------------------------------------------ maps *)

Lemma fname_eqb_spec : forall a b, reflect (a = b) (fname_eqb a b).
Proof.
  intros [|p|] [|q|]; cbn; try (constructor; congruence).
  destruct (N.eqb_spec p q); constructor; congruence.
Qed.

Lemma updn_same : forall m k v, updn m k v k = v.
Proof. intros. unfold updn. destruct (fname_eqb_spec k k); congruence. Qed.
Lemma updn_other : forall m k v x, x <> k -> updn m k v x = m x.
Proof. intros. unfold updn. destruct (fname_eqb_spec x k); congruence. Qed.
Lemma updi_same : forall A (m : inode -> A) k v, updi m k v k = v.
Proof. intros. unfold updi. now rewrite N.eqb_refl. Qed.
Lemma updi_other : forall A (m : inode -> A) k v x, x <> k -> updi m k v x = m x.
Proof. intros. unfold updi. destruct (N.eqb_spec x k); congruence. Qed.
Lemma updp_same : forall m k v, updp m k v k = Some v.
Proof. intros. unfold updp. now rewrite N.eqb_refl. Qed.
Lemma updp_other : forall m k v x, x <> k -> updp m k v x = m x.
Proof. intros. unfold updp. destruct (N.eqb_spec x k); congruence. Qed.

Arguments updn : simpl never.
Arguments updi : simpl never.
Arguments updp : simpl never.

(* lookup in an updated process map: either the updated process or an untouched one *)
Lemma updp_cases : forall m k v x r, updp m k v x = Some r -> (x = k /\ r = v) \/ (x <> k /\ m x = Some r).
Proof. intros m k v x r. unfold updp. destruct (N.eqb_spec x k); intros H; [left; split; congruence | right; auto]. Qed.

(* ------------------------------------------------------------------ projections of the helpers *)

Lemma finish_ph : forall r ok, ph (finish r ok) = PRel ok \/ ph (finish r ok) = PDone \/ ph (finish r ok) = PFail.
Proof. intros r ok. unfold finish. destruct (uh r); destruct ok; cbn; auto. Qed.

Ltac unf := unfold load_missing, load_bad, after_load, after_save, finish, emit_if in *.

(* every helper only touches ph / trace (and loaded, lerr for the default document) *)
Ltac proj_tac := intros; unf;
  repeat match goal with
         | |- context [if ?b then _ else _] => destruct b eqn:?
         | |- context [match ?x with _ => _ end] => destruct x eqn:?
         end; cbn; try reflexivity; try congruence.

Lemma finish_pcmd r ok : pcmd (finish r ok) = pcmd r. Proof. proj_tac. Qed.
Lemma finish_uh r ok : uh (finish r ok) = uh r. Proof. proj_tac. Qed.
Lemma finish_rh r ok : rh (finish r ok) = rh r. Proof. proj_tac. Qed.
Lemma finish_pw r ok : pw (finish r ok) = pw r. Proof. proj_tac. Qed.
Lemma finish_reads r ok : reads (finish r ok) = reads r. Proof. proj_tac. Qed.
Lemma finish_saved r ok : saved (finish r ok) = saved r. Proof. proj_tac. Qed.
Lemma finish_acked r ok : acked (finish r ok) = acked r. Proof. proj_tac. Qed.
Lemma finish_loaded r ok : loaded (finish r ok) = loaded r. Proof. proj_tac. Qed.

Lemma after_load_pcmd r : pcmd (after_load r) = pcmd r. Proof. proj_tac. Qed.
Lemma after_load_uh r : uh (after_load r) = uh r. Proof. proj_tac. Qed.
Lemma after_load_rh r : rh (after_load r) = rh r. Proof. proj_tac. Qed.
Lemma after_load_pw r : pw (after_load r) = pw r. Proof. proj_tac. Qed.
Lemma after_load_reads r : reads (after_load r) = reads r. Proof. proj_tac. Qed.
Lemma after_load_saved r : saved (after_load r) = saved r. Proof. proj_tac. Qed.
Lemma after_load_acked r : acked (after_load r) = acked r. Proof. proj_tac. Qed.
Lemma after_load_loaded r : loaded (after_load r) = loaded r. Proof. proj_tac. Qed.

Lemma after_save_pcmd r : pcmd (after_save r) = pcmd r. Proof. proj_tac. Qed.
Lemma after_save_uh r : uh (after_save r) = uh r. Proof. proj_tac. Qed.
Lemma after_save_rh r : rh (after_save r) = rh r. Proof. proj_tac. Qed.
Lemma after_save_pw r : pw (after_save r) = pw r. Proof. proj_tac. Qed.
Lemma after_save_reads r : reads (after_save r) = reads r. Proof. proj_tac. Qed.
Lemma after_save_saved r : saved (after_save r) = saved r. Proof. proj_tac. Qed.
Lemma after_save_acked r : acked (after_save r) = acked r. Proof. proj_tac. Qed.
Lemma after_save_loaded r : loaded (after_save r) = loaded r. Proof. proj_tac. Qed.

Lemma load_missing_pcmd r : pcmd (load_missing r) = pcmd r. Proof. proj_tac. Qed.
Lemma load_missing_uh r : uh (load_missing r) = uh r. Proof. proj_tac. Qed.
Lemma load_missing_rh r : rh (load_missing r) = rh r. Proof. proj_tac. Qed.
Lemma load_missing_pw r : pw (load_missing r) = pw r. Proof. proj_tac. Qed.
Lemma load_missing_reads r : reads (load_missing r) = reads r. Proof. proj_tac. Qed.
Lemma load_missing_saved r : saved (load_missing r) = saved r. Proof. proj_tac. Qed.
Lemma load_missing_acked r : acked (load_missing r) = acked r. Proof. proj_tac. Qed.

Lemma load_bad_pcmd r : pcmd (load_bad r) = pcmd r. Proof. proj_tac. Qed.
Lemma load_bad_uh r : uh (load_bad r) = uh r. Proof. proj_tac. Qed.
Lemma load_bad_rh r : rh (load_bad r) = rh r. Proof. proj_tac. Qed.
Lemma load_bad_pw r : pw (load_bad r) = pw r. Proof. proj_tac. Qed.
Lemma load_bad_reads r : reads (load_bad r) = reads r. Proof. proj_tac. Qed.
Lemma load_bad_saved r : saved (load_bad r) = saved r. Proof. proj_tac. Qed.
Lemma load_bad_acked r : acked (load_bad r) = acked r. Proof. proj_tac. Qed.

Global Hint Rewrite finish_pcmd finish_uh finish_rh finish_pw finish_reads finish_saved finish_acked finish_loaded
  after_load_pcmd after_load_uh after_load_rh after_load_pw after_load_reads after_load_saved after_load_acked after_load_loaded
  after_save_pcmd after_save_uh after_save_rh after_save_pw after_save_reads after_save_saved after_save_acked after_save_loaded
  load_missing_pcmd load_missing_uh load_missing_rh load_missing_pw load_missing_reads load_missing_saved load_missing_acked
  load_bad_pcmd load_bad_uh load_bad_rh load_bad_pw load_bad_reads load_bad_saved load_bad_acked : proj.

(* the helpers never enter the save protocol *)
Lemma finish_not_save r ok w : ph (finish r ok) <> PSave w.
Proof. destruct (finish_ph r ok) as [H|[H|H]]; rewrite H; discriminate. Qed.
Lemma after_load_not_save r w : ph (after_load r) <> PSave w.
Proof. unfold after_load, emit_if. destruct (csave (pcmd r)); [destruct (csnap (pcmd r)); cbn; discriminate | apply finish_not_save]. Qed.
Lemma after_save_not_save r w : ph (after_save r) <> PSave w.
Proof. unfold after_save. destruct (cack (pcmd r) && _); [cbn; discriminate | apply finish_not_save]. Qed.
Lemma load_missing_not_save r w : ph (load_missing r) <> PSave w.
Proof. unfold load_missing. destruct (cmiss (pcmd r)); [apply finish_not_save | apply after_load_not_save]. Qed.
Lemma load_bad_not_save r w : ph (load_bad r) <> PSave w.
Proof. unfold load_bad. destruct (cbad (pcmd r)); [apply finish_not_save | apply after_load_not_save]. Qed.

(* ------------------------------------------------------------------ file-system facts *)

Lemma names_set_lock f i l : names (set_lock f i l) = names f. Proof. reflexivity. Qed.
Lemma data_set_lock f i l : data (set_lock f i l) = data f. Proof. reflexivity. Qed.
Lemma next_set_lock f i l : next (set_lock f i l) = next f. Proof. reflexivity. Qed.

Lemma try_lock_sh_frame f i f' : try_lock_sh f i = Some f' -> names f' = names f /\ data f' = data f /\ next f' = next f.
Proof. unfold try_lock_sh. destruct (lock f i); intros H; inversion H; subst; auto. Qed.
Lemma try_lock_ex_frame f i p f' : try_lock_ex f i p = Some f' -> names f' = names f /\ data f' = data f /\ next f' = next f.
Proof. unfold try_lock_ex. destruct (lock f i); intros H; inversion H; subst; auto. Qed.
Lemma unlock_sh_frame f i : names (unlock_sh f i) = names f /\ data (unlock_sh f i) = data f /\ next (unlock_sh f i) = next f.
Proof. unfold unlock_sh. destruct (lock f i) as [|[|[|n]]|]; auto. Qed.
Lemma unlock_ex_frame f i p : names (unlock_ex f i p) = names f /\ data (unlock_ex f i p) = data f /\ next (unlock_ex f i p) = next f.
Proof. unfold unlock_ex. destruct (lock f i); auto. destruct (N.eqb p p0); auto. Qed.

(* ------------------------------------------------------------------ case analysis of a step *)

(* break a step of process p into its cases; every case ends with an explicit next state.
   Names the process record r and leaves Hp : procs s p = Some r, Hph : ph r = ... *)
Ltac step_cases H :=
  unfold step_core in H;
  let r := fresh "r" in let Hp := fresh "Hp" in let Hph := fresh "Hph" in
  match type of H with context [procs ?s ?p] => destruct (procs s p) as [r|] eqn:Hp; [|discriminate H] end;
  destruct (ph r) as [[?iside|]|[| | | |]| | |?w| |?ok| |] eqn:Hph; try discriminate H;
  [ match type of H with context [try_lock_ex ?f ?i ?p] =>
      let fl := fresh "fl" in let Hl := fresh "Hlk" in
      destruct (try_lock_ex f i p) as [fl|] eqn:Hl; [|discriminate H] end
  | idtac
  | match type of H with context [names ?f Target] =>
      let i := fresh "itgt" in let Ht := fresh "Htgt" in destruct (names f Target) as [i|] eqn:Ht end
  | unfold open_existing in H;
    match type of H with context [names ?f Target] =>
      let i := fresh "itgt" in let Ht := fresh "Htgt" in destruct (names f Target) as [i|] eqn:Ht end
  | let i := fresh "irh" in let Hr := fresh "Hrh" in
    destruct (rh r) as [i|] eqn:Hr;
    [ match type of H with context [try_lock_sh ?f ?i] =>
        let fl := fresh "fl" in let Hl := fresh "Hlk" in
        destruct (try_lock_sh f i) as [fl|] eqn:Hl; [|discriminate H] end | ]
  | let i := fresh "irh" in let Hr := fresh "Hrh" in destruct (rh r) as [i|] eqn:Hr
  | idtac
  | let u := fresh "u" in let Hs := fresh "Hsave" in destruct (csave (pcmd r)) as [u|] eqn:Hs
  | idtac
  | match goal with w : wpos |- _ => destruct w end; cbn [next_astep] in H;
    match type of H with
    | context [aw_exec ?p ?f ?w ?a] =>
        let f2 := fresh "f2" in let w2 := fresh "w2" in let Hx := fresh "Hex" in
        destruct (aw_exec p f w a) as [f2 w2| |] eqn:Hx; try discriminate H
    | _ => idtac
    end
  | idtac
  | idtac ];
  inversion H; subst; clear H.

(* invert one protocol step *)
Ltac aw_inv :=
  match goal with
  | Hex : aw_exec _ _ _ _ = _ |- _ =>
      unfold aw_exec in Hex;
      repeat match type of Hex with
             | context [if ?b then _ else _] => destruct b eqn:?
             | context [match ?x with _ => _ end] => destruct x eqn:?
             end;
      inversion Hex; subst; clear Hex
  | _ => idtac
  end.

(* ------------------------------------------------------------------ what a step does to the file system *)

Inductive eff (p : pid) (s s' : sys) : Prop :=
| E_ext : names (sfs s') = names (sfs s) -> data (sfs s') = data (sfs s) -> next (sfs s') = next (sfs s) ->
          tgts s' = tgts s -> vers s' = vers s -> eff p s s'
| E_open_side : sfs s' = fst (open_create (sfs s) Side) -> tgts s' = tgts s -> vers s' = vers s -> eff p s s'
| E_create_temp : sfs s' = fst (create_trunc (sfs s) (Temp p)) -> tgts s' = tgts s -> vers s' = vers s -> eff p s s'
| E_temp_write b : sfs s' = temp_write p (sfs s) b -> tgts s' = tgts s -> vers s' = vers s -> eff p s s'
| E_unlink : sfs s' = unlink (sfs s) (Temp p) -> tgts s' = tgts s -> vers s' = vers s -> eff p s s'
| E_rename r i : procs s p = Some r -> ph r = PSave WLk -> names (sfs s) (Temp p) = Some i ->
                 rename (sfs s) (Temp p) Target = Some (sfs s') ->
                 tgts s' = i :: tgts s -> vers s' = (p, wcontent (pw r)) :: vers s -> eff p s s'.

Lemma rename_target : forall f a b f' i, names f a = Some i -> rename f a b = Some f' -> names f' b = Some i.
Proof. intros f a b f' i Ha H. unfold rename in H. rewrite Ha in H. inversion H; subst. cbn. apply updn_same. Qed.

Ltac frames :=
  repeat match goal with
         | Hl : try_lock_ex _ _ _ = Some _ |- _ => apply try_lock_ex_frame in Hl; destruct Hl as (? & ? & ?)
         | Hl : try_lock_sh _ _ = Some _ |- _ => apply try_lock_sh_frame in Hl; destruct Hl as (? & ? & ?)
         end.

Ltac ext_tac :=
  apply E_ext; cbn; auto;
  repeat match goal with
         | |- context [match ?x with _ => _ end] => destruct x
         | |- context [if ?b then _ else _] => destruct b
         end; auto; first [apply unlock_sh_frame | apply unlock_ex_frame].

Lemma step_core_eff : forall s p s', step_core s p = Adv s' -> eff p s s'.
Proof.
  intros s p s' H. step_cases H; aw_inv; frames;
    first [ solve [apply E_ext; cbn; auto]
          | solve [ext_tac]
          | solve [apply E_open_side; reflexivity]
          | solve [apply E_create_temp; reflexivity]
          | solve [eapply E_temp_write; reflexivity]
          | solve [apply E_unlink; reflexivity]
          | idtac ].
  (* Rename *)
  match goal with Hr : rename _ _ _ = Some _ |- _ => pose proof Hr as Hr'; unfold rename in Hr'; destruct (names (sfs s) (Temp p)) as [i|] eqn:Hn; [|discriminate] end.
  eapply E_rename with (i := i); eauto; cbn.
  match goal with Hr : rename _ _ _ = Some ?f |- _ => rewrite (rename_target _ _ _ _ _ Hn Hr) end. reflexivity.
Qed.

Lemma timeout_eff : forall s p r, procs s p = Some r -> eff p s (timeout_step s p r).
Proof.
  intros s p r Hp. unfold timeout_step.
  destruct (ph r) as [[?|]|[| | | |]| | |w| |ok| |]; try (apply E_ext; reflexivity).
  destruct w; try (apply E_ext; reflexivity).
  cbn. apply E_unlink; reflexivity.
Qed.

Lemma step_eff : forall s p s', step s p = Some s' -> eff p s s'.
Proof.
  intros s p s' H. unfold step in H. destruct (step_core s p) as [| |s1] eqn:Hc; [discriminate| |].
  - destruct (procs s p) as [r|] eqn:Hp; [|discriminate]. destruct (budget r).
    + inversion H; subst. now apply timeout_eff.
    + inversion H; subst. apply E_ext; reflexivity.
  - inversion H; subst. now apply step_core_eff.
Qed.

(* ------------------------------------------------------------------ invariant of names / inodes *)

Record FInv (f : fs) (t : list inode) : Prop := {
  fA2 : forall i, names f Target = Some i -> In i t;
  fC : forall n i, names f n = Some i -> n <> Target -> ~ In i t;
  fD : forall n n' i, names f n = Some i -> names f n' = Some i -> n = n';
  fE : forall n i, names f n = Some i -> i < next f;
  fE2 : forall i, In i t -> i < next f
}.

Lemma FInv_ext : forall f f' t, names f' = names f -> next f' = next f -> FInv f t -> FInv f' t.
Proof. intros f f' t Hn Hx [A C D E E2]. split; rewrite ?Hn, ?Hx; auto. Qed.

Lemma FInv_create : forall f t n (trunc : bool), n <> Target -> FInv f t ->
  FInv (fst (if trunc then create_trunc f n else open_create f n)) t.
Proof.
  intros f t n trunc Hn [A C D E E2].
  assert (G : forall f0, names f0 = names f -> next f0 = next f -> FInv f0 t)
    by (intros; apply FInv_ext with f; auto; split; auto).
  unfold create_trunc, open_create. destruct (names f n) as [i|] eqn:Hb.
  - destruct trunc; cbn; apply G; reflexivity.
  - assert (F : FInv (mkfs (updn (names f) n (Some (next f))) (updi (data f) (next f) []) (updi (lock f) (next f) Free) (next f + 1)) t).
    { split; cbn.
      - intros i Hi. rewrite updn_other in Hi by congruence. auto.
      - intros m i Hi Hm. destruct (fname_eqb_spec m n) as [->|Hne].
        + rewrite updn_same in Hi. inversion Hi; subst. intros Hin. apply E2 in Hin. lia.
        + rewrite updn_other in Hi by auto. eauto.
      - intros m m' i Hi Hi'. destruct (fname_eqb_spec m n) as [->|Hne]; destruct (fname_eqb_spec m' n) as [->|Hne']; auto.
        + rewrite updn_same in Hi. rewrite updn_other in Hi' by auto. inversion Hi; subst. apply E in Hi'. lia.
        + rewrite updn_same in Hi'. rewrite updn_other in Hi by auto. inversion Hi'; subst. apply E in Hi. lia.
        + rewrite updn_other in Hi, Hi' by auto. eauto.
      - intros m i Hi. destruct (fname_eqb_spec m n) as [->|Hne].
        + rewrite updn_same in Hi. inversion Hi; subst. lia.
        + rewrite updn_other in Hi by auto. apply E in Hi. lia.
      - intros i Hi. apply E2 in Hi. lia. }
    destruct trunc; exact F.
Qed.

Lemma FInv_unlink : forall f t n, n <> Target -> FInv f t -> FInv (unlink f n) t.
Proof.
  intros f t n Hn [A C D E E2]. split; cbn.
  - intros i Hi. rewrite updn_other in Hi by congruence. auto.
  - intros m i Hi Hm. destruct (fname_eqb_spec m n) as [->|Hne]; [rewrite updn_same in Hi; discriminate|]. rewrite updn_other in Hi by auto. eauto.
  - intros m m' i Hi Hi'. destruct (fname_eqb_spec m n) as [->|Hne]; [rewrite updn_same in Hi; discriminate|].
    destruct (fname_eqb_spec m' n) as [->|Hne']; [rewrite updn_same in Hi'; discriminate|]. rewrite updn_other in Hi, Hi' by auto. eauto.
  - intros m i Hi. destruct (fname_eqb_spec m n) as [->|Hne]; [rewrite updn_same in Hi; discriminate|]. rewrite updn_other in Hi by auto. eauto.
  - auto.
Qed.

Lemma FInv_rename : forall f t p f' i, names f (Temp p) = Some i -> rename f (Temp p) Target = Some f' ->
  FInv f t -> FInv f' (i :: t).
Proof.
  intros f t p f' i Hn Hr [A C D E E2]. unfold rename in Hr. rewrite Hn in Hr. inversion Hr; subst; clear Hr.
  split; cbn.
  - intros j Hj. rewrite updn_same in Hj. inversion Hj; auto.
  - intros m j Hj Hm. rewrite updn_other in Hj by auto.
    destruct (fname_eqb_spec m (Temp p)) as [->|Hne]; [rewrite updn_same in Hj; discriminate|]. rewrite updn_other in Hj by auto.
    intros [<-|Hin]; [|eapply C; eauto]. apply Hne. eapply D; eauto.
  - intros m m' j Hj Hj'.
    assert (K : forall x, x <> Target -> updn (updn (names f) (Temp p) None) Target (Some i) x = Some j -> x <> Temp p /\ names f x = Some j).
    { intros x Hx Hj0. rewrite updn_other in Hj0 by auto.
      destruct (fname_eqb_spec x (Temp p)) as [->|Hne]; [rewrite updn_same in Hj0; discriminate|]. rewrite updn_other in Hj0 by auto. auto. }
    destruct (fname_eqb_spec m Target) as [->|Hm]; destruct (fname_eqb_spec m' Target) as [->|Hm']; auto.
    + rewrite updn_same in Hj. inversion Hj; subst. destruct (K _ Hm' Hj') as [Q1 Q2]. exfalso. apply Q1. eapply D; eauto.
    + rewrite updn_same in Hj'. inversion Hj'; subst. destruct (K _ Hm Hj) as [Q1 Q2]. exfalso. apply Q1. eapply D; eauto.
    + destruct (K _ Hm Hj), (K _ Hm' Hj'). eauto.
  - intros m j Hj. destruct (fname_eqb_spec m Target) as [->|Hm].
    + rewrite updn_same in Hj. inversion Hj; subst. eauto.
    + rewrite updn_other in Hj by auto.
      destruct (fname_eqb_spec m (Temp p)) as [->|Hne]; [rewrite updn_same in Hj; discriminate|]. rewrite updn_other in Hj by auto. eauto.
  - intros j [<-|Hj]; eauto.
Qed.

Lemma names_temp_write p f b : names (temp_write p f b) = names f.
Proof. unfold temp_write. destruct (names f (Temp p)); reflexivity. Qed.
Lemma next_temp_write p f b : next (temp_write p f b) = next f.
Proof. unfold temp_write. destruct (names f (Temp p)); reflexivity. Qed.

Lemma eff_FInv : forall p s s', eff p s s' -> FInv (sfs s) (tgts s) -> FInv (sfs s') (tgts s').
Proof.
  intros p s s' He F. destruct He as [Hn Hd Hx Ht Hv | Hf Ht Hv | Hf Ht Hv | b Hf Ht Hv | Hf Ht Hv | r i Hp Hph Hn Hr Ht Hv].
  - rewrite Ht. eapply FInv_ext; eauto.
  - rewrite Ht, Hf. apply (FInv_create _ _ Side false); [discriminate|auto].
  - rewrite Ht, Hf. apply (FInv_create _ _ (Temp p) true); [discriminate|auto].
  - rewrite Ht, Hf. eapply FInv_ext; [apply names_temp_write | apply next_temp_write | auto].
  - rewrite Ht, Hf. apply FInv_unlink; [discriminate|auto].
  - rewrite Ht. eapply FInv_rename; eauto.
Qed.

(* allocated inodes other than p's temp inode keep their data *)
Lemma eff_data : forall p s s' j, eff p s s' -> j < next (sfs s) -> names (sfs s) (Temp p) <> Some j ->
  data (sfs s') j = data (sfs s) j.
Proof.
  intros p s s' j He Hj Hnt. destruct He as [Hn Hd Hx Ht Hv | Hf Ht Hv | Hf Ht Hv | b Hf Ht Hv | Hf Ht Hv | r i Hp Hph Hn Hr Ht Hv].
  - now rewrite Hd.
  - rewrite Hf. unfold open_create. destruct (names (sfs s) Side); cbn; [reflexivity|]. apply updi_other. lia.
  - rewrite Hf. unfold create_trunc. destruct (names (sfs s) (Temp p)) as [i|] eqn:Hb; cbn.
    + apply updi_other. intro; subst; apply Hnt; reflexivity.
    + apply updi_other. lia.
  - rewrite Hf. unfold temp_write. destruct (names (sfs s) (Temp p)) as [i|] eqn:Hb; cbn; [|reflexivity]. apply updi_other. intro; subst; apply Hnt; reflexivity.
  - rewrite Hf. reflexivity.
  - unfold rename in Hr. rewrite Hn in Hr. inversion Hr. reflexivity.
Qed.

(* names other than Target, Temp p, Side keep their binding; Target changes only by the rename *)
Lemma eff_names_other : forall p s s' q, eff p s s' -> q <> p -> names (sfs s') (Temp q) = names (sfs s) (Temp q).
Proof.
  intros p s s' q He Hq. assert (Hne : Temp q <> Temp p) by congruence.
  destruct He as [Hn Hd Hx Ht Hv | Hf Ht Hv | Hf Ht Hv | b Hf Ht Hv | Hf Ht Hv | r i Hp Hph Hn Hr Ht Hv].
  - now rewrite Hn.
  - rewrite Hf. unfold open_create. destruct (names (sfs s) Side); cbn; [reflexivity|]. apply updn_other. discriminate.
  - rewrite Hf. unfold create_trunc. destruct (names (sfs s) (Temp p)); cbn; [reflexivity|]. now apply updn_other.
  - rewrite Hf. now rewrite names_temp_write.
  - rewrite Hf. cbn. now apply updn_other.
  - unfold rename in Hr. rewrite Hn in Hr. inversion Hr. cbn. rewrite updn_other by discriminate. now apply updn_other.
Qed.

(* ------------------------------------------------------------------ what a step does to the stepping process *)

Definition past_save (x : phase) : bool := match x with PSave _ | PAck | PRel _ | PDone | PFail => true | _ => false end.
Definition in_save (x : phase) : bool := match x with PStart | PSave _ => true | _ => false end.

Lemma aw_exec_wcontent : forall p f w a f' w', aw_exec p f w a = Next f' w' -> wcontent w' = wcontent w.
Proof. intros p f w a f' w' H. destruct a; aw_inv; reflexivity. Qed.

Lemma finish_past r ok : past_save (ph (finish r ok)) = true.
Proof. destruct (finish_ph r ok) as [H|[H|H]]; rewrite H; reflexivity. Qed.
Lemma after_save_past r : past_save (ph (after_save r)) = true.
Proof. unfold after_save. destruct (cack (pcmd r) && _); [reflexivity|apply finish_past]. Qed.
Lemma finish_in_save r ok : in_save (ph (finish r ok)) = false.
Proof. destruct (finish_ph r ok) as [H|[H|H]]; rewrite H; reflexivity. Qed.
Lemma after_load_in_save r : in_save (ph (after_load r)) = false.
Proof. unfold after_load, emit_if. destruct (csave (pcmd r)); [destruct (csnap (pcmd r)); reflexivity|apply finish_in_save]. Qed.
Lemma after_save_in_save r : in_save (ph (after_save r)) = false.
Proof. unfold after_save. destruct (cack (pcmd r) && _); [reflexivity|apply finish_in_save]. Qed.
Lemma load_missing_in_save r : in_save (ph (load_missing r)) = false.
Proof. unfold load_missing. destruct (cmiss (pcmd r)); [apply finish_in_save|apply after_load_in_save]. Qed.
Lemma load_bad_in_save r : in_save (ph (load_bad r)) = false.
Proof. unfold load_bad. destruct (cbad (pcmd r)); [apply finish_in_save|apply after_load_in_save]. Qed.

Record proc_step (s s' : sys) (r r' : proc) : Prop := {
  p_pcmd : pcmd r' = pcmd r;
  p_rh : rh r' = rh r \/ rh r' = None \/ (ph r = PLoad LS /\ rh r' = names (sfs s) Target);
  p_reads : reads r' = reads r \/ exists i, rh r = Some i /\ reads r' = data (sfs s) i :: reads r;
  p_written : written s' = written s \/
              exists u, ph r = PComp /\ csave (pcmd r) = Some u /\ written s' = ser (apply_upd u (loaded r)) :: written s /\
                        wcontent (pw r') = ser (apply_upd u (loaded r)) /\ ph r' = PStart;
  p_past : past_save (ph r) = true -> past_save (ph r') = true /\ wcontent (pw r') = wcontent (pw r);
  p_insave : in_save (ph r') = true -> ph r = PComp \/ (in_save (ph r) = true /\ wcontent (pw r') = wcontent (pw r))
}.

Lemma body_in_save c : in_save (body_phase c) = false.
Proof. unfold body_phase. destruct (cload c); reflexivity. Qed.
Lemma body_past_save c : past_save (body_phase c) = false.
Proof. unfold body_phase. destruct (cload c); reflexivity. Qed.

Ltac pre_split :=
  repeat match goal with
         | |- context [match parse ?x with _ => _ end] => destruct (parse x)
         | |- context [if lerr ?r then _ else _] => destruct (lerr r)
         | |- context [emit_if ?c _ _] => unfold emit_if; destruct c
         | |- context [if ?ok then PDone else PFail] => destruct ok
         end.
Ltac ps_tac Hph :=
  pre_split; split; autorewrite with proj; cbn; rewrite ?Hph; cbn; auto;
  try solve [intros; discriminate];
  try solve [rewrite ?finish_in_save, ?after_load_in_save, ?after_save_in_save, ?load_missing_in_save, ?load_bad_in_save, ?body_in_save; intros; discriminate];
  try solve [intros; split; [first [apply finish_past | apply after_save_past | reflexivity] | autorewrite with proj; reflexivity]];
  try solve [right; eexists; split; [eassumption|reflexivity]];
  try solve [right; eexists; repeat split; eauto].

Lemma step_core_proc : forall s p s', step_core s p = Adv s' ->
  exists r r', procs s p = Some r /\ procs s' = updp (procs s) p r' /\ polls s' = polls s /\ proc_step s s' r r'.
Proof.
  intros s p s' H. step_cases H; aw_inv; (eexists; eexists; split; [first [eassumption | reflexivity]|split; [reflexivity|split; [reflexivity|]]]).
  all: match goal with Hph : ph _ = _ |- _ => ps_tac Hph end.
Qed.

Lemma blk_phase : forall s p r, step_core s p = Blk -> procs s p = Some r ->
  (exists i, ph r = PUpd (Some i)) \/ ph r = PLoad LO \/ ph r = PSave WOp.
Proof.
  intros s p r H Hp. unfold step_core in H. rewrite Hp in H.
  destruct (ph r) as [[i|]|[| | | |]| | |w| |ok| |] eqn:Hph; eauto; try discriminate H.
  - destruct (names (sfs s) Target); discriminate H.
  - destruct (open_existing (sfs s) Target); discriminate H.
  - destruct (rh r); discriminate H.
  - destruct (csave (pcmd r)); discriminate H.
  - destruct w; auto; cbn in H; try discriminate H.
    + destruct (bufwriter_cap <=? wsize (pw r)); discriminate H.
    + destruct (rename (sfs s) (Temp p) Target); discriminate H.
    + destruct (wh (pw r)); discriminate H.
Qed.

Lemma step_proc : forall s p s', step s p = Some s' ->
  exists r r', procs s p = Some r /\ procs s' = updp (procs s) p r' /\ polls s' = polls s /\ proc_step s s' r r'.
Proof.
  intros s p s' H. unfold step in H. destruct (step_core s p) as [| |s1] eqn:Hc; [discriminate| |].
  - destruct (procs s p) as [r|] eqn:Hp; [|discriminate]. exists r.
    destruct (budget r).
    + inversion H; subst; clear H. unfold timeout_step.
      destruct (blk_phase _ _ _ Hc Hp) as [[iu Hph]|[Hph|Hph]]; rewrite Hph; cbn;
        (eexists; split; [reflexivity|split; [reflexivity|split; [reflexivity|]]]); ps_tac Hph.
    + inversion H; subst. eexists; split; [reflexivity|split; [reflexivity|split; [reflexivity|]]].
      split; cbn; auto; try (intros Hq; right; auto).
  - inversion H; subst. now apply step_core_proc.
Qed.
