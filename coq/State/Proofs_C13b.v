(* State/Proofs_C13b.v: the save protocol started from ANY well-formed file system -- in
   particular from what an arbitrary history of crashed saves of the same (recycled) pid left,
   stale temp file included: File::create truncates it, so a completed save installs exactly
   the new content. *)
From Coq Require Import Arith PeanoNat NArith List Bool Lia String.
From SG Require Import State.Fs State.AtomicWrite State.Proofs_C13.
Import ListNotations.
Open Scope N_scope.

Record fs_ok (f : fs) : Prop := {
  ok_a : forall i j, names f (Temp writer) = Some i -> names f Target = Some j -> i <> j;
  ok_b : forall n i, names f n = Some i -> i < next f;
  ok_c : forall j, names f Target = Some j -> lock f j = Free;
  ok_d : forall i, names f (Temp writer) = Some i -> lock f i = Free
}.

Ltac crank :=
  repeat (progress (cbn -[N.leb bufwriter_cap parse ser N.eqb];
                    unfold create_trunc, open_create, temp_write, open_existing, append, try_lock_ex, rename, unlock_ex, reap,
                           target, temp_of, read_name, set_data, set_lock, set_names, updn, updi;
                    repeat match goal with H : _ = _ |- _ => rewrite H end; rewrite ?N.eqb_refl, ?app_nil_r;
                    repeat match goal with |- context [N.eqb ?a ?b] => destruct (N.eqb_spec a b); [try (exfalso; lia)|] end)).
Ltac setup f A B C D :=
  destruct (names f (Temp writer)) as [i|] eqn:Ht; destruct (names f Target) as [j|] eqn:Hg;
  try (pose proof (C j eq_refl) as Hl); try (pose proof (D i eq_refl) as Hlt); try (pose proof (A i j eq_refl eq_refl) as Hij);
  try (pose proof (B _ _ Ht) as Hbi); try (pose proof (B _ _ Hg) as Hbj).

Lemma crash_from_ge9 : forall f new sz k, (9 <= k)%nat -> crash_from f new sz k = crash_from f new sz 9.
Proof. intros. unfold crash_from. now rewrite !firstn_protocol_ge by lia. Qed.

Ltac each_k k tac :=
  destruct (Nat.leb 9 k) eqn:G;
  [ apply Nat.leb_le in G; rewrite (crash_from_ge9 _ _ _ _ G); replace (Nat.leb k 7) with false by (symmetry; apply Nat.leb_gt; lia); tac
  | apply Nat.leb_gt in G; do 9 (destruct k as [|k]; [tac|]); lia ].

(* the target: unchanged before the rename, the complete new content after it *)
Lemma crash_from_target : forall f c sz k, fs_ok f ->
  target (crash_from f c sz k) = if Nat.leb k 7 then target f else Some c.
Proof.
  intros f c sz k [A B C D]. each_k k ltac:(unfold crash_from; setup f A B C D; destruct (bufwriter_cap <=? sz) eqn:E; crank; try reflexivity).
Qed.

Lemma crash_from_temp : forall f c sz k, fs_ok f -> (9 <= k)%nat -> temp_of (crash_from f c sz k) = None.
Proof.
  intros f c sz k [A B C D] G. rewrite (crash_from_ge9 _ _ _ _ G).
  unfold crash_from; setup f A B C D; destruct (bufwriter_cap <=? sz) eqn:E; crank; try reflexivity.
Qed.

Ltac okgoal B :=
  split; [intros ? ? ? ? | (let n := fresh "n" in intros n ? ?; destruct n as [|?q|]) | intros ? ? | intros ? ?];
  cbn -[N.eqb] in *;
  repeat match goal with
         | H : context [N.eqb ?a ?b] |- _ => destruct (N.eqb_spec a b); subst
         | |- context [N.eqb ?a ?b] => destruct (N.eqb_spec a b); subst
         end;
  repeat match goal with
         | H : Some _ = Some _ |- _ => inversion H; clear H; subst
         | H : None = Some _ |- _ => discriminate H
         end;
  try assumption; try lia; try congruence;
  try (match goal with H : names _ _ = Some _ |- _ => pose proof (B _ _ H) end; lia).

(* what a crash leaves is again a well-formed file system *)
Lemma crash_from_ok : forall f c sz k, fs_ok f -> fs_ok (crash_from f c sz k).
Proof.
  intros f c sz k [A B C D].
  destruct (Nat.leb 9 k) eqn:G.
  - apply Nat.leb_le in G; rewrite (crash_from_ge9 _ _ _ _ G).
    unfold crash_from; setup f A B C D; destruct (bufwriter_cap <=? sz) eqn:E; crank; okgoal B.
  - apply Nat.leb_gt in G.
    do 9 (destruct k as [|k]; [unfold crash_from; setup f A B C D; destruct (bufwriter_cap <=? sz) eqn:E; crank; okgoal B|]).
    lia.
Qed.

Lemma init_ok : forall prior, fs_ok (fs_init prior).
Proof. intros [b|]; split; cbn; intros; try discriminate; try reflexivity; destruct n; cbn in *; try discriminate; inversion H; lia. Qed.

Lemma after_crashes_ok : forall h f, fs_ok f -> fs_ok (after_crashes f h).
Proof. induction h as [|[[c sz] k] h IH]; intros f Hf; cbn; [exact Hf|]. apply IH, crash_from_ok, Hf. Qed.

(* the target is only ever changed by a rename that installs a complete document *)
Lemma after_crashes_target : forall h f, fs_ok f ->
  target (after_crashes f h) = target f \/ exists c sz k, In (c, sz, k) h /\ target (after_crashes f h) = Some c.
Proof.
  induction h as [|[[c sz] k] h IH]; intros f Hf; cbn [after_crashes]; [left; reflexivity|].
  destruct (IH _ (crash_from_ok f c sz k Hf)) as [E|(c' & sz' & k' & Hin & E)].
  - rewrite E, (crash_from_target _ _ _ _ Hf). destruct (Nat.leb k 7); [left; reflexivity|right]. exists c, sz, k. split; [left; reflexivity|reflexivity].
  - right. exists c', sz', k'. split; [right; exact Hin|exact E].
Qed.

(* a save that runs to completion after ANY history of crashed saves of the same pid installs
   exactly the new content and leaves no temp file *)
Lemma save_after_crashes : forall prior h new sz,
  target (crash_from (after_crashes (fs_init prior) h) new sz 9) = Some new /\
  temp_of (crash_from (after_crashes (fs_init prior) h) new sz 9) = None.
Proof.
  intros prior h new sz. pose proof (after_crashes_ok h _ (init_ok prior)) as Hf. split.
  - now rewrite (crash_from_target _ _ _ _ Hf).
  - apply crash_from_temp; [exact Hf|lia].
Qed.

Lemma crash_after_history : forall prior h new sz k,
  target (crash_from (after_crashes (fs_init prior) h) new sz k) =
  if Nat.leb k 7 then target (after_crashes (fs_init prior) h) else Some new.
Proof. intros. apply crash_from_target, after_crashes_ok, init_ok. Qed.

Lemma history_target_complete : forall prior h,
  target (after_crashes (fs_init prior) h) = prior \/
  exists c sz k, In (c, sz, k) h /\ target (after_crashes (fs_init prior) h) = Some c.
Proof.
  intros prior h. destruct (after_crashes_target h _ (init_ok prior)) as [E|E]; [left|right; exact E].
  rewrite E. destruct prior; reflexivity.
Qed.
