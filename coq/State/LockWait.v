(* State/LockWait.v: the polling loop of try_lock_exclusive_with_timeout / try_lock_shared_with_timeout
   (src/state.rs) while the lock stays held by somebody else, as a state machine over
   (elapsed, interval), in milliseconds:
       loop { try_lock fails; if elapsed >= timeout { return Timeout }; sleep(interval); }
   [next] is how the interval evolves (the code: constant LOCK_POLL_INTERVAL_MS).
   [Concurrency.polls] = timeout / interval is the number of failed attempts before the last one.
   Model file: definitions only. *)
From Coq Require Import NArith.
Open Scope N_scope.

Definition lock_poll_interval_ms : N := 50.

Fixpoint wait_loop (fuel : nat) (timeout elapsed interval : N) (next : N -> N) : N :=
  match fuel with
  | O => elapsed
  | S k => if timeout <=? elapsed then elapsed
           else wait_loop k timeout (elapsed + interval) (next interval) next
  end.

(* total time a waiter spends before it gives up *)
Definition total_wait (timeout interval : N) (next : N -> N) : N :=
  wait_loop (S (N.to_nat timeout)) timeout 0 interval next.
