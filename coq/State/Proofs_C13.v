(* State/Proofs_C13.v: lemmas about the save protocol (State/AtomicWrite.v) for every prior state,
   every new content, every physical size and every crash point k. *)
From Coq Require Import Arith PeanoNat NArith List Bool Lia String.
From SG Require Import State.Fs State.AtomicWrite.
Import ListNotations.
Open Scope N_scope.

Lemma parse_ser : forall v, parse (ser v) = Some v.
Proof. intros v. unfold parse, ser. now rewrite N.eqb_refl. Qed.

Lemma parse_nil : parse [] = None.
Proof. reflexivity. Qed.

Lemma ser_not_nil : forall v, ser v <> [].
Proof. intros v. unfold ser. discriminate. Qed.

(* a proper prefix of a document does not parse: truncation is always detected *)
Lemma parse_proper_prefix : forall v n, (n < List.length (ser v))%nat -> parse (firstn n (ser v)) = None.
Proof.
  intros v n H. unfold ser in *. destruct n as [|n]; [reflexivity|].
  cbn [firstn parse]. cbn [List.length] in H.
  destruct (N.eqb_spec (N.of_nat (List.length (firstn n v))) (N.of_nat (List.length v))) as [E|E]; [|reflexivity].
  apply Nat2N.inj in E. rewrite firstn_length in E. lia.
Qed.

Ltac crunch := cbn -[N.leb bufwriter_cap parse ser]; rewrite ?app_nil_r; try reflexivity.

(* after nine steps the protocol is over: larger k change nothing *)
Lemma firstn_protocol_ge : forall k, (9 <= k)%nat -> firstn k protocol = protocol.
Proof. intros k H. apply firstn_all2. exact H. Qed.

Lemma crash_ge9 : forall prior new sz k, (9 <= k)%nat -> crash prior new sz k = crash prior new sz 9.
Proof. intros. unfold crash, crash_from. now rewrite !firstn_protocol_ge by lia. Qed.

(* the target after a crash at k: the rename (step 8) is the one and only point of change *)
Lemma crash_target : forall prior new sz k,
  target (crash prior new sz k) = if Nat.leb k 7 then prior else Some new.
Proof.
  intros prior new sz k.
  destruct (Nat.leb 9 k) eqn:G.
  - apply Nat.leb_le in G. rewrite crash_ge9 by exact G.
    replace (Nat.leb k 7) with false by (symmetry; apply Nat.leb_gt; lia).
    unfold crash, crash_from. destruct prior; destruct (bufwriter_cap <=? sz) eqn:E; crunch; rewrite E; crunch.
  - apply Nat.leb_gt in G.
    do 9 (destruct k as [|k]; [unfold crash, crash_from; destruct prior; destruct (bufwriter_cap <=? sz) eqn:E; crunch; rewrite ?E; crunch|]).
    lia.
Qed.

(* the temp name never denotes the inode the target name denotes *)
Lemma crash_temp_private : forall prior new sz k i,
  names (crash prior new sz k) (Temp writer) = Some i -> names (crash prior new sz k) Target <> Some i.
Proof.
  intros prior new sz k i.
  destruct (Nat.leb 9 k) eqn:G.
  - apply Nat.leb_le in G. rewrite crash_ge9 by exact G.
    unfold crash, crash_from. destruct prior; destruct (bufwriter_cap <=? sz) eqn:E; crunch; rewrite ?E; crunch; discriminate.
  - apply Nat.leb_gt in G.
    do 9 (destruct k as [|k]; [unfold crash, crash_from; destruct prior; destruct (bufwriter_cap <=? sz) eqn:E; crunch; rewrite ?E; crunch;
                                intros H; try discriminate H; inversion H; subst; discriminate|]).
    lia.
Qed.

(* the temp file holds nothing, or the whole document, or (between write and flush of a small
   document) nothing yet: never a part of it; and it is gone once renamed *)
Lemma crash_temp_content : forall prior new sz k,
  temp_of (crash prior new sz k) = None \/ temp_of (crash prior new sz k) = Some [] \/
  temp_of (crash prior new sz k) = Some new.
Proof.
  intros prior new sz k.
  destruct (Nat.leb 9 k) eqn:G.
  - apply Nat.leb_le in G. rewrite crash_ge9 by exact G.
    unfold crash, crash_from. destruct prior; destruct (bufwriter_cap <=? sz) eqn:E; crunch; rewrite ?E; crunch; auto.
  - apply Nat.leb_gt in G.
    do 9 (destruct k as [|k]; [unfold crash, crash_from; destruct prior; destruct (bufwriter_cap <=? sz) eqn:E; crunch; rewrite ?E; crunch; auto|]).
    lia.
Qed.

(* no lock survives the crash: the next loader is not held up *)
Lemma crash_load_raw : forall prior new sz k,
  fst (load_raw (crash prior new sz k)) =
  match target (crash prior new sz k) with
  | None => Absent
  | Some b => match parse b with Some v => Loaded v | None => Failed end
  end.
Proof.
  intros prior new sz k.
  destruct (Nat.leb 9 k) eqn:G.
  - apply Nat.leb_le in G. rewrite crash_ge9 by exact G.
    unfold crash, crash_from. destruct prior; destruct (bufwriter_cap <=? sz) eqn:E; crunch; rewrite ?E; crunch.
  - apply Nat.leb_gt in G.
    do 9 (destruct k as [|k]; [unfold crash, crash_from; destruct prior; destruct (bufwriter_cap <=? sz) eqn:E; crunch; rewrite ?E; crunch|]).
    lia.
Qed.

Lemma init_load_raw : forall prior,
  fst (load_raw (fs_init prior)) =
  match prior with
  | None => Absent
  | Some b => match parse b with Some v => Loaded v | None => Failed end
  end.
Proof. intros [b|]; crunch. Qed.

Lemma load_kind_crash : forall kd prior new sz k,
  load_kind kd (crash prior new sz k) =
  if Nat.leb k 7 then load_kind kd (fs_init prior) else load_kind kd (fs_init (Some new)).
Proof.
  intros. unfold load_kind. rewrite crash_load_raw, crash_target, !init_load_raw.
  destruct (Nat.leb k 7); reflexivity.
Qed.

Lemma load_kind_valid : forall kd v, load_kind kd (fs_init (Some (ser v))) = Proceed v.
Proof. intros. unfold load_kind. rewrite init_load_raw, parse_ser. destruct kd; reflexivity. Qed.

Lemma load_kind_absent : forall kd,
  load_kind kd (fs_init None) = match kd with Baseline => ExitNotFound | _ => Proceed [] end.
Proof. intros []; reflexivity. Qed.

(* ---- statements in the form used by Properties_C13 ---- *)

Lemma crash_safe : forall prior new sz k,
  target (crash prior new sz k) = prior \/ target (crash prior new sz k) = Some new.
Proof. intros. rewrite crash_target. destruct (Nat.leb k 7); auto. Qed.

Lemma crash_never_partial : forall pv w sz k b,
  target (crash (option_map ser pv) (ser w) sz k) = Some b -> parse b = pv \/ parse b = Some w.
Proof.
  intros pv w sz k b. rewrite crash_target. destruct (Nat.leb k 7); intros H.
  - destruct pv as [v|]; cbn in H; [|discriminate]. inversion H; subst. left. apply parse_ser.
  - inversion H; subst. right. apply parse_ser.
Qed.

Lemma next_load_ok : forall kd pv w sz k,
  load_kind kd (crash (option_map ser pv) (ser w) sz k) = load_kind kd (fs_init (option_map ser pv)) \/
  load_kind kd (crash (option_map ser pv) (ser w) sz k) = Proceed w.
Proof.
  intros. rewrite load_kind_crash. destruct (Nat.leb k 7); [left; reflexivity|right; apply load_kind_valid].
Qed.

Lemma no_discard : forall kd pv w sz k,
  load_kind kd (crash (option_map ser pv) (ser w) sz k) <> ProceedDiscarding /\
  load_kind kd (crash (option_map ser pv) (ser w) sz k) <> ExitParse.
Proof.
  intros. rewrite load_kind_crash. destruct (Nat.leb k 7).
  - destruct pv as [v|]; cbn [option_map].
    + rewrite load_kind_valid. split; discriminate.
    + rewrite load_kind_absent. destruct kd; split; discriminate.
  - rewrite load_kind_valid. split; discriminate.
Qed.

Lemma refused_rename : forall prior new sz,
  target (save_refused prior new sz) = prior /\ temp_of (save_refused prior new sz) = None.
Proof.
  intros prior new sz. unfold save_refused. split.
  - pose proof (crash_target prior new sz 7) as H. cbn [Nat.leb] in H.
    transitivity (target (crash prior new sz 7)); [reflexivity|exact H].
  - unfold temp_of, read_name, unlink. cbn. reflexivity.
Qed.
