(* Properties_C13.v -- C13: state files survive a crash at any point of a save.
   Property theorems only; each is closed by [exact <lemma>] and followed by Print Assumptions.
   Model: State/Fs.v (names -> inode -> bytes, per-inode lock) and State/AtomicWrite.v
   ([protocol], [crash prior new sz k] = the first k steps of the protocol on a file system whose
   target is absent ([prior = None]) or holds [prior], then the dead process's lock is dropped;
   the loaders). Every theorem is for ALL prior contents, ALL new contents, ALL physical sizes
   (buffered or written through) and ALL k (k above 9 = the save completed).
   D14 (an absent target used to be created empty for locking) is repaired: the statements hold
   for an absent prior state as well; there is no known class left. *)
From Coq Require Import NArith List String.
From SG Require Import State.Fs State.AtomicWrite State.Proofs_C13 State.Proofs_C13b State.Proofs_C13c.
Import ListNotations.
Open Scope N_scope.

(* after a crash at any point the target is unchanged (or still absent) or the complete new content *)
Theorem C13_crash_safe : forall (prior : option bytes) (new : bytes) (sz : N) (k : nat),
  target (crash prior new sz k) = prior \/ target (crash prior new sz k) = Some new.
Proof. exact crash_safe. Qed.
Print Assumptions C13_crash_safe.

(* ... more precisely the rename (step 8) is the single point of change *)
Theorem C13_change_point : forall (prior : option bytes) (new : bytes) (sz : N) (k : nat),
  target (crash prior new sz k) = if Nat.leb k 7 then prior else Some new.
Proof. exact crash_target. Qed.
Print Assumptions C13_change_point.

(* never empty, truncated or partial: what is on disk parses to the prior or to the new document *)
Theorem C13_never_partial : forall (pv : option value) (w : value) (sz : N) (k : nat) (b : bytes),
  target (crash (option_map ser pv) (ser w) sz k) = Some b -> parse b = pv \/ parse b = Some w.
Proof. exact crash_never_partial. Qed.
Print Assumptions C13_never_partial.

(* the next invocation loads it: it behaves as on the untouched file, or gets the new document *)
Theorem C13_next_load_ok : forall (kd : kind) (pv : option value) (w : value) (sz : N) (k : nat),
  load_kind kd (crash (option_map ser pv) (ser w) sz k) = load_kind kd (fs_init (option_map ser pv)) \/
  load_kind kd (crash (option_map ser pv) (ser w) sz k) = Proceed w.
Proof. exact next_load_ok. Qed.
Print Assumptions C13_next_load_ok.

(* ... without error and without silently discarding previously recorded entries *)
Theorem C13_no_discard : forall (kd : kind) (pv : option value) (w : value) (sz : N) (k : nat),
  load_kind kd (crash (option_map ser pv) (ser w) sz k) <> ProceedDiscarding /\
  load_kind kd (crash (option_map ser pv) (ser w) sz k) <> ExitParse.
Proof. exact no_discard. Qed.
Print Assumptions C13_no_discard.

(* an intact valid file is loaded as it is, by each of the three loaders *)
Theorem C13_intact_load : forall (kd : kind) (v : value), load_kind kd (fs_init (Some (ser v))) = Proceed v.
Proof. exact load_kind_valid. Qed.
Print Assumptions C13_intact_load.

(* the temp name never aliases the target *)
Theorem C13_temp_is_private : forall (prior : option bytes) (new : bytes) (sz : N) (k : nat) (i : inode),
  names (crash prior new sz k) (Temp writer) = Some i -> names (crash prior new sz k) Target <> Some i.
Proof. exact crash_temp_private. Qed.
Print Assumptions C13_temp_is_private.

(* what a crash leaves in the temp file: nothing, or the whole document *)
Theorem C13_temp_content : forall (prior : option bytes) (new : bytes) (sz : N) (k : nat),
  temp_of (crash prior new sz k) = None \/ temp_of (crash prior new sz k) = Some [] \/
  temp_of (crash prior new sz k) = Some new.
Proof. exact crash_temp_content. Qed.
Print Assumptions C13_temp_content.

(* crash HISTORIES: [after_crashes f h] is what any sequence h of crashed saves (content, size,
   crash point) of a process with the same, recycled pid leaves -- each starts from what the
   previous one left, the stale temp file included even under the SAME name (the adversary of the
   pid-only temp name before D95; since D95 a residue keeps a name of its own and is never reused).
   A save that then runs to completion installs exactly the new content and leaves no temp file. *)
Theorem C13_save_after_any_crash_history : forall (prior : option bytes) (h : list (bytes * N * nat)) (new : bytes) (sz : N),
  target (crash_from (after_crashes (fs_init prior) h) new sz 9) = Some new /\
  temp_of (crash_from (after_crashes (fs_init prior) h) new sz 9) = None.
Proof. exact save_after_crashes. Qed.
Print Assumptions C13_save_after_any_crash_history.

(* ... a further crash at any point k leaves the target as the history left it, or completely new *)
Theorem C13_crash_safe_after_history : forall (prior : option bytes) (h : list (bytes * N * nat)) (new : bytes) (sz : N) (k : nat),
  target (crash_from (after_crashes (fs_init prior) h) new sz k) =
  if Nat.leb k 7 then target (after_crashes (fs_init prior) h) else Some new.
Proof. exact crash_after_history. Qed.
Print Assumptions C13_crash_safe_after_history.

(* ... and what a history leaves in the target is the prior content or one of the complete documents *)
Theorem C13_history_target_complete : forall (prior : option bytes) (h : list (bytes * N * nat)),
  target (after_crashes (fs_init prior) h) = prior \/
  exists c sz k, In (c, sz, k) h /\ target (after_crashes (fs_init prior) h) = Some c.
Proof. exact history_target_complete. Qed.
Print Assumptions C13_history_target_complete.

(* non-vacuity: a long document's save is killed after the flush, then a short one is saved with the same pid *)
Example C13_stale_temp_is_truncated :
  temp_of (crash (Some (ser [1])) (ser [1; 2; 3; 4; 5]) 20000 6) = Some (ser [1; 2; 3; 4; 5]) /\
  target (crash_from (crash (Some (ser [1])) (ser [1; 2; 3; 4; 5]) 20000 6) (ser [7]) 3 9) = Some (ser [7]).
Proof. vm_compute. split; reflexivity. Qed.
Print Assumptions C13_stale_temp_is_truncated.

(* D95 (repaired): the temp file is created with create_new under a name the save advances until
   the creation succeeds. What that gives: the name was unbound, the inode is fresh, no other
   name and no older inode is touched -- so [Temp p] is private to the save also between two
   processes with the same operating-system pid. *)
Theorem C13_exclusive_temp_is_fresh : forall (f : fs) (n : fname) (f' : fs) (i : inode),
  create_excl f n = Some (f', i) ->
  names f n = None /\ i = next f /\ names f' n = Some i /\ data f' i = [] /\
  (forall m, fname_eqb m n = false -> names f' m = names f m) /\
  (forall j, j < next f -> data f' j = data f j).
Proof. exact create_excl_fresh. Qed.
Print Assumptions C13_exclusive_temp_is_fresh.

Theorem C13_exclusive_temp_refuses_shared_name : forall (f : fs) (n : fname) (i : inode),
  names f n = Some i -> create_excl f n = None.
Proof. exact create_excl_refuses_bound. Qed.
Print Assumptions C13_exclusive_temp_refuses_shared_name.

(* the former D95 witness: with a temp name shared by two saves (File::create on the pid-only
   name, two processes with pid 1 in different PID namespaces) A, standing after its fsync while B
   creates the temp file and is killed, renames an empty file over the target *)
Example C13_shared_temp_name_refuted :
  target (shared_temp_name_run (Some (ser [1])) (ser [1; 2]) (ser [1; 2])) = Some [] /\
  target (shared_temp_name_run None (ser [1; 2]) (ser [1; 2])) = Some [].
Proof. exact shared_temp_name_empties_target. Qed.
Print Assumptions C13_shared_temp_name_refuted.

(* a target that is a mount point: the rename is refused, the save fails and the file is untouched *)
Theorem C13_refused_rename : forall (prior : option bytes) (new : bytes) (sz : N),
  target (save_refused prior new sz) = prior /\ temp_of (save_refused prior new sz) = None.
Proof. exact refused_rename. Qed.
Print Assumptions C13_refused_rename.

(* the document abstraction: a truncated document never parses (so a partial file could not hide) *)
Theorem C13_truncation_detected : forall (v : value) (n : nat),
  (n < List.length (ser v))%nat -> parse (firstn n (ser v)) = None.
Proof. exact parse_proper_prefix. Qed.
Print Assumptions C13_truncation_detected.

(* the named points of the model are the hook names of src/state.rs, in protocol order
   (the check compares this list with the SGV_TRACE of a real save) *)
Example C13_points_are_protocol :
  points = ["aw:start"; "aw:after_mkparent"; "aw:after_create_temp"; "aw:after_write"; "aw:after_flush";
            "aw:after_fsync"; "aw:after_open_target"; "aw:after_lock"; "aw:after_rename"; "aw:after_unlock"]%string
  /\ List.length points = S (List.length protocol).
Proof. split; reflexivity. Qed.
Print Assumptions C13_points_are_protocol.

(* non-vacuity, and the former D14 witness: an absent target stays absent until the rename *)
Example C13_no_placeholder :
  target (crash None (ser [1]) 3 6) = None /\ target (crash None (ser [1]) 3 7) = None /\
  target (crash None (ser [1]) 3 8) = Some (ser [1]) /\
  target (crash (Some (ser [5])) (ser [5; 6]) 20000 4) = Some (ser [5]) /\
  temp_of (crash (Some (ser [5])) (ser [5; 6]) 20000 4) = Some (ser [5; 6]) /\
  temp_of (crash (Some (ser [5])) (ser [5; 6]) 3 3) = Some [] /\
  load_kind Baseline (crash None (ser [1]) 3 7) = ExitNotFound /\
  load_kind History (crash (Some (ser [5])) (ser [5; 6]) 3 7) = Proceed [5].
Proof. vm_compute. repeat split; reflexivity. Qed.
Print Assumptions C13_no_placeholder.
