(* State/Proofs_C14b.v: the main invariant of the n-process system (complete documents only,
   private temp files, the target is what the last renamer wrote) and its preservation. *)
From Coq Require Import Arith PeanoNat NArith List Bool Lia String.
From SG Require Import State.Fs State.AtomicWrite State.Proofs_C13 State.Concurrency State.Proofs_C14.
Import ListNotations.
Open Scope N_scope.

Definition tmp_live (w : wpos) : bool := match w with WTmp | WWr | WFl | WFs | WOp | WLk => true | _ => false end.
Definition tmp_ok (w : wpos) (d : bytes) (x : wst) : Prop :=
  match w with
  | WTmp => d = [] /\ wbuf x = []
  | WWr => d ++ wbuf x = wcontent x
  | WFl | WFs | WOp | WLk => d = wcontent x
  | _ => True
  end.

(* the temp file of the stepping process: created empty, filled completely before the rename *)
Lemma step_tmp : forall s p s' r r' w',
  step s p = Some s' -> procs s p = Some r -> procs s' p = Some r' ->
  (forall w, ph r = PSave w -> tmp_live w = true ->
             exists i, names (sfs s) (Temp p) = Some i /\ tmp_ok w (data (sfs s) i) (pw r)) ->
  ph r' = PSave w' -> tmp_live w' = true ->
  exists i, names (sfs s') (Temp p) = Some i /\ tmp_ok w' (data (sfs s') i) (pw r').
Proof.
  intros s p s' r0 r' w' H Hp0 Hp' IH Hph' Hlive.
  unfold step in H. destruct (step_core s p) as [| |s1] eqn:Hc; [discriminate| |].
  - (* poll / time-out *)
    rewrite Hp0 in H. destruct (budget r0).
    + inversion H; subst; clear H. exfalso. unfold timeout_step in Hp'.
      destruct (blk_phase _ _ _ Hc Hp0) as [[iu Hph]|[Hph|Hph]]; rewrite Hph in Hp'; cbn in Hp'; rewrite updp_same in Hp';
        inversion Hp'; subst; cbn in Hph'; try discriminate Hph'.
      eapply after_save_not_save; eauto.
    + inversion H; subst; clear H. cbn in Hp'. rewrite updp_same in Hp'. inversion Hp'; subst. cbn in *. eauto.
  - inversion H; subst; clear H. step_cases Hc; inversion Hp0; subst; clear Hp0;
      cbn [procs setp setfp sfs] in Hp'; rewrite updp_same in Hp'; inversion Hp'; subst; clear Hp';
      try (exfalso; first [ eapply finish_not_save; eassumption | eapply after_load_not_save; eassumption
                          | eapply after_save_not_save; eassumption | eapply load_missing_not_save; eassumption
                          | eapply load_bad_not_save; eassumption ]);
      try (unfold body_phase, emit_if in Hph'; repeat match type of Hph' with context [if ?b then _ else _] => destruct b end; cbn in Hph'; discriminate Hph').
    all: try (cbn in Hph'; discriminate Hph').
    all: try (match type of Hph' with context [if lerr ?x then _ else _] => destruct (lerr x) end;
              exfalso; first [eapply load_bad_not_save; eassumption | eapply after_load_not_save; eassumption]).
    all: cbn in Hph'; try (inversion Hph'; subst; cbn in Hlive; try discriminate Hlive).
    all: aw_inv; cbn [sfs pw with_w with_ph with_budget emit wcontent wbuf].
    + (* CreateTemp *)
      unfold create_trunc. destruct (names (sfs s) (Temp p)) as [i|] eqn:Hn; cbn.
      * exists i. rewrite Hn. split; [reflexivity|]. rewrite updi_same. auto.
      * exists (next (sfs s)). rewrite updn_same. split; [reflexivity|]. rewrite updi_same. auto.
    + (* WriteTemp, written through *)
      destruct (IH WTmp Hph eq_refl) as (j & Hn & Hd & Hb). exists j. rewrite names_temp_write. split; [exact Hn|].
      unfold temp_write. rewrite Hn. cbn. rewrite updi_same, Hd, Hb. cbn. now rewrite app_nil_r.
    + (* WriteTemp, buffered *)
      destruct (IH WTmp Hph eq_refl) as (j & Hn & Hd & Hb). exists j. split; [exact Hn|]. cbn. now rewrite Hd.
    + (* Flush *)
      destruct (IH WWr Hph eq_refl) as (j & Hn & Hd). exists j. rewrite names_temp_write. split; [exact Hn|].
      unfold temp_write. rewrite Hn. cbn. rewrite updi_same. exact Hd.
    + (* Fsync *) destruct (IH WFl Hph eq_refl) as (j & Hn & Hd). exists j. auto.
    + (* OpenTarget *) destruct (IH WFs Hph eq_refl) as (j & Hn & Hd). exists j. auto.
    + (* LockExcl, acquired *)
      destruct (IH WOp Hph eq_refl) as (j & Hn & Hd). exists j.
      match goal with Hl : try_lock_ex _ _ _ = Some _ |- _ => apply try_lock_ex_frame in Hl; destruct Hl as (A & B & C) end.
      rewrite A, B. auto.
    + (* LockExcl, nothing to lock *) destruct (IH WOp Hph eq_refl) as (j & Hn & Hd). exists j. auto.
Qed.

(* ------------------------------------------------------------------ the invariant *)

Record Inv (prior : option bytes) (s : sys) : Prop := {
  iF : FInv (sfs s) (tgts s);
  (* every inode that ever was the target holds a complete document *)
  iA : forall i, In i (tgts s) -> In (data (sfs s) i) (written s);
  (* read handles point to such inodes *)
  iA3 : forall q r i, procs s q = Some r -> rh r = Some i -> In i (tgts s);
  (* the temp file of a writer exists exactly while it is between CreateTemp and Rename; it is complete from Flush on *)
  iB : forall q r w, procs s q = Some r -> ph r = PSave w -> tmp_live w = true ->
       exists i, names (sfs s) (Temp q) = Some i /\ tmp_ok w (data (sfs s) i) (pw r);
  iB2 : forall q r, procs s q = Some r -> in_save (ph r) = true -> In (wcontent (pw r)) (written s);
  (* whatever was read is a complete document *)
  iR : forall q r b, procs s q = Some r -> In b (reads r) -> In b (written s);
  (* complete documents: the initial one and the serialised results of the updates *)
  iW : forall b, In b (written s) ->
       Some b = prior \/ exists q r u v, procs s q = Some r /\ csave (pcmd r) = Some u /\ b = ser (apply_upd u v);
  (* the target is what the last renamer installed *)
  iT : final_target s = match vers s with [] => prior | (_, b) :: _ => Some b end;
  iV : forall q b, In (q, b) (vers s) ->
       In b (written s) /\ exists r, procs s q = Some r /\ wcontent (pw r) = b /\ past_save (ph r) = true
}.

Lemma cons_self_neq : forall A (x : A) l, x :: l <> l.
Proof. intros A x l. revert x. induction l as [|y l IH]; intros x E; [discriminate|]. inversion E. eapply IH; eauto. Qed.

Lemma written_mono : forall s s' r r', proc_step s s' r r' -> incl (written s) (written s').
Proof.
  intros s s' r r' P. destruct (p_written _ _ _ _ P) as [E|(u & _ & _ & E & _)]; rewrite E; [apply incl_refl|apply incl_tl, incl_refl].
Qed.

(* effects other than the rename leave the target alone *)
Lemma eff_final_target : forall p s s', eff p s s' -> FInv (sfs s) (tgts s) ->
  vers s' = vers s -> final_target s' = final_target s.
Proof.
  intros p s s' He F Hv. unfold final_target, read_name.
  assert (K : forall f', (forall i, names (sfs s) Target = Some i -> names f' Target = Some i /\ data f' i = data (sfs s) i) ->
                         (names (sfs s) Target = None -> names f' Target = None) ->
                         match names f' Target with Some i => Some (data f' i) | None => None end =
                         match names (sfs s) Target with Some i => Some (data (sfs s) i) | None => None end).
  { intros f' K1 K2. destruct (names (sfs s) Target) as [i|] eqn:Hn.
    - destruct (K1 i eq_refl) as [A B]. now rewrite A, B.
    - now rewrite K2. }
  assert (Hd : forall i, names (sfs s) Target = Some i -> data (sfs s') i = data (sfs s) i).
  { intros i Hi. eapply eff_data; eauto.
    - eapply fE; eauto.
    - intros Hc. assert (Temp p = Target) by (eapply fD; eauto). discriminate. }
  apply K.
  - intros i Hi. split; [|auto].
    destruct He as [Hn Hd' Hx Ht Hv' | Hf Ht Hv' | Hf Ht Hv' | b Hf Ht Hv' | Hf Ht Hv' | r i0 Hp Hph Hn Hr Ht Hv'].
    + now rewrite Hn.
    + rewrite Hf. unfold open_create. destruct (names (sfs s) Side); cbn; [exact Hi|]. rewrite updn_other by discriminate. exact Hi.
    + rewrite Hf. unfold create_trunc. destruct (names (sfs s) (Temp p)); cbn; [exact Hi|]. rewrite updn_other by discriminate. exact Hi.
    + rewrite Hf. now rewrite names_temp_write.
    + rewrite Hf. cbn. rewrite updn_other by discriminate. exact Hi.
    + rewrite Hv' in Hv. exfalso. eapply cons_self_neq; eauto.
  - intros Hi.
    destruct He as [Hn Hd' Hx Ht Hv' | Hf Ht Hv' | Hf Ht Hv' | b Hf Ht Hv' | Hf Ht Hv' | r i0 Hp Hph Hn Hr Ht Hv'].
    + now rewrite Hn.
    + rewrite Hf. unfold open_create. destruct (names (sfs s) Side); cbn; [exact Hi|]. rewrite updn_other by discriminate. exact Hi.
    + rewrite Hf. unfold create_trunc. destruct (names (sfs s) (Temp p)); cbn; [exact Hi|]. rewrite updn_other by discriminate. exact Hi.
    + rewrite Hf. now rewrite names_temp_write.
    + rewrite Hf. cbn. rewrite updn_other by discriminate. exact Hi.
    + rewrite Hv' in Hv. exfalso. eapply cons_self_neq; eauto.
Qed.

Lemma eff_vers : forall p s s', eff p s s' ->
  vers s' = vers s \/ exists r i, procs s p = Some r /\ ph r = PSave WLk /\ names (sfs s) (Temp p) = Some i /\
                                  rename (sfs s) (Temp p) Target = Some (sfs s') /\ tgts s' = i :: tgts s /\
                                  vers s' = (p, wcontent (pw r)) :: vers s.
Proof. intros p s s' He. destruct He; auto. right. eauto 10. Qed.

Lemma eff_tgts_incl : forall p s s', eff p s s' -> incl (tgts s) (tgts s').
Proof. intros p s s' He. destruct He as [? ? ? Ht ?|? Ht ?|? Ht ?|? ? Ht ?|? Ht ?|? ? ? ? ? ? Ht ?]; rewrite Ht; try apply incl_refl. apply incl_tl, incl_refl. Qed.

Theorem step_inv : forall prior s p s', Inv prior s -> step s p = Some s' -> Inv prior s'.
Proof.
  intros prior s p s' I H.
  pose proof (step_eff _ _ _ H) as He.
  destruct (step_proc _ _ _ H) as (r & r' & Hp & Hps & Hpolls & P).
  pose proof (written_mono _ _ _ _ P) as Hw.
  pose proof (eff_tgts_incl _ _ _ He) as Ht.
  pose proof (iF _ _ I) as F.
  assert (Hp' : procs s' p = Some r') by (rewrite Hps; apply updp_same).
  assert (Hoth : forall q, q <> p -> procs s' q = procs s q) by (intros; rewrite Hps; now apply updp_other).
  (* the data of target inodes and of the other processes' temp inodes is untouched *)
  assert (Dt : forall i, In i (tgts s) -> data (sfs s') i = data (sfs s) i).
  { intros i Hi. eapply eff_data; eauto; [eapply fE2; eauto|].
    intros Hc. eapply (fC _ _ F); eauto. discriminate. }
  (* the rename installs a complete document *)
  assert (Rn : forall r0 i, procs s p = Some r0 -> ph r0 = PSave WLk -> names (sfs s) (Temp p) = Some i ->
                            data (sfs s) i = wcontent (pw r0) /\ In (wcontent (pw r0)) (written s)).
  { intros r0 i Hp0 Hph0 Hn0. destruct (iB _ _ I p r0 WLk Hp0 Hph0 eq_refl) as (j & Hj & Hd). rewrite Hn0 in Hj. inversion Hj; subst.
    split; [exact Hd|]. eapply iB2; eauto. rewrite Hph0. reflexivity. }
  split.
  - eapply eff_FInv; eauto.
  - (* iA *)
    intros i Hi. destruct (eff_vers _ _ _ He) as [Hv|(r0 & i0 & Hp0 & Hph0 & Hn0 & Hr & Ht' & Hv)].
    + assert (Hi' : In i (tgts s)).
      { destruct He as [? ? ? E ?|? E ?|? E ?|? ? E ?|? E ?|? ? ? ? ? ? E E2]; try (rewrite E in Hi; exact Hi).
        rewrite E2 in Hv. exfalso. eapply cons_self_neq; eauto. }
      rewrite Dt by exact Hi'. apply Hw. eapply iA; eauto.
    + rewrite Ht' in Hi. destruct Hi as [<-|Hi].
      * destruct (Rn _ _ Hp0 Hph0 Hn0) as [Hd Hin].
        assert (data (sfs s') i0 = data (sfs s) i0) as ->.
        { unfold rename in Hr. rewrite Hn0 in Hr. inversion Hr. reflexivity. }
        rewrite Hd. apply Hw, Hin.
      * rewrite Dt by exact Hi. apply Hw. eapply iA; eauto.
  - (* iA3 *)
    intros q r1 i Hq Hrh. apply Ht. destruct (N.eq_dec q p) as [->|Hne].
    + rewrite Hp' in Hq. inversion Hq; subst r1.
      destruct (p_rh _ _ _ _ P) as [E|[E|[_ E]]].
      * rewrite E in Hrh. eapply iA3; eauto.
      * rewrite E in Hrh. discriminate.
      * rewrite E in Hrh. eapply fA2; eauto.
    + rewrite Hoth in Hq by exact Hne. eapply iA3; eauto.
  - (* iB *)
    intros q r1 w Hq Hph Hl. destruct (N.eq_dec q p) as [->|Hne].
    + eapply step_tmp; eauto. intros w0 Hw0 Hl0. eapply iB; eauto.
    + rewrite Hoth in Hq by exact Hne. destruct (iB _ _ I q r1 w Hq Hph Hl) as (i & Hn & Hok).
      exists i. rewrite (eff_names_other _ _ _ _ He Hne). split; [exact Hn|].
      assert (data (sfs s') i = data (sfs s) i) as ->; [|exact Hok].
      eapply eff_data; eauto; [eapply fE; eauto|].
      intros Hc. assert (Temp p = Temp q) by (eapply fD; eauto). congruence.
  - (* iB2 *)
    intros q r1 Hq Hs. destruct (N.eq_dec q p) as [->|Hne].
    + rewrite Hp' in Hq. inversion Hq; subst r1.
      destruct (p_written _ _ _ _ P) as [E|(u & Hc & Hsv & E & Ec & Eph)].
      * destruct (p_insave _ _ _ _ P Hs) as [Hc|[Hs0 Ec]].
        -- (* a Compute step always extends written *)
           exfalso. unfold step, step_core in H. rewrite Hp, Hc in H.
           destruct (csave (pcmd r)); inversion H; subst s'; cbn in E, Hp'.
           ++ eapply cons_self_neq; eauto.
           ++ rewrite updp_same in Hp'. inversion Hp'; subst r'. rewrite finish_in_save in Hs. discriminate.
        -- rewrite Ec. apply Hw. eapply iB2; eauto.
      * rewrite Ec, E. left. reflexivity.
    + rewrite Hoth in Hq by exact Hne. apply Hw. eapply iB2; eauto.
  - (* iR *)
    intros q r1 b Hq Hb. destruct (N.eq_dec q p) as [->|Hne].
    + rewrite Hp' in Hq. inversion Hq; subst r1. apply Hw.
      destruct (p_reads _ _ _ _ P) as [E|(i & Hrh & E)]; rewrite E in Hb.
      * eapply iR; eauto.
      * destruct Hb as [<-|Hb]; [|eapply iR; eauto]. eapply iA; eauto. eapply iA3; eauto.
    + rewrite Hoth in Hq by exact Hne. apply Hw. eapply iR; eauto.
  - (* iW *)
    intros b Hb.
    assert (K : In b (written s) -> Some b = prior \/ exists q r0 u v, procs s' q = Some r0 /\ csave (pcmd r0) = Some u /\ b = ser (apply_upd u v)).
    { intros Hb0. destruct (iW _ _ I b Hb0) as [E|(q & r0 & u & v & Hq & Hs & E)]; [left; exact E|right].
      destruct (N.eq_dec q p) as [->|Hne].
      - exists p, r', u, v. rewrite Hp in Hq. inversion Hq; subst r0. rewrite (p_pcmd _ _ _ _ P). auto.
      - exists q, r0, u, v. rewrite Hoth by exact Hne. auto. }
    destruct (p_written _ _ _ _ P) as [E|(u & Hc & Hsv & E & Ec & Eph)].
    + rewrite E in Hb. auto.
    + rewrite E in Hb. destruct Hb as [<-|Hb]; [|auto]. right. exists p, r', u, (loaded r). rewrite (p_pcmd _ _ _ _ P). auto.
  - (* iT *)
    destruct (eff_vers _ _ _ He) as [Hv|(r0 & i0 & Hp0 & Hph0 & Hn0 & Hr & Ht' & Hv)].
    + rewrite Hv. rewrite (eff_final_target _ _ _ He F Hv). eapply iT; eauto.
    + rewrite Hv. unfold final_target, read_name. rewrite (rename_target _ _ _ _ _ Hn0 Hr).
      destruct (Rn _ _ Hp0 Hph0 Hn0) as [Hd Hin].
      unfold rename in Hr. rewrite Hn0 in Hr. inversion Hr. cbn. now rewrite Hd.
  - (* iV *)
    intros q b Hin.
    assert (K : In (q, b) (vers s) -> In b (written s') /\ exists r1, procs s' q = Some r1 /\ wcontent (pw r1) = b /\ past_save (ph r1) = true).
    { intros Hin0. destruct (iV _ _ I q b Hin0) as (Hb & r1 & Hq & Hc & Hps1). split; [apply Hw, Hb|].
      destruct (N.eq_dec q p) as [->|Hne].
      - rewrite Hp in Hq. inversion Hq; subst r1. destruct (p_past _ _ _ _ P Hps1) as [A B]. exists r'. rewrite B. auto.
      - exists r1. rewrite Hoth by exact Hne. auto. }
    destruct (eff_vers _ _ _ He) as [Hv|(r0 & i0 & Hp0 & Hph0 & Hn0 & Hr & Ht' & Hv)].
    + rewrite Hv in Hin. auto.
    + rewrite Hv in Hin. destruct Hin as [E|Hin]; [|auto]. inversion E; subst q b.
      destruct (Rn _ _ Hp0 Hph0 Hn0) as [Hd Hin]. split; [apply Hw, Hin|].
      rewrite Hp in Hp0. inversion Hp0; subst r0.
      assert (Hps0 : past_save (ph r) = true) by (rewrite Hph0; reflexivity).
      destruct (p_past _ _ _ _ P Hps0) as [A B]. exists r'. auto.
Qed.

(* ------------------------------------------------------------------ initial states, schedules *)

Lemma procs_of_spec : forall l n q r, procs_of l n q = Some r -> exists c, r = proc0 c n.
Proof.
  induction l as [|[p c] l IH]; intros n q r H; cbn in H; [discriminate|].
  apply updp_cases in H. destruct H as [[_ ->]|[_ H]]; eauto.
Qed.

Lemma proc0_ph : forall c n, in_save (ph (proc0 c n)) = false /\ past_save (ph (proc0 c n)) = false /\ (forall w, ph (proc0 c n) <> PSave w).
Proof. intros c n. unfold proc0, body_phase. cbn. destruct (cupd c); [|destruct (cload c)]; repeat split; try reflexivity; discriminate. Qed.

Lemma init_inv : forall prior n l, Inv prior (init_sys prior n l).
Proof.
  intros prior n l. split; cbn.
  - destruct prior as [b|]; cbn; split; cbn; unfold fname_eqb.
    + intros i. destruct (fname_eqb_spec Target Target); [|congruence]. cbn. intros E; inversion E; auto.
    + intros m i. destruct m; cbn; try discriminate. intros _ Hc. congruence.
    + intros m m' i. destruct m, m'; cbn; congruence.
    + intros m i. destruct m; cbn; try discriminate. intros E; inversion E. lia.
    + intros i [<-|[]]. lia.
    + discriminate.
    + discriminate.
    + discriminate.
    + discriminate.
    + intros i [].
  - destruct prior as [b|]; cbn; [|intros i []]. intros i [<-|[]]. cbn. auto.
  - intros q r i Hq. apply procs_of_spec in Hq. destruct Hq as [c ->]. cbn. discriminate.
  - intros q r w Hq. apply procs_of_spec in Hq. destruct Hq as [c ->]. intros Hph. exfalso. eapply proc0_ph; eauto.
  - intros q r Hq. apply procs_of_spec in Hq. destruct Hq as [c ->]. destruct (proc0_ph c n) as (A & _). rewrite A. discriminate.
  - intros q r b Hq. apply procs_of_spec in Hq. destruct Hq as [c ->]. cbn. intros [].
  - intros b. destruct prior as [b0|]; cbn; [|intros []]. intros [<-|[]]. auto.
  - unfold final_target, read_name. destruct prior; reflexivity.
  - intros q b [].
Qed.

Lemma exec_inv : forall prior sched s, Inv prior s -> Inv prior (exec s sched).
Proof.
  intros prior sched. induction sched as [|p sched IH]; intros s I; cbn; [exact I|].
  apply IH. destruct (step s p) as [s'|] eqn:H; [eapply step_inv; eauto | exact I].
Qed.

(* ------------------------------------------------------------------ consequences *)

(* C14_no_torn_read *)
Lemma no_torn_read : forall prior n l sched p r b,
  procs (exec (init_sys prior n l) sched) p = Some r -> In b (reads r) ->
  Some b = prior \/
  exists q rq u v, procs (exec (init_sys prior n l) sched) q = Some rq /\ csave (pcmd rq) = Some u /\ b = ser (apply_upd u v).
Proof.
  intros prior n l sched p r b Hp Hb.
  pose proof (exec_inv prior sched _ (init_inv prior n l)) as I.
  eapply iW; eauto. eapply iR; eauto.
Qed.

(* C14_final_is_some_writers *)
Lemma final_is_some_writers : forall prior n l sched,
  let s := exec (init_sys prior n l) sched in
  (vers s = [] /\ final_target s = prior) \/
  exists q rq, procs s q = Some rq /\ final_target s = Some (wcontent (pw rq)) /\ past_save (ph rq) = true /\
               In (wcontent (pw rq)) (written s) /\ head (vers s) = Some (q, wcontent (pw rq)).
Proof.
  intros prior n l sched s.
  pose proof (exec_inv prior sched _ (init_inv prior n l)) as I. fold s in I.
  pose proof (iT _ _ I) as T. destruct (vers s) as [|[q b] tl] eqn:Hv; [left; auto|right].
  destruct (iV _ _ I q b) as (Hb & rq & Hq & Hc & Hps); [rewrite Hv; left; reflexivity|].
  exists q, rq. rewrite Hc. auto.
Qed.

(* what was renamed into place is never empty and parses *)
Lemma written_complete : forall prior s b, Inv prior s -> In b (written s) -> Some b = prior \/ exists v, parse b = Some v.
Proof.
  intros prior s b I Hb. destruct (iW _ _ I b Hb) as [E|(q & r & u & v & _ & _ & ->)]; [auto|right].
  eexists. apply parse_ser.
Qed.
