(* Properties_C14.v -- C14: concurrent invocations neither corrupt nor lose persisted state.
   Property theorems only; each is closed by [exact <lemma>] and followed by Print Assumptions.
   Model: State/Concurrency.v -- any number of processes (a finite map pid -> process), each
   running one command on ONE state file: [step s p] is one atomic step of process p (a lock
   attempt that finds the lock held consumes one poll of its budget; with no budget left it is
   the time-out outcome), [exec s sched] runs an arbitrary schedule [sched : list pid].
   Every theorem is for ALL initial contents (absent / any bytes), ALL command lists, ALL poll
   budgets and ALL schedules; the proofs are by invariants preserved by every step
   (Proofs_C14b.Inv, Proofs_C14d.Inv2), not by enumeration.
   D14 (empty placeholder target), D15 (lost snapshot: no lock across load-modify-save) and D27
   (a skipped save reported as recorded) are repaired; the model is the repaired code and no
   known class is left. [C14_unlocked_update_lost] keeps the D15 witness for writers that do
   not take the update lock (what the snapshot command did before the repair; what two cache
   writers still, and legitimately, do). *)
From Coq Require Import NArith List String.
From SG Require Import State.Fs State.AtomicWrite State.Concurrency
  State.Proofs_C14 State.Proofs_C14b State.Proofs_C14c State.Proofs_C14d State.Proofs_C14e State.Proofs_C14f State.LockWait State.Proofs_C14g.
Import ListNotations.
Open Scope N_scope.

(* no process reads a torn or empty state file: whatever a Read returns is the initial document
   or the complete serialised document some process computed from what it had loaded *)
Theorem C14_no_torn_read : forall (prior : option bytes) (n : nat) (l : list (pid * cmd)) (sched : list pid)
    (p : pid) (r : proc) (b : bytes),
  procs (exec (init_sys prior n l) sched) p = Some r -> In b (reads r) ->
  Some b = prior \/
  exists q rq u v, procs (exec (init_sys prior n l) sched) q = Some rq /\ csave (pcmd rq) = Some u /\ b = ser (apply_upd u v).
Proof. exact no_torn_read. Qed.
Print Assumptions C14_no_torn_read.

(* the file equals what one of the writers wrote: it is untouched, or it is the complete document
   of the process whose rename came last *)
Theorem C14_final_is_some_writers : forall (prior : option bytes) (n : nat) (l : list (pid * cmd)) (sched : list pid),
  let s := exec (init_sys prior n l) sched in
  (vers s = [] /\ final_target s = prior) \/
  exists q rq, procs s q = Some rq /\ final_target s = Some (wcontent (pw rq)) /\ past_save (ph rq) = true /\
               In (wcontent (pw rq)) (written s) /\ head (vers s) = Some (q, wcontent (pw rq)).
Proof. exact final_is_some_writers. Qed.
Print Assumptions C14_final_is_some_writers.

(* ... and every document that was ever renamed into place or read is complete *)
Theorem C14_written_is_complete : forall (prior : option bytes) (s : sys) (b : bytes),
  Inv prior s -> In b (written s) -> Some b = prior \/ exists v, parse b = Some v.
Proof. exact written_complete. Qed.
Print Assumptions C14_written_is_complete.

(* nobody ever blocks: a process that has not finished can always take a step *)
Theorem C14_never_blocked : forall (s : sys) (p : pid) (r : proc),
  procs s p = Some r -> finished r = false -> exists s', step s p = Some s'.
Proof. exact step_progress. Qed.
Print Assumptions C14_never_blocked.

(* none waits longer than the lock time-out: each own step strictly decreases the measure
   rank(phase) * (polls + 1) + polls-left, so a lock is attempted at most polls + 1 times *)
Theorem C14_wait_bounded : forall (s : sys) (p : pid) (s' : sys) (r r' : proc),
  step s p = Some s' -> procs s p = Some r -> procs s' p = Some r' ->
  polls s' = polls s /\ (measure (polls s) r' < measure (polls s) r)%nat.
Proof. exact step_measure. Qed.
Print Assumptions C14_wait_bounded.

(* ... whatever the others do: under any schedule, after p has been scheduled k times its measure
   has dropped by k or it has finished *)
Theorem C14_finishes_under_any_schedule : forall (sched : list pid) (s : sys) (p : pid) (r : proc),
  procs s p = Some r ->
  exists r', procs (exec s sched) p = Some r' /\ polls (exec s sched) = polls s /\
             (finished r' = true \/ (measure (polls s) r' + count_pid p sched <= measure (polls s) r)%nat).
Proof. exact exec_bound. Qed.
Print Assumptions C14_finishes_under_any_schedule.

(* ... in wall-clock terms: the polling loop of try_lock_*_with_timeout (State/LockWait.v: elapsed,
   interval; constant interval as in the code) gives up no earlier than the time-out and strictly
   before time-out + one poll interval, for every time-out and every interval of at least 1 ms.
   The bound is PER LOCK ACQUISITION: a command performs up to three acquisitions in a row (update
   lock, shared read lock, exclusive write lock; phases PUpd, PLoad LO, PSave WOp), so one process
   can wait up to three time-outs in total -- that total is what C14_wait_bounded bounds. *)
Theorem C14_lock_wait_within_timeout : forall (timeout interval : N), 1 <= interval ->
  timeout <= total_wait timeout interval (fun x => x) /\
  total_wait timeout interval (fun x => x) < timeout + interval.
Proof. exact total_wait_bounds. Qed.
Print Assumptions C14_lock_wait_within_timeout.

(* a doubling interval (exponential back-off without a clamp) breaks that bound: with the code's
   50 ms first interval a 1000 ms time-out is noticed only after 1550 ms *)
Example C14_doubling_backoff_overshoots :
  total_wait 1000 lock_poll_interval_ms (N.mul 2) = 1550 /\ 1000 + lock_poll_interval_ms <= 1550 /\
  total_wait 1000 lock_poll_interval_ms (fun x => x) = 1000 /\ total_wait 200 lock_poll_interval_ms (fun x => x) = 200.
Proof. vm_compute. repeat split; congruence. Qed.
Print Assumptions C14_doubling_backoff_overshoots.

(* every snapshot that was reported as recorded is present in the history, at every later
   instant and under every schedule -- for command mixes in which every writer of the file holds
   the update lock, loads first and only adds entries (snapshots; readers are unrestricted) *)
Theorem C14_snapshot_not_lost : forall (prior : option bytes) (n : nat) (l : list (pid * cmd)) (sched : list pid)
    (p : pid) (r : proc) (e : N),
  Forall (fun pc => good_cmd (snd pc)) l ->
  let s := exec (init_sys prior n l) sched in
  procs s p = Some r -> acked r = true -> csave (pcmd r) = Some (UAppend e) ->
  exists v, final_value s = Some v /\ In e v.
Proof. exact snapshot_not_lost. Qed.
Print Assumptions C14_snapshot_not_lost.

(* the update lock gives mutual exclusion of the load-modify-save sections. The lock is taken on
   the INODE the name <file>.lock denoted when the process opened it ([PUpd (Some i)], then
   [uh r = Some i]); exclusion follows because that name is never unbound or rebound, so all
   processes lock the same inode (next theorem). A variant of the code that unlinks the lock
   file breaks exactly this invariant. *)
Theorem C14_update_lock_exclusive : forall (prior : option bytes) (n : nat) (l : list (pid * cmd)) (sched : list pid)
    (q q' : pid) (r r' : proc),
  Forall (fun pc => good_cmd (snd pc)) l ->
  let s := exec (init_sys prior n l) sched in
  procs s q = Some r -> procs s q' = Some r' -> uh r <> None -> uh r' <> None -> q = q'.
Proof. exact update_lock_exclusive_sched. Qed.
Print Assumptions C14_update_lock_exclusive.

Theorem C14_update_lock_name_stable : forall (prior : option bytes) (n : nat) (l : list (pid * cmd)) (sched : list pid)
    (q : pid) (r : proc) (i : inode),
  Forall (fun pc => good_cmd (snd pc)) l ->
  let s := exec (init_sys prior n l) sched in
  procs s q = Some r -> (ph r = PUpd (Some i) \/ uh r = Some i) -> names (sfs s) Side = Some i.
Proof. exact update_lock_name_stable. Qed.
Print Assumptions C14_update_lock_name_stable.

(* lost updates characterised, for ANY writers (with or without the update lock): every document
   ever renamed into place is its writer's update applied to the document that writer had read --
   the initial one or a version installed earlier -- or to the empty default. So an entry that
   another process installed is missing from a later version exactly when that version's writer
   read before the entry's rename (an appender installs  read document ++ [its entry]). *)
Theorem C14_lost_update_characterised : forall (prior : option bytes) (n : nat) (l : list (pid * cmd)) (sched : list pid)
    (q : pid) (c : bytes),
  let s := exec (init_sys prior n l) sched in
  In (q, c) (vers s) ->
  exists r u, procs s q = Some r /\ csave (pcmd r) = Some u /\ c = ser (apply_upd u (loaded r)) /\
              (loaded r = [] \/
               exists b, In b (reads r) /\ loaded r = docval (Some b) /\ (Some b = prior \/ exists q', In (q', b) (vers s))).
Proof. exact installed_is_update_of_read. Qed.
Print Assumptions C14_lost_update_characterised.

(* the hypotheses are satisfiable: snapshots and history readers form a good command mix *)
Example C14_good_mix :
  Forall (fun pc => good_cmd (snd pc)) [(1, cmd_snapshot 10); (2, cmd_snapshot 20); (3, cmd_stats_history)].
Proof. repeat constructor. Qed.
Print Assumptions C14_good_mix.

(* D15 witness (load, load, save, save), kept for writers WITHOUT the update lock: both report
   success and the first entry is gone. With the update lock the same schedule keeps both. *)
Definition two (c1 c2 : cmd) : sys := init_sys (Some (ser [])) 1 [(1, c1); (2, c2)].
Definition d15_schedule : list pid := repeat 1 8 ++ repeat 2 8 ++ repeat 1 30 ++ repeat 2 30.

Example C14_unlocked_update_lost :
  let s := exec (two (cmd_snapshot_unlocked 10) (cmd_snapshot_unlocked 20)) d15_schedule in
  final_value s = Some [20] /\
  option_map acked (procs s 1) = Some true /\ option_map acked (procs s 2) = Some true.
Proof. vm_compute. repeat split; reflexivity. Qed.
Print Assumptions C14_unlocked_update_lost.

Example C14_locked_update_kept :
  let s := exec (init_sys (Some (ser [])) 100 [(1, cmd_snapshot 10); (2, cmd_snapshot 20)])
                (d15_schedule ++ repeat 1 40 ++ repeat 2 40) in
  final_value s = Some [10; 20] /\
  option_map acked (procs s 1) = Some true /\ option_map acked (procs s 2) = Some true.
Proof. vm_compute. repeat split; reflexivity. Qed.
Print Assumptions C14_locked_update_kept.

(* a time-out of the update lock skips the snapshot and reports nothing (D27 repaired) *)
Example C14_timeout_is_not_acknowledged :
  let s := exec (init_sys (Some (ser [])) 0 [(1, cmd_snapshot 10); (2, cmd_snapshot 20)])
                (repeat 1 6 ++ repeat 2 40 ++ repeat 1 40) in
  final_value s = Some [10] /\
  option_map acked (procs s 1) = Some true /\ option_map acked (procs s 2) = Some false /\
  option_map finished (procs s 2) = Some true.
Proof. vm_compute. repeat split; reflexivity. Qed.
Print Assumptions C14_timeout_is_not_acknowledged.
