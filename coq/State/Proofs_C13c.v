(* State/Proofs_C13c.v: why the temp file of a save must be created exclusively (D95).
   (1) what create_new gives: the name was unbound, the inode is fresh (no handle of any other
       process can denote it), every other name is untouched;
   (2) the counterexample for a temp name that two saves share (the pid-only name, with two
       processes of the same pid in different PID namespaces): A stands after its fsync, B creates
       (truncates) the same temp file and is killed, A renames an EMPTY file over the target. *)
From Coq Require Import Arith PeanoNat NArith List Bool Lia String.
From SG Require Import State.Fs State.AtomicWrite.
Import ListNotations.
Open Scope N_scope.

Lemma create_excl_fresh : forall f n f' i,
  create_excl f n = Some (f', i) ->
  names f n = None /\ i = next f /\ names f' n = Some i /\ data f' i = [] /\
  (forall m, fname_eqb m n = false -> names f' m = names f m) /\
  (forall j, j < next f -> data f' j = data f j).
Proof.
  intros f n f' i H. unfold create_excl in H. destruct (names f n) eqn:E; [discriminate|].
  unfold create_trunc in H. rewrite E in H. inversion H; subst; clear H. cbn.
  assert (Hn : fname_eqb n n = true) by (destruct n; cbn; try reflexivity; apply N.eqb_refl).
  repeat split.
  - unfold updn. now rewrite Hn.
  - unfold updi. now rewrite N.eqb_refl.
  - intros m Hm. unfold updn. now rewrite Hm.
  - intros j Hj. unfold updi. destruct (N.eqb_spec j (next f)); [lia|reflexivity].
Qed.

Lemma create_excl_refuses_bound : forall f n i, names f n = Some i -> create_excl f n = None.
Proof. intros f n i H. unfold create_excl. now rewrite H. Qed.

(* two saves under ONE temp name: A (content [1;2]) runs up to Fsync, B creates the temp file
   again (File::create truncates) and dies, A goes on with its protocol *)
Definition shared_temp_name_run (prior : option bytes) (a b : bytes) : fs :=
  let '(f1, w1) := run writer (fs_init prior) (wst0 a 3) (firstn 5 protocol) in
  let f2 := crash_from f1 b 3 2 in
  fst (run writer f2 w1 (skipn 5 protocol)).

Lemma shared_temp_name_empties_target :
  target (shared_temp_name_run (Some (ser [1])) (ser [1; 2]) (ser [1; 2])) = Some [] /\
  target (shared_temp_name_run None (ser [1; 2]) (ser [1; 2])) = Some [].
Proof. vm_compute. split; reflexivity. Qed.
