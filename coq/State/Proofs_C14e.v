(* State/Proofs_C14e.v: preservation of the second invariant (update lock, recorded snapshots stay). *)
From Coq Require Import Arith PeanoNat NArith List Bool Lia String.
From SG Require Import State.Fs State.AtomicWrite State.Proofs_C13 State.Concurrency State.Proofs_C14 State.Proofs_C14b State.Proofs_C14d.
Import ListNotations.
Open Scope N_scope.

Theorem step_inv2 : forall prior s p s', Inv prior s -> Inv2 s -> step s p = Some s' -> Inv2 s'.
Proof.
  intros prior s p s' I J H.
  pose proof (step_eff _ _ _ H) as He.
  destruct (step_proc _ _ _ H) as (r & r' & Hp & Hps & Hpolls & P).
  assert (Hp' : procs s' p = Some r') by (rewrite Hps; apply updp_same).
  pose proof (step_proc2 _ _ _ _ _ H Hp Hp') as Q.
  assert (Hoth : forall q, q <> p -> procs s' q = procs s q) by (intros; rewrite Hps; now apply updp_other).
  pose proof (iF _ _ I) as F.
  pose proof (step_inv _ _ _ _ I H) as I'.
  pose proof (iF _ _ I') as F'.
  pose proof (p_pcmd _ _ _ _ P) as Hcmd.
  pose proof (eff_tgts_incl _ _ _ He) as Ht.
  (* clauses that do not depend on the kind of step *)
  assert (G' : forall q r0, procs s' q = Some r0 -> good_cmd (pcmd r0)).
  { intros q r0 Hq. destruct (N.eq_dec q p) as [->|Hne].
    - rewrite Hp' in Hq. inversion Hq; subst r0. rewrite Hcmd. eapply jG; eauto.
    - rewrite Hoth in Hq by exact Hne. eapply jG; eauto. }
  assert (RH' : forall q r0, procs s' q = Some r0 -> rh_ok r0).
  { intros q r0 Hq. destruct (N.eq_dec q p) as [->|Hne].
    - rewrite Hp' in Hq. inversion Hq; subst r0. apply (q_rhok _ _ _ _ _ Q). eapply jRH; eauto.
    - rewrite Hoth in Hq by exact Hne. eapply jRH; eauto. }
  assert (U3' : forall q r0, procs s' q = Some r0 -> cupd (pcmd r0) = true -> in_body (ph r0) = true -> uh r0 <> None).
  { intros q r0 Hq Hc Hb. destruct (N.eq_dec q p) as [->|Hne].
    - rewrite Hp' in Hq. inversion Hq; subst r0. destruct (q_body _ _ _ _ _ Q Hb) as [[Hb0 E]|[_ E]]; [|exact E].
      rewrite E. rewrite Hcmd in Hc. eapply jU3; eauto.
    - rewrite Hoth in Hq by exact Hne. eapply jU3; eauto. }
  assert (SV' : forall q r0, procs s' q = Some r0 -> in_save (ph r0) = true -> csave (pcmd r0) <> None).
  { intros q r0 Hq Hs. destruct (N.eq_dec q p) as [->|Hne].
    - rewrite Hp' in Hq. inversion Hq; subst r0. rewrite Hcmd. destruct (q_sv _ _ _ _ _ Q Hs) as [Hs0|Hs0]; [eapply jSV; eauto|exact Hs0].
    - rewrite Hoth in Hq by exact Hne. eapply jSV; eauto. }
  assert (WH' : forall q r0 j, procs s' q = Some r0 -> wh (pw r0) = Some j -> In j (tgts s')).
  { intros q r0 j Hq Hw. apply Ht. destruct (N.eq_dec q p) as [->|Hne].
    - rewrite Hp' in Hq. inversion Hq; subst r0. destruct (q_wh _ _ _ _ _ Q j Hw) as [E|E]; [eapply jWH; eauto|eapply fA2; eauto].
    - rewrite Hoth in Hq by exact Hne. eapply jWH; eauto. }
  assert (K0' : forall q r0, procs s' q = Some r0 -> saved r0 = Some true -> post_save (ph r0) = true).
  { intros q r0 Hq Hs. destruct (N.eq_dec q p) as [->|Hne].
    - rewrite Hp' in Hq. inversion Hq; subst r0. destruct (q_saved2 _ _ _ _ _ Q Hs) as [E|[_ E]]; [|exact E].
      apply (q_post _ _ _ _ _ Q). eapply jK0; eauto.
    - rewrite Hoth in Hq by exact Hne. eapply jK0; eauto. }
  assert (K3' : forall q r0, procs s' q = Some r0 -> ph r0 = PAck -> saved r0 = Some true).
  { intros q r0 Hq Hph. destruct (N.eq_dec q p) as [->|Hne].
    - rewrite Hp' in Hq. inversion Hq; subst r0. apply (q_ackph _ _ _ _ _ Q Hph).
    - rewrite Hoth in Hq by exact Hne. eapply jK3; eauto. }
  assert (K2' : forall q r0, procs s' q = Some r0 -> acked r0 = true -> saved r0 = Some true).
  { intros q r0 Hq Ha. destruct (N.eq_dec q p) as [->|Hne].
    - rewrite Hp' in Hq. inversion Hq; subst r0.
      assert (Sv : saved r = Some true) by (destruct (q_acked _ _ _ _ _ Q Ha) as [E|E]; [eapply jK2; eauto|eapply jK3; eauto]).
      pose proof (jK0 _ J p r Hp Sv) as Ps. destruct (q_post _ _ _ _ _ Q Ps) as (_ & E & _). congruence.
    - rewrite Hoth in Hq by exact Hne. eapply jK2; eauto. }
  (* the update-lock name keeps denoting the inode every process opened *)
  assert (U0' : forall q r0 i, procs s' q = Some r0 -> ph r0 = PUpd (Some i) -> names (sfs s') Side = Some i).
  { intros q r0 i Hq Hph. destruct (N.eq_dec q p) as [->|Hne].
    - rewrite Hp' in Hq. inversion Hq; subst r0. destruct (q_upd _ _ _ _ _ Q i Hph) as [E|(_ & -> & ->)].
      + eapply eff_side; eauto. eapply jU0; eauto.
      + apply open_create_names.
    - rewrite Hoth in Hq by exact Hne. eapply eff_side; eauto. eapply jU0; eauto. }
  (* the side-car file stays, the update lock stays with its holder *)
  assert (U1' : forall q r0 i, procs s' q = Some r0 -> uh r0 = Some i -> names (sfs s') Side = Some i /\ lock (sfs s') i = Excl q).
  { intros q r0 i Hq Hu. destruct (N.eq_dec q p) as [->|Hne].
    - rewrite Hp' in Hq. inversion Hq; subst r0.
      destruct (q_uh _ _ _ _ _ Q) as [[E Hnr]|[(j & Hphj & Hl & E)|(ok & _ & E & _)]].
      + rewrite E in Hu. destruct (jU1 _ J p r i Hp Hu) as [A B]. split; [eapply eff_side; eauto|].
        apply (step_lock_keep _ _ _ _ _ _ H Hp B); [eapply fE; eauto|]. right. split; [exact Hnr|].
        intros Hw. eapply (fC _ _ F Side i A); [discriminate|]. eapply jWH; eauto.
      + rewrite E in Hu. inversion Hu; subst j. split; [eapply eff_side; eauto; eapply jU0; eauto|]. eapply try_lock_ex_spec; eauto.
      + congruence.
    - rewrite Hoth in Hq by exact Hne. destruct (jU1 _ J q r0 i Hq Hu) as [A B]. split; [eapply eff_side; eauto|].
      apply (step_lock_keep _ _ _ _ _ _ H Hp B); [eapply fE; eauto|]. left. exact Hne. }
  (* a saver inside the body of its command holds the update lock *)
  assert (Lk : forall q r0, procs s q = Some r0 -> csave (pcmd r0) <> None -> in_body (ph r0) = true -> uh r0 <> None)
    by (intros; eapply saver_locked; eauto).
  destruct (eff_vers _ _ _ He) as [Hv|(r0 & i0 & Hp0 & Hph0 & Hn0 & Hr & Ht' & Hv)].
  - (* ---- not a rename: the target and its value are unchanged ---- *)
    pose proof (eff_final_target _ _ _ He F Hv) as Hft.
    assert (Hcv : curval s' = curval s) by (unfold curval; now rewrite Hft).
    pose proof (eff_target_same _ _ _ He Hv) as Hnt.
    split; auto.
    + (* jH0 *) intros q r1 i Hq Hs Hrh. rewrite Hnt. destruct (N.eq_dec q p) as [->|Hne].
      * rewrite Hp' in Hq. inversion Hq; subst r1. rewrite Hcmd in Hs.
        destruct (q_rh _ _ _ _ _ Q i Hrh) as [E|E]; [eapply jH0; eauto|exact E].
      * rewrite Hoth in Hq by exact Hne. eapply jH0; eauto.
    + (* jH1 *) intros q r1 Hq Hs Hl. rewrite Hcv. destruct (N.eq_dec q p) as [->|Hne].
      * rewrite Hp' in Hq. inversion Hq; subst r1. rewrite Hcmd in Hs.
        destruct (q_loaded _ _ _ _ _ Q Hl) as [(Hph & i & Hrh & E)|[(Hl0 & E)|[(Hn & E)|E]]].
        -- rewrite E. unfold curval, final_target, read_name. rewrite (jH0 _ J p r i Hp Hs Hrh). reflexivity.
        -- rewrite E. eapply jH1; eauto.
        -- rewrite E. unfold curval, final_target, read_name. rewrite Hn. reflexivity.
        -- exfalso. pose proof (jG _ J p r Hp) as G. unfold good_cmd in G. destruct (csave (pcmd r)); [|congruence]. destruct G as (_ & G & _). congruence.
      * rewrite Hoth in Hq by exact Hne. eapply jH1; eauto.
    + (* jH1b *) intros q r1 u Hq Hs Hb. rewrite Hcv. destruct (N.eq_dec q p) as [->|Hne].
      * rewrite Hp' in Hq. inversion Hq; subst r1. rewrite Hcmd in Hs.
        destruct (q_content _ _ _ _ _ Q Hb) as [(Hph & u0 & Hs0 & E)|(Hb0 & E)].
        -- rewrite E. rewrite Hs in Hs0. inversion Hs0; subst u0. f_equal. f_equal. eapply jH1; eauto; [congruence|rewrite Hph; reflexivity].
        -- rewrite E. eapply jH1b; eauto.
      * rewrite Hoth in Hq by exact Hne. eapply jH1b; eauto.
    + (* jH2 *) intros q b Hin. rewrite Hcv. rewrite Hv in Hin. eapply jH2; eauto.
    + (* jVS *) intros q b Hin. rewrite Hv in Hin. eapply jVS; eauto.
    + (* jK *) intros q r1 Hq Hor. rewrite Hv. destruct (N.eq_dec q p) as [->|Hne].
      * rewrite Hp' in Hq. inversion Hq; subst r1. rewrite Hcmd.
        assert (Hor0 : ph r = PSave WRn \/ saved r = Some true).
        { destruct Hor as [E|E].
          - destruct (q_wrn _ _ _ _ _ Q E) as [E0|E0]; [|left; exact E0]. exfalso.
            destruct (wlk_step _ _ _ _ _ H Hp E0 Hp') as [[_ Hv']|[_ Hn]]; [|eapply Hn; eauto].
            rewrite Hv in Hv'. symmetry in Hv'. eapply cons_self_neq; eauto.
          - destruct (q_saved2 _ _ _ _ _ Q E) as [E0|[E0 _]]; auto. }
        assert (Hpast : past_save (ph r) = true).
        { destruct Hor0 as [E|E]; [rewrite E; reflexivity|]. pose proof (jK0 _ J p r Hp E) as X. destruct (ph r); try discriminate X; reflexivity. }
        destruct (p_past _ _ _ _ P Hpast) as [_ E]. rewrite E. eapply jK; eauto.
      * rewrite Hoth in Hq by exact Hne. eapply jK; eauto.
  - (* ---- the rename of p ---- *)
    rewrite Hp in Hp0. inversion Hp0; subst r0; clear Hp0.
    assert (Hsv : csave (pcmd r) <> None) by (eapply jSV; eauto; rewrite Hph0; reflexivity).
    destruct (csave (pcmd r)) as [u|] eqn:Hu; [clear Hsv|congruence].
    assert (Hlk : uh r <> None) by (eapply Lk; eauto; [congruence|rewrite Hph0; reflexivity]).
    assert (Hcont : wcontent (pw r) = ser (apply_upd u (curval s))) by (eapply jH1b; eauto; rewrite Hph0; reflexivity).
    assert (Hpast : past_save (ph r) = true) by (rewrite Hph0; reflexivity).
    destruct (p_past _ _ _ _ P Hpast) as [_ Hwc].
    assert (Hph' : ph r' = PSave WRn).
    { destruct (wlk_step _ _ _ _ _ H Hp Hph0 Hp') as [[E _]|[E _]]; [exact E|]. rewrite Hv in E. exfalso. eapply cons_self_neq; eauto. }
    assert (Hft : final_target s' = Some (wcontent (pw r))) by (rewrite (iT _ _ I'), Hv; reflexivity).
    assert (Hcv : curval s' = apply_upd u (curval s)) by (unfold curval at 1; rewrite Hft, Hcont; apply curval_rename).
    assert (Hext : incl (curval s) (curval s')).
    { rewrite Hcv. apply extensive_incl. pose proof (jG _ J p r Hp) as G. unfold good_cmd in G. rewrite Hu in G. apply G. }
    (* no other saver is inside its body while p holds the update lock *)
    assert (Alone : forall q r1, q <> p -> procs s q = Some r1 -> csave (pcmd r1) <> None -> in_body (ph r1) = true -> False).
    { intros q r1 Hne Hq Hs Hb. apply Hne. eapply excl; eauto. }
    split; auto.
    + (* jH0 *) intros q r1 i Hq Hs Hrh. exfalso. pose proof (RH' _ _ Hq) as Ok. unfold rh_ok in Ok. rewrite Hrh in Ok.
      destruct (N.eq_dec q p) as [->|Hne].
      * rewrite Hp' in Hq. inversion Hq; subst r1. rewrite Hph' in Ok. destruct Ok as [X|[X|X]]; discriminate X.
      * rewrite Hoth in Hq by exact Hne. eapply Alone; eauto. destruct Ok as [X|[X|X]]; rewrite X; reflexivity.
    + (* jH1 *) intros q r1 Hq Hs Hl. exfalso. destruct (N.eq_dec q p) as [->|Hne].
      * rewrite Hp' in Hq. inversion Hq; subst r1. rewrite Hph' in Hl. discriminate Hl.
      * rewrite Hoth in Hq by exact Hne. eapply Alone; eauto. destruct (ph r1) as [| [] | | | | | | |]; try discriminate Hl; reflexivity.
    + (* jH1b *) intros q r1 u1 Hq Hs Hb. exfalso. destruct (N.eq_dec q p) as [->|Hne].
      * rewrite Hp' in Hq. inversion Hq; subst r1. rewrite Hph' in Hb. discriminate Hb.
      * rewrite Hoth in Hq by exact Hne. eapply Alone; eauto; [congruence|]. destruct (ph r1) as [| | | |[]| | | |]; try discriminate Hb; reflexivity.
    + (* jH2 *) intros q b Hin. rewrite Hv in Hin. destruct Hin as [E|Hin].
      * inversion E; subst q b. unfold curval. rewrite Hft. apply incl_refl.
      * eapply incl_tran; [eapply jH2; eauto|exact Hext].
    + (* jVS *) intros q b Hin. rewrite Hv in Hin. destruct Hin as [E|Hin]; [|eapply jVS; eauto].
      inversion E; subst q b. eauto.
    + (* jK *) intros q r1 Hq Hor. rewrite Hv. destruct (N.eq_dec q p) as [->|Hne].
      * rewrite Hp' in Hq. inversion Hq; subst r1. rewrite Hwc, Hcmd. split; [left; reflexivity|]. exists u, (curval s). auto.
      * rewrite Hoth in Hq by exact Hne. destruct (jK _ J q r1 Hq Hor) as [A B]. split; [right; exact A|exact B].
Qed.

Lemma procs_of_good : forall l n q r, Forall (fun pc => good_cmd (snd pc)) l -> procs_of l n q = Some r -> exists c, r = proc0 c n /\ good_cmd c.
Proof.
  induction l as [|[p c] l IH]; intros n q r G H; cbn in H; [discriminate|].
  inversion G; subst. apply updp_cases in H. destruct H as [[_ ->]|[_ H]]; eauto.
Qed.

Lemma init_inv2 : forall prior n l, Forall (fun pc => good_cmd (snd pc)) l -> Inv2 (init_sys prior n l).
Proof.
  intros prior n l G.
  assert (K : forall q r, procs (init_sys prior n l) q = Some r -> exists c, r = proc0 c n /\ good_cmd c)
    by (intros q r Hq; eapply procs_of_good; eauto).
  split; cbn [vers init_sys]; try (intros q r; intros; destruct (K q r) as (c & -> & Gc); [assumption|]; cbn in *).
  all: try (exact Gc); try (exact I); try discriminate; try (intros ? ? []).
  all: unfold good_cmd, body_phase in *; repeat match goal with H : _ \/ _ |- _ => destruct H end;
    destruct (csave c) eqn:?; destruct (cupd c) eqn:?; destruct (cload c) eqn:?; cbn in *;
    try discriminate; try congruence; intuition (try discriminate; try congruence).
Qed.

Lemma exec_inv2 : forall prior sched s, Inv prior s -> Inv2 s -> Inv2 (exec s sched).
Proof.
  intros prior sched. induction sched as [|p sched IH]; intros s I J; cbn; [exact J|].
  destruct (step s p) as [s'|] eqn:H.
  - apply IH; [eapply step_inv; eauto | eapply step_inv2; eauto].
  - apply IH; assumption.
Qed.

(* C14_snapshot_not_lost: a snapshot that was reported as recorded is in the history, at every
   later instant, whatever the schedule -- provided every command that writes the file holds the
   update lock and only adds entries *)
Lemma snapshot_not_lost : forall prior n l sched p r e,
  Forall (fun pc => good_cmd (snd pc)) l ->
  let s := exec (init_sys prior n l) sched in
  procs s p = Some r -> acked r = true -> csave (pcmd r) = Some (UAppend e) ->
  exists v, final_value s = Some v /\ In e v.
Proof.
  intros prior n l sched p r e G s Hp Ha Hs.
  pose proof (exec_inv prior sched _ (init_inv prior n l)) as I. fold s in I.
  pose proof (exec_inv2 prior sched _ (init_inv prior n l) (init_inv2 prior n l G)) as J. fold s in J.
  pose proof (jK2 _ J p r Hp Ha) as Sv.
  destruct (jK _ J p r Hp (or_intror Sv)) as (Hin & u & v & Hu & Hc).
  rewrite Hs in Hu. inversion Hu; subst u.
  pose proof (jH2 _ J p _ Hin) as Hincl. rewrite Hc, curval_rename in Hincl.
  (* the target holds the newest version, a complete document *)
  pose proof (iT _ _ I) as T. destruct (vers s) as [|[q b] tl] eqn:Hv; [destruct Hin|].
  destruct (jVS _ J q b) as (u0 & v0 & ->); [rewrite Hv; left; reflexivity|].
  exists (apply_upd u0 v0). unfold final_value. rewrite T, parse_ser. split; [reflexivity|].
  unfold curval in Hincl. rewrite T in Hincl. rewrite curval_rename in Hincl. apply Hincl. cbn. apply in_or_app. right. left. reflexivity.
Qed.

(* the name <file>.lock denotes, at every instant of every schedule, the very inode that each
   process opened (and possibly locked): it is never unbound or rebound *)
Lemma update_lock_name_stable : forall prior n l sched q r i,
  Forall (fun pc => good_cmd (snd pc)) l ->
  let s := exec (init_sys prior n l) sched in
  procs s q = Some r -> (ph r = PUpd (Some i) \/ uh r = Some i) -> names (sfs s) Side = Some i.
Proof.
  intros prior n l sched q r i G s Hq Hor.
  pose proof (exec_inv2 prior sched _ (init_inv prior n l) (init_inv2 prior n l G)) as J. fold s in J.
  destruct Hor as [E|E]; [eapply jU0; eauto|eapply jU1; eauto].
Qed.

Lemma update_lock_exclusive_sched : forall prior n l sched q q' r r',
  Forall (fun pc => good_cmd (snd pc)) l ->
  let s := exec (init_sys prior n l) sched in
  procs s q = Some r -> procs s q' = Some r' -> uh r <> None -> uh r' <> None -> q = q'.
Proof.
  intros prior n l sched q q' r r' G s Hq Hq' Hu Hu'.
  pose proof (exec_inv2 prior sched _ (init_inv prior n l) (init_inv2 prior n l G)) as J. fold s in J.
  eapply excl; eauto.
Qed.
