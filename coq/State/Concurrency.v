(* State/Concurrency.v: n sloc-guard processes working on ONE state file.
   A process is a command (what it loads, how it computes the document it saves, whether it
   holds the update lock, whether it reports success) walking through atomic steps:
     load      = Exists; Open; LockShared; Read; Unlock        (baseline / history / cache loaders)
     save      = the protocol of State/AtomicWrite.v
     snapshot  = OpenSide; LockSide; load; Compute; save; Ack; UnlockSide
                 (the update lock is taken on the inode that <file>.lock denoted when it was opened)
   [step_core] is one atomic step of one process ([Blk] = the step is a lock attempt and the
   lock is held in a conflicting mode). [step] adds try-lock-with-deadline: a blocked attempt
   consumes one poll of the budget, an attempt with no budget left is the time-out outcome
   (reader: goes on unlocked with a warning; writer: Ok(Skipped), temp removed; update lock:
   the update is skipped). So a schedule is a [list pid]; time-outs are a scheduling outcome.
   The phases are the named hook points of the real code; [trace] records them.
   Ghost fields ([written], [tgts], [vers], [rver]) do not influence the run.
   Model file: definitions only, no proofs. *)
From Coq Require Import NArith List Bool String.
From SG Require Import State.Fs State.AtomicWrite.
Import ListNotations.
Open Scope N_scope.

(* how the saved document is computed from the loaded one *)
Inductive upd := UConst (w : value) | UAppend (e : N) | UUnion (w : value).
Definition memN (x : N) (l : list N) : bool := existsb (N.eqb x) l.
Definition apply_upd (u : upd) (v : value) : value :=
  match u with
  | UConst w => w
  | UAppend e => v ++ [e]
  | UUnion w => v ++ filter (fun x => negb (memN x v)) w
  end.

Record cmd := mkcmd {
  ckind : kind;
  cupd : bool;             (* holds the update lock (side-car <file>.lock) from before the load to after the save *)
  cload : bool;            (* loads the file first *)
  cmiss : bool;            (* a missing file is an error (exit 2) instead of the default document *)
  cbad : bool;             (* an unparsable file is an error (exit 2) instead of the default document *)
  csave : option upd;      (* saves afterwards *)
  csize : N;               (* physical size of the document it saves *)
  cack : bool;             (* prints  Snapshot recorded  after a successful save *)
  csnap : bool;            (* passes the snap:after_load point *)
  csnap2 : bool            (* passes the snap:before_save point (the snapshot command; not check's auto-snapshot) *)
}.

Definition cmd_snapshot (e : N) : cmd := mkcmd History true true false false (Some (UAppend e)) 0 true true true.
(* check with trend.auto_snapshot_on_check: perform_auto_snapshot in check_snapshot.rs *)
Definition cmd_auto_snapshot (e : N) : cmd := mkcmd History true true false false (Some (UAppend e)) 0 true true false.
(* what the snapshot command was before the D15 repair: no update lock *)
Definition cmd_snapshot_unlocked (e : N) : cmd := mkcmd History false true false false (Some (UAppend e)) 0 true true true.
Definition cmd_stats_history : cmd := mkcmd History false true false false None 0 false false false.
(* check --baseline F --update-baseline all: load_baseline_optional (missing -> none, unparsable -> exit 2),
   then a baseline built from this run's failures only *)
Definition cmd_update_baseline (w : value) : cmd := mkcmd Baseline false true false true (Some (UConst w)) 0 false false false.
Definition cmd_check_baseline : cmd := mkcmd Baseline false true true true None 0 false false false.
Definition cmd_check_cache (w : value) : cmd := mkcmd Cache false true false false (Some (UUnion w)) 0 false false false.

Inductive lpos := L0 | LS | LO | LL | LR.
Inductive phase :=
| PUpd (opened : option inode)    (* before / after the side-car lock file has been opened: the handle denotes the
                                     inode the name <file>.lock denoted AT OPEN TIME; the lock is taken on that inode *)
| PLoad (l : lpos) | PComp | PStart | PSave (w : wpos) | PAck
| PRel (ok : bool)                (* about to drop the update lock *)
| PDone | PFail.

Record proc := mkproc {
  pcmd : cmd;
  ph : phase;
  uh : option inode;       (* Some i: holds the update lock on inode i *)
  rh : option inode;       (* read handle *)
  rlocked : bool;
  loaded : value;
  lerr : bool;             (* the loader hit a parse error *)
  pw : wst;
  budget : nat;            (* polls left for the current lock attempt *)
  saved : option bool;     (* Some true = Saved, Some false = Skipped *)
  acked : bool;
  reads : list bytes;      (* every byte string a Read returned *)
  trace : list string;     (* hook points passed, newest first *)
  rver : nat               (* ghost: number of renames that had happened at the last Read *)
}.

Definition with_ph (r : proc) (x : phase) : proc :=
  mkproc (pcmd r) x (uh r) (rh r) (rlocked r) (loaded r) (lerr r) (pw r) (budget r) (saved r) (acked r) (reads r) (trace r) (rver r).
Definition with_uh (r : proc) (h : option inode) : proc :=
  mkproc (pcmd r) (ph r) h (rh r) (rlocked r) (loaded r) (lerr r) (pw r) (budget r) (saved r) (acked r) (reads r) (trace r) (rver r).
Definition with_rh (r : proc) (h : option inode) (l : bool) : proc :=
  mkproc (pcmd r) (ph r) (uh r) h l (loaded r) (lerr r) (pw r) (budget r) (saved r) (acked r) (reads r) (trace r) (rver r).
Definition with_loaded (r : proc) (v : value) (e : bool) : proc :=
  mkproc (pcmd r) (ph r) (uh r) (rh r) (rlocked r) v e (pw r) (budget r) (saved r) (acked r) (reads r) (trace r) (rver r).
Definition with_w (r : proc) (w : wst) : proc :=
  mkproc (pcmd r) (ph r) (uh r) (rh r) (rlocked r) (loaded r) (lerr r) w (budget r) (saved r) (acked r) (reads r) (trace r) (rver r).
Definition with_budget (r : proc) (b : nat) : proc :=
  mkproc (pcmd r) (ph r) (uh r) (rh r) (rlocked r) (loaded r) (lerr r) (pw r) b (saved r) (acked r) (reads r) (trace r) (rver r).
Definition with_saved (r : proc) (x : option bool) : proc :=
  mkproc (pcmd r) (ph r) (uh r) (rh r) (rlocked r) (loaded r) (lerr r) (pw r) (budget r) x (acked r) (reads r) (trace r) (rver r).
Definition with_acked (r : proc) (x : bool) : proc :=
  mkproc (pcmd r) (ph r) (uh r) (rh r) (rlocked r) (loaded r) (lerr r) (pw r) (budget r) (saved r) x (reads r) (trace r) (rver r).
Definition with_read (r : proc) (b : bytes) (n : nat) : proc :=
  mkproc (pcmd r) (ph r) (uh r) (rh r) (rlocked r) (loaded r) (lerr r) (pw r) (budget r) (saved r) (acked r) (b :: reads r) (trace r) n.
Definition emit (r : proc) (s : string) : proc :=
  mkproc (pcmd r) (ph r) (uh r) (rh r) (rlocked r) (loaded r) (lerr r) (pw r) (budget r) (saved r) (acked r) (reads r) (s :: trace r) (rver r).
Definition emit_if (c : bool) (r : proc) (s : string) : proc := if c then emit r s else r.

Record sys := mksys {
  sfs : fs;
  procs : pid -> option proc;
  polls : nat;                       (* polls per lock attempt = time-out / poll interval *)
  written : list bytes;              (* ghost: the initial document and every document a process computed *)
  tgts : list inode;                 (* ghost: every inode that was ever bound to the target name *)
  vers : list (pid * bytes)          (* ghost: the renames so far, newest first *)
}.

Definition updp (m : pid -> option proc) (k : pid) (v : proc) : pid -> option proc :=
  fun x => if N.eqb x k then Some v else m x.
Definition setp (s : sys) (p : pid) (r : proc) : sys :=
  mksys (sfs s) (updp (procs s) p r) (polls s) (written s) (tgts s) (vers s).
Definition setfp (s : sys) (f : fs) (p : pid) (r : proc) : sys :=
  mksys f (updp (procs s) p r) (polls s) (written s) (tgts s) (vers s).

Definition load_start_name (k : kind) : string :=
  match k with Baseline => "load:baseline:start" | History => "load:history:start" | Cache => "load:cache:start" end%string.

(* the process is over: drop the update lock first if it holds it *)
Definition finish (r : proc) (ok : bool) : proc :=
  match uh r with
  | Some _ => with_ph r (PRel ok)
  | None => with_ph r (if ok then PDone else PFail)
  end.
(* the loader returned: go on with the save part, or finish *)
Definition after_load (r : proc) : proc :=
  match csave (pcmd r) with
  | Some _ => emit_if (csnap (pcmd r)) (with_ph r PComp) "snap:after_load"
  | None => finish r true
  end.
(* the save returned: report success only for a save that happened *)
Definition after_save (r : proc) : proc :=
  if cack (pcmd r) && match saved r with Some true => true | _ => false end
  then with_ph r PAck else finish r true.
(* loader error: exit 2, or go on with the default (empty) document *)
Definition load_missing (r : proc) : proc :=
  if cmiss (pcmd r) then finish r false else after_load (with_loaded r [] false).
(* (the Read step has already put the default document in [loaded] and set [lerr]) *)
Definition load_bad (r : proc) : proc :=
  if cbad (pcmd r) then finish r false else after_load r.
(* first phase after the update lock (or at start when the command takes none) *)
Definition body_phase (c : cmd) : phase := if cload c then PLoad L0 else PComp.

Inductive sres := Stuck | Blk | Adv (s : sys).

Definition step_core (s : sys) (p : pid) : sres :=
  match procs s p with
  | None => Stuck
  | Some r =>
    let f := sfs s in
    match ph r with
    | PDone | PFail => Stuck
    | PUpd None =>                                                (* open(create) <file>.lock *)
        Adv (setfp s (fst (open_create f Side)) p
                   (emit (with_ph r (PUpd (Some (snd (open_create f Side))))) "upd:before_lock"))
    | PUpd (Some i) =>                                            (* try_lock_exclusive with deadline, on the opened inode *)
        match try_lock_ex f i p with
        | Some f' => Adv (setfp s f' p (emit (with_budget (with_ph (with_uh r (Some i)) (body_phase (pcmd r))) (polls s)) "upd:after_lock"))
        | None => Blk
        end
    | PLoad L0 =>                                                 (* path.exists() *)
        match names f Target with
        | Some _ => Adv (setp s p (emit (with_ph r (PLoad LS)) (load_start_name (ckind (pcmd r)))))
        | None => Adv (setp s p (load_missing r))
        end
    | PLoad LS =>                                                 (* File::open *)
        match open_existing f Target with
        | Some i => Adv (setp s p (emit (with_ph (with_rh r (Some i) false) (PLoad LO)) "load:after_open"))
        | None => Adv (setp s p (load_missing r))
        end
    | PLoad LO =>                                                 (* try_lock_shared with deadline *)
        match rh r with
        | Some i =>
            match try_lock_sh f i with
            | Some f' => Adv (setfp s f' p (emit (with_budget (with_ph (with_rh r (Some i) true) (PLoad LL)) (polls s)) "load:after_lock"))
            | None => Blk
            end
        | None => Adv (setp s p (finish r false))
        end
    | PLoad LL =>                                                 (* serde_json::from_reader *)
        match rh r with
        | Some i =>
            let b := data f i in
            let r1 := with_read r b (List.length (vers s)) in
            let r2 := match parse b with Some v => with_loaded r1 v false | None => with_loaded r1 [] true end in
            Adv (setp s p (with_ph r2 (PLoad LR)))
        | None => Adv (setp s p (finish r false))
        end
    | PLoad LR =>                                                 (* guard dropped, file closed *)
        let f' := match rh r with Some i => if rlocked r then unlock_sh f i else f | None => f end in
        let r1 := with_rh r None false in
        Adv (setfp s f' p (if lerr r then load_bad r1 else after_load r1))
    | PComp =>
        match csave (pcmd r) with
        | Some u =>
            let c := ser (apply_upd u (loaded r)) in
            let r1 := emit_if (csnap2 (pcmd r)) (with_ph (with_w r (wst0 c (csize (pcmd r)))) PStart) "snap:before_save" in
            Adv (mksys f (updp (procs s) p r1) (polls s) (c :: written s) (tgts s) (vers s))
        | None => Adv (setp s p (finish r true))
        end
    | PStart => Adv (setp s p (emit (with_ph r (PSave W0)) "aw:start"))
    | PSave w =>
        match next_astep w with
        | None => Adv (setp s p (finish r false))
        | Some a =>
            match aw_exec p f (pw r) a with
            | Next f' w' =>
                let r1 := emit (with_w r w') (point_name (pos_after a)) in
                let r2 := match a with
                          | Unlock => after_save (with_saved r1 (Some true))
                          | LockExcl => with_budget (with_ph r1 (PSave (pos_after a))) (polls s)
                          | _ => with_ph r1 (PSave (pos_after a))
                          end in
                let tg := match a with
                          | Rename => match names f' Target with Some i => i :: tgts s | None => tgts s end
                          | _ => tgts s
                          end in
                let vs := match a with Rename => (p, wcontent (pw r)) :: vers s | _ => vers s end in
                Adv (mksys f' (updp (procs s) p r2) (polls s) (written s) tg vs)
            | Blocked => Blk
            | Err => Adv (setfp s (unlink f (Temp p)) p (finish r false))
            end
        end
    | PAck => Adv (setp s p (finish (with_acked r true) true))
    | PRel ok =>                                                  (* the update-lock guard is dropped *)
        let f' := match uh r with Some i => unlock_ex f i p | None => f end in
        Adv (setfp s f' p (with_ph (with_uh r None) (if ok then PDone else PFail)))
    end
  end.

(* the time-out outcome of the three lock attempts; the warnings are recorded in the trace as
   pseudo points starting with an exclamation mark *)
Definition timeout_step (s : sys) (p : pid) (r : proc) : sys :=
  match ph r with
  | PUpd (Some _) => setp s p (emit (with_budget (with_ph r PDone) (polls s)) "!update_lock_timeout")
  | PLoad LO => setp s p (emit (emit (with_budget (with_ph r (PLoad LL)) (polls s)) "!read_lock_timeout") "load:after_lock")
  | PSave WOp =>
      let '(f', w') := aw_timeout p (sfs s) (pw r) in
      setfp s f' p (after_save (emit (with_budget (with_saved (with_w r w') (Some false)) (polls s)) "!save_skipped"))
  | _ => s
  end.

Definition step (s : sys) (p : pid) : option sys :=
  match step_core s p with
  | Stuck => None
  | Adv s' => Some s'
  | Blk =>
      match procs s p with
      | Some r => match budget r with
                  | S b => Some (setp s p (with_budget r b))
                  | O => Some (timeout_step s p r)
                  end
      | None => None
      end
  end.

(* blocking reading of the same step: None = blocked on a lock (or finished) *)
Definition try_step (s : sys) (p : pid) : option sys :=
  match step_core s p with Adv s' => Some s' | _ => None end.

Definition exec (s : sys) (sched : list pid) : sys :=
  fold_left (fun s p => match step s p with Some s' => s' | None => s end) sched s.

(* ---- initial systems ---- *)
Definition proc0 (c : cmd) (n : nat) : proc :=
  mkproc c (if cupd c then PUpd None else body_phase c) None None false [] false (wst0 [] 0) n None false [] [] 0.

Fixpoint procs_of (l : list (pid * cmd)) (n : nat) : pid -> option proc :=
  match l with
  | [] => fun _ => None
  | (p, c) :: tl => updp (procs_of tl n) p (proc0 c n)
  end.

Definition init_sys (prior : option bytes) (n : nat) (l : list (pid * cmd)) : sys :=
  mksys (fs_init prior) (procs_of l n) n
        (match prior with Some b => [b] | None => [] end)
        (match prior with Some _ => [0] | None => [] end) [].

(* ---- observations ---- *)
Definition finished (r : proc) : bool := match ph r with PDone | PFail => true | _ => false end.
Definition final_target (s : sys) : option bytes := read_name (sfs s) Target.
Definition final_value (s : sys) : option value :=
  match final_target s with Some b => parse b | None => None end.

(* ---- scheduling at the granularity of a set of sync points (for the tie with real processes) ---- *)
Definition head_in (pts : list string) (r : proc) : bool :=
  match trace r with x :: _ => existsb (String.eqb x) pts | [] => false end.

Definition grew_into (pts : list string) (r0 r1 : proc) : bool :=
  Nat.ltb (List.length (trace r0)) (List.length (trace r1)) && head_in pts r1.

(* run p until it has just emitted one of [pts], has finished, or stands before a blocked lock *)
Fixpoint advance (fuel : nat) (pts : list string) (s : sys) (p : pid) : sys :=
  match fuel with
  | O => s
  | S k =>
      match procs s p with
      | None => s
      | Some r0 =>
          match step_core s p with
          | Adv s' =>
              match procs s' p with
              | Some r1 =>
                  if finished r1 then s'
                  else if grew_into pts r0 r1 then s'
                  else advance k pts s' p
              | None => s'
              end
          | _ => s
          end
      end
  end.

Inductive evres := EvStuck | EvPoll | EvAdv | EvTimeout.

(* one scheduling event: p is released from the point it rests at *)
Definition event (pts : list string) (s : sys) (p : pid) : sys * evres :=
  match procs s p with
  | None => (s, EvStuck)
  | Some r =>
      match step_core s p with
      | Stuck => (s, EvStuck)
      | Adv _ => (advance 64 pts s p, EvAdv)
      | Blk =>
          match budget r with
          | S b => (setp s p (with_budget r b), EvPoll)
          | O => let s1 := timeout_step s p r in
                 match procs s1 p with
                 | Some r1 => if finished r1 || grew_into pts r r1 then (s1, EvTimeout) else (advance 64 pts s1 p, EvTimeout)
                 | None => (s1, EvTimeout)
                 end
          end
      end
  end.
