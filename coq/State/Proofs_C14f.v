(* State/Proofs_C14f.v: what a writer installs is its update applied to the document it read
   (the initial one, an earlier installed version, or the empty default): the structure behind
   lost updates of writers that do not hold the update lock. *)
From Coq Require Import Arith PeanoNat NArith List Bool Lia String.
From SG Require Import State.Fs State.AtomicWrite State.Proofs_C13 State.Concurrency State.Proofs_C14 State.Proofs_C14b State.Proofs_C14d.
Import ListNotations.
Open Scope N_scope.

Definition version_or_prior (prior : option bytes) (s : sys) (b : bytes) : Prop :=
  Some b = prior \/ exists q, In (q, b) (vers s).

Record Inv3 (prior : option bytes) (s : sys) : Prop := {
  c0 : forall q r, procs s q = Some r -> in_save (ph r) = true -> csave (pcmd r) <> None;
  c1 : forall i, In i (tgts s) -> version_or_prior prior s (data (sfs s) i);
  c2 : forall q r b, procs s q = Some r -> In b (reads r) -> version_or_prior prior s b;
  c3 : forall q r, procs s q = Some r -> loaded r = [] \/ exists b, In b (reads r) /\ loaded r = docval (Some b);
  c5 : forall q r u, procs s q = Some r -> csave (pcmd r) = Some u -> in_save (ph r) = true ->
       wcontent (pw r) = ser (apply_upd u (loaded r));
  c4 : forall q c, In (q, c) (vers s) -> exists r u, procs s q = Some r /\ csave (pcmd r) = Some u /\ c = ser (apply_upd u (loaded r))
}.

Lemma vop_mono : forall prior s s' b, incl (vers s) (vers s') -> version_or_prior prior s b -> version_or_prior prior s' b.
Proof. intros prior s s' b Hi [E|[q Hq]]; [left; exact E|right; exists q; apply Hi, Hq]. Qed.

Lemma eff_vers_incl : forall p s s', eff p s s' -> incl (vers s) (vers s').
Proof. intros p s s' He. destruct (eff_vers _ _ _ He) as [E|(r & i & _ & _ & _ & _ & _ & E)]; rewrite E; [apply incl_refl|apply incl_tl, incl_refl]. Qed.

Theorem step_inv3 : forall prior s p s', Inv prior s -> Inv3 prior s -> step s p = Some s' -> Inv3 prior s'.
Proof.
  intros prior s p s' I C H.
  pose proof (step_eff _ _ _ H) as He.
  destruct (step_proc _ _ _ H) as (r & r' & Hp & Hps & Hpolls & P).
  assert (Hp' : procs s' p = Some r') by (rewrite Hps; apply updp_same).
  pose proof (step_proc2 _ _ _ _ _ H Hp Hp') as Q.
  assert (Hoth : forall q, q <> p -> procs s' q = procs s q) by (intros; rewrite Hps; now apply updp_other).
  pose proof (iF _ _ I) as F.
  pose proof (p_pcmd _ _ _ _ P) as Hcmd.
  pose proof (eff_vers_incl _ _ _ He) as Hvi.
  assert (Dt : forall i, In i (tgts s) -> data (sfs s') i = data (sfs s) i).
  { intros i Hi. eapply eff_data; eauto; [eapply fE2; eauto|]. intros Hc. eapply (fC _ _ F); eauto. discriminate. }
  assert (Rd : forall i, rh r = Some i -> version_or_prior prior s' (data (sfs s) i)).
  { intros i Hi. eapply vop_mono; eauto. eapply c1; eauto. eapply iA3; eauto. }
  split.
  - (* c0 *) intros q r1 Hq Hs. destruct (N.eq_dec q p) as [->|Hne].
    + rewrite Hp' in Hq. inversion Hq; subst r1. rewrite Hcmd. destruct (q_sv _ _ _ _ _ Q Hs) as [Hs0|Hs0]; [eapply c0; eauto|exact Hs0].
    + rewrite Hoth in Hq by exact Hne. eapply c0; eauto.
  - (* c1 *) intros i Hi. destruct (eff_vers _ _ _ He) as [Hv|(r0 & i0 & Hp0 & Hph0 & Hn0 & Hr & Ht' & Hv)].
    + assert (Hi' : In i (tgts s)).
      { destruct He as [? ? ? E ?|? E ?|? E ?|? ? E ?|? E ?|? ? ? ? ? ? E E2]; try (rewrite E in Hi; exact Hi).
        rewrite E2 in Hv. exfalso. eapply cons_self_neq; eauto. }
      rewrite Dt by exact Hi'. eapply vop_mono; eauto. eapply c1; eauto.
    + rewrite Ht' in Hi. destruct Hi as [<-|Hi].
      * right. exists p. rewrite Hv. left.
        destruct (iB _ _ I p r0 WLk Hp0 Hph0 eq_refl) as (j & Hj & Hd). rewrite Hn0 in Hj. inversion Hj; subst j.
        unfold rename in Hr. rewrite Hn0 in Hr. inversion Hr. cbn. rewrite Hd. reflexivity.
      * rewrite Dt by exact Hi. eapply vop_mono; eauto. eapply c1; eauto.
  - (* c2 *) intros q r1 b Hq Hb. destruct (N.eq_dec q p) as [->|Hne].
    + rewrite Hp' in Hq. inversion Hq; subst r1.
      destruct (p_reads _ _ _ _ P) as [E|(i & Hrh & E)]; rewrite E in Hb.
      * eapply vop_mono; eauto. eapply c2; eauto.
      * destruct Hb as [<-|Hb]; [apply Rd; exact Hrh|]. eapply vop_mono; eauto. eapply c2; eauto.
    + rewrite Hoth in Hq by exact Hne. eapply vop_mono; eauto. eapply c2; eauto.
  - (* c3 *) intros q r1 Hq. destruct (N.eq_dec q p) as [->|Hne].
    + rewrite Hp' in Hq. inversion Hq; subst r1.
      destruct (q_loaded2 _ _ _ _ _ Q) as [E|[E|(i & Hrh & E & Er)]].
      * rewrite E. destruct (c3 _ _ C p r Hp) as [Z|(b & Hb & Z)]; [left; exact Z|right]. exists b. split; [|exact Z].
        destruct (p_reads _ _ _ _ P) as [E2|(i & _ & E2)]; rewrite E2; [exact Hb|right; exact Hb].
      * left. exact E.
      * right. exists (data (sfs s) i). rewrite Er. split; [left; reflexivity|exact E].
    + rewrite Hoth in Hq by exact Hne. eapply c3; eauto.
  - (* c5 *) intros q r1 u Hq Hs Hin. destruct (N.eq_dec q p) as [->|Hne].
    + rewrite Hp' in Hq. inversion Hq; subst r1. rewrite Hcmd in Hs.
      destruct (p_written _ _ _ _ P) as [E|(u0 & Hc & Hsv & E & Ec & Eph)].
      * destruct (p_insave _ _ _ _ P Hin) as [Hc|[Hs0 Ec]].
        -- exfalso. unfold step, step_core in H. rewrite Hp, Hc in H. rewrite Hs in H. inversion H; subst s'. cbn in E. eapply cons_self_neq; eauto.
        -- rewrite Ec. rewrite (q_loaded3 _ _ _ _ _ Q); [eapply c5; eauto|]. destruct (ph r); try discriminate Hs0; reflexivity.
      * rewrite Ec. rewrite Hs in Hsv. inversion Hsv; subst u0. rewrite (q_loaded3 _ _ _ _ _ Q); [reflexivity|]. rewrite Hc. reflexivity.
    + rewrite Hoth in Hq by exact Hne. eapply c5; eauto.
  - (* c4 *) intros q c Hin.
    assert (K : In (q, c) (vers s) -> exists r1 u, procs s' q = Some r1 /\ csave (pcmd r1) = Some u /\ c = ser (apply_upd u (loaded r1))).
    { intros Hin0. destruct (c4 _ _ C q c Hin0) as (r1 & u & Hq & Hs & Ec). destruct (N.eq_dec q p) as [->|Hne].
      - rewrite Hp in Hq. inversion Hq; subst r1. exists r', u. rewrite Hcmd. split; [exact Hp'|split; [exact Hs|]].
        destruct (iV _ _ I p c Hin0) as (_ & r2 & Hq2 & _ & Hps2). rewrite Hp in Hq2. inversion Hq2; subst r2.
        rewrite (q_loaded3 _ _ _ _ _ Q); [exact Ec|]. destruct (ph r); try discriminate Hps2; reflexivity.
      - exists r1, u. rewrite Hoth by exact Hne. auto. }
    destruct (eff_vers _ _ _ He) as [Hv|(r0 & i0 & Hp0 & Hph0 & Hn0 & Hr & Ht' & Hv)].
    + rewrite Hv in Hin. auto.
    + rewrite Hv in Hin. destruct Hin as [E|Hin]; [|auto]. inversion E; subst q c.
      rewrite Hp in Hp0. inversion Hp0; subst r0.
      assert (Hsv : csave (pcmd r) <> None) by (eapply c0; eauto; rewrite Hph0; reflexivity).
      destruct (csave (pcmd r)) as [u|] eqn:Hu; [|congruence].
      exists r', u. rewrite Hcmd. split; [exact Hp'|split; [exact Hu|]].
      rewrite (q_loaded3 _ _ _ _ _ Q); [|rewrite Hph0; reflexivity]. eapply c5; eauto. rewrite Hph0. reflexivity.
Qed.

Lemma init_inv3 : forall prior n l, Inv3 prior (init_sys prior n l).
Proof.
  intros prior n l.
  assert (K : forall q r, procs (init_sys prior n l) q = Some r -> exists c, r = proc0 c n)
    by (intros q r Hq; cbn in Hq; eapply procs_of_spec; eauto).
  split; cbn [vers tgts sfs init_sys].
  - intros q r Hq Hs. destruct (K q r Hq) as (c & ->). destruct (proc0_ph c n) as (A & _). rewrite A in Hs. discriminate.
  - destruct prior as [b|]; [|intros i []]. intros i [<-|[]]. left. reflexivity.
  - intros q r b Hq. destruct (K q r Hq) as (c & ->). intros [].
  - intros q r Hq. destruct (K q r Hq) as (c & ->). left. reflexivity.
  - intros q r u Hq _ Hs. destruct (K q r Hq) as (c & ->). destruct (proc0_ph c n) as (A & _). rewrite A in Hs. discriminate.
  - intros q c [].
Qed.

Lemma exec_inv3 : forall prior sched s, Inv prior s -> Inv3 prior s -> Inv3 prior (exec s sched).
Proof.
  intros prior sched. induction sched as [|p sched IH]; intros s I C; cbn; [exact C|].
  destruct (step s p) as [s'|] eqn:H.
  - apply IH; [eapply step_inv; eauto | eapply step_inv3; eauto].
  - apply IH; assumption.
Qed.

(* C14_lost_update_characterised *)
Lemma installed_is_update_of_read : forall prior n l sched q c,
  let s := exec (init_sys prior n l) sched in
  In (q, c) (vers s) ->
  exists r u, procs s q = Some r /\ csave (pcmd r) = Some u /\ c = ser (apply_upd u (loaded r)) /\
              (loaded r = [] \/
               exists b, In b (reads r) /\ loaded r = docval (Some b) /\ (Some b = prior \/ exists q', In (q', b) (vers s))).
Proof.
  intros prior n l sched q c s Hin.
  pose proof (exec_inv prior sched _ (init_inv prior n l)) as I.
  pose proof (exec_inv3 prior sched _ (init_inv prior n l) (init_inv3 prior n l)) as C. fold s in I, C.
  destruct (c4 _ _ C q c Hin) as (r & u & Hq & Hs & Ec). exists r, u. repeat split; auto.
  destruct (c3 _ _ C q r Hq) as [Z|(b & Hb & Z)]; [left; exact Z|right]. exists b. repeat split; auto.
  eapply c2; eauto.
Qed.
