(* State/Proofs_C14g.v: the polling loop of the lock acquisition gives up after the time-out and
   before time-out + one poll interval -- for a constant interval. *)
From Coq Require Import NArith Lia.
From SG Require Import State.LockWait.
Open Scope N_scope.

Lemma wait_loop_upper : forall fuel T e d, e < T + d -> wait_loop fuel T e d (fun x => x) < T + d.
Proof.
  induction fuel as [|k IH]; intros T e d H; cbn; [exact H|].
  destruct (N.leb_spec T e); [exact H|]. apply IH. lia.
Qed.

Lemma wait_loop_lower : forall fuel T e d, 1 <= d -> T < e + N.of_nat fuel -> T <= wait_loop fuel T e d (fun x => x).
Proof.
  induction fuel as [|k IH]; intros T e d Hd H; cbn.
  - cbn in H. lia.
  - destruct (N.leb_spec T e); [assumption|]. apply IH; [exact Hd|]. lia.
Qed.

Lemma total_wait_bounds : forall T d, 1 <= d -> T <= total_wait T d (fun x => x) /\ total_wait T d (fun x => x) < T + d.
Proof.
  intros T d Hd. unfold total_wait. split.
  - apply wait_loop_lower; [exact Hd|]. rewrite Nat2N.inj_succ, N2Nat.id. lia.
  - apply wait_loop_upper. lia.
Qed.
