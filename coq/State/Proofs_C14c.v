(* State/Proofs_C14c.v: no process ever blocks, and every process finishes after a bounded number
   of its own steps whatever the others do (try-lock with a deadline). *)
From Coq Require Import Arith PeanoNat NArith List Bool Lia String.
From SG Require Import State.Fs State.AtomicWrite State.Proofs_C13 State.Concurrency State.Proofs_C14.
Import ListNotations.
Open Scope nat_scope.

Definition wrank (w : wpos) : nat :=
  match w with
  | W0 => 21 | WMk => 20 | WTmp => 19 | WWr => 18 | WFl => 17 | WFs => 16 | WOp => 15 | WLk => 14 | WRn => 13 | WUl => 12
  end.
Definition rank (x : phase) : nat :=
  match x with
  | PUpd None => 30 | PUpd (Some _) => 29
  | PLoad L0 => 28 | PLoad LS => 27 | PLoad LO => 26 | PLoad LL => 25 | PLoad LR => 24
  | PComp => 23 | PStart => 22 | PSave w => wrank w | PAck => 11 | PRel _ => 10 | PDone => 0 | PFail => 0
  end.
(* number of steps process r can still take: every phase is passed once, a lock phase is
   attempted at most polls + 1 times *)
Definition measure (n : nat) (r : proc) : nat := rank (ph r) * S n + budget r.

Lemma finish_budget r ok : budget (finish r ok) = budget r. Proof. proj_tac. Qed.
Lemma after_load_budget r : budget (after_load r) = budget r. Proof. proj_tac. Qed.
Lemma after_save_budget r : budget (after_save r) = budget r. Proof. proj_tac. Qed.
Lemma load_missing_budget r : budget (load_missing r) = budget r. Proof. proj_tac. Qed.
Lemma load_bad_budget r : budget (load_bad r) = budget r. Proof. proj_tac. Qed.

Lemma rank_finish r ok : rank (ph (finish r ok)) <= 10.
Proof. destruct (finish_ph r ok) as [H|[H|H]]; rewrite H; cbn; lia. Qed.
Lemma rank_after_load r : rank (ph (after_load r)) <= 23.
Proof. unfold after_load, emit_if. destruct (csave (pcmd r)); [destruct (csnap (pcmd r)); cbn; lia|]. pose proof (rank_finish r true). lia. Qed.
Lemma rank_after_save r : rank (ph (after_save r)) <= 11.
Proof. unfold after_save. destruct (cack (pcmd r) && _); [cbn; lia|]. pose proof (rank_finish r true). lia. Qed.
Lemma rank_load_missing r : rank (ph (load_missing r)) <= 23.
Proof. unfold load_missing. destruct (cmiss (pcmd r)); [pose proof (rank_finish r false); lia|apply rank_after_load]. Qed.
Lemma rank_load_bad r : rank (ph (load_bad r)) <= 23.
Proof. unfold load_bad. destruct (cbad (pcmd r)); [pose proof (rank_finish r false); lia|apply rank_after_load]. Qed.
Lemma rank_body c : rank (body_phase c) <= 28.
Proof. unfold body_phase. destruct (cload c); cbn; lia. Qed.

Ltac rk_tac Hph :=
  pre_split; cbn [ph budget with_ph with_budget with_rh with_uh with_w with_saved with_acked with_loaded with_read emit];
  rewrite ?finish_budget, ?after_load_budget, ?after_save_budget, ?load_missing_budget, ?load_bad_budget; cbn [budget with_ph with_budget with_rh with_uh with_w with_saved with_acked with_loaded with_read emit];
  rewrite ?Hph; cbn [rank wrank];
  repeat match goal with
         | |- context [finish ?r ?ok] => let K := fresh in pose proof (rank_finish r ok) as K; revert K; generalize (ph (finish r ok)); intros
         | |- context [after_load ?r] => let K := fresh in pose proof (rank_after_load r) as K; revert K; generalize (ph (after_load r)); intros
         | |- context [after_save ?r] => let K := fresh in pose proof (rank_after_save r) as K; revert K; generalize (ph (after_save r)); intros
         | |- context [load_missing ?r] => let K := fresh in pose proof (rank_load_missing r) as K; revert K; generalize (ph (load_missing r)); intros
         | |- context [load_bad ?r] => let K := fresh in pose proof (rank_load_bad r) as K; revert K; generalize (ph (load_bad r)); intros
         | |- context [body_phase ?c] => let K := fresh in pose proof (rank_body c) as K; revert K; generalize (body_phase c); intros
         end;
  (split; [lia | first [left; reflexivity | right; reflexivity]]).

Lemma step_core_rank : forall s p s' r r', step_core s p = Adv s' -> procs s p = Some r -> procs s' p = Some r' ->
  rank (ph r') < rank (ph r) /\ (budget r' = budget r \/ budget r' = polls s).
Proof.
  intros s p s' r0 r' H Hp0 Hp'. step_cases H; aw_inv; inversion Hp0; subst; clear Hp0;
    cbn [procs setp setfp] in Hp'; rewrite updp_same in Hp'; inversion Hp'; subst; clear Hp'.
  all: match goal with Hph : ph _ = _ |- _ => rk_tac Hph end.
Qed.

(* a step of p strictly decreases p's measure *)
Lemma step_measure : forall s p s' r r', step s p = Some s' -> procs s p = Some r -> procs s' p = Some r' ->
  polls s' = polls s /\ measure (polls s) r' < measure (polls s) r.
Proof.
  intros s p s' r r' H Hp Hp'. unfold step in H. destruct (step_core s p) as [| |s1] eqn:Hc; [discriminate| |].
  - rewrite Hp in H. destruct (budget r) as [|b] eqn:Hb.
    + inversion H; subst; clear H. unfold timeout_step in *. unfold measure.
      destruct (blk_phase _ _ _ Hc Hp) as [[iu Hph]|[Hph|Hph]]; rewrite Hph in *; cbn in Hp' |- *; rewrite updp_same in Hp'; inversion Hp'; subst; cbn.
      * split; [reflexivity|]. nia.
      * split; [reflexivity|]. nia.
      * split; [reflexivity|]. rewrite after_save_budget. cbn. pose proof (rank_after_save (emit (with_budget (with_saved (with_w r (mkw (wcontent (pw r)) (wsize (pw r)) (wbuf (pw r)) None false)) (Some false)) (polls s)) "!save_skipped")). nia.
    + inversion H; subst; clear H. cbn in Hp'. rewrite updp_same in Hp'. inversion Hp'; subst. unfold measure. cbn. split; [reflexivity|]. rewrite Hb. lia.
  - inversion H; subst; clear H. destruct (step_core_proc _ _ _ Hc) as (r1 & r1' & _ & _ & Hpo & _).
    destruct (step_core_rank _ _ _ _ _ Hc Hp Hp') as [A B]. split; [exact Hpo|]. unfold measure. destruct B as [B|B]; rewrite B; nia.
Qed.

(* no process is ever blocked: a process that has not finished can always take a step *)
Lemma step_progress : forall s p r, procs s p = Some r -> finished r = false -> exists s', step s p = Some s'.
Proof.
  intros s p r Hp Hf. unfold step. destruct (step_core s p) as [| |s1] eqn:Hc.
  - exfalso. unfold step_core in Hc. rewrite Hp in Hc. unfold finished in Hf.
    destruct (ph r) as [[iu|]|[| | | |]| | |w| |ok| |]; try discriminate Hf; try discriminate Hc.
    + destruct (try_lock_ex (sfs s) iu p); discriminate Hc.
    + destruct (names (sfs s) Target); discriminate Hc.
    + destruct (open_existing (sfs s) Target); discriminate Hc.
    + destruct (rh r); [destruct (try_lock_sh (sfs s) i)|]; discriminate Hc.
    + destruct (rh r); discriminate Hc.
    + destruct (csave (pcmd r)); discriminate Hc.
    + destruct (next_astep w); [destruct (aw_exec p (sfs s) (pw r) a)|]; discriminate Hc.
  - rewrite Hp. destruct (budget r); eauto.
  - eauto.
Qed.

(* steps of other processes leave p alone *)
Lemma step_other : forall s q s' p, step s q = Some s' -> p <> q -> procs s' p = procs s p.
Proof. intros s q s' p H Hne. destruct (step_proc _ _ _ H) as (r & r' & _ & E & _). rewrite E. now apply updp_other. Qed.

Definition count_pid (p : pid) (l : list pid) : nat := List.length (filter (N.eqb p) l).

Lemma exec_cons : forall s p l, exec s (p :: l) = exec (match step s p with Some s' => s' | None => s end) l.
Proof. reflexivity. Qed.

(* whatever the schedule, after p has been scheduled k times its measure has dropped by k, or it has finished *)
Lemma exec_bound : forall sched s p r, procs s p = Some r ->
  exists r', procs (exec s sched) p = Some r' /\ polls (exec s sched) = polls s /\
             (finished r' = true \/ measure (polls s) r' + count_pid p sched <= measure (polls s) r).
Proof.
  induction sched as [|q sched IH]; intros s p r Hp.
  - exists r. split; [exact Hp|split; [reflexivity|]]. right. unfold count_pid. cbn. lia.
  - rewrite exec_cons. destruct (step s q) as [s'|] eqn:H.
    + destruct (N.eq_dec q p) as [->|Hne].
      * destruct (step_proc _ _ _ H) as (r0 & r1 & Hp0 & E & Hpo & _).
        assert (Hp1 : procs s' p = Some r1) by (rewrite E; apply updp_same).
        rewrite Hp in Hp0. inversion Hp0; subst r0.
        destruct (step_measure _ _ _ _ _ H Hp Hp1) as [_ M].
        destruct (IH s' p r1 Hp1) as (r' & A & B & C). exists r'. split; [exact A|split; [congruence|]].
        destruct C as [C|C]; [left; exact C|right]. rewrite Hpo in C. unfold count_pid in *. cbn. rewrite N.eqb_refl. cbn. lia.
      * assert (Hp1 : procs s' p = Some r) by (rewrite (step_other _ _ _ p H); auto).
        destruct (step_proc _ _ _ H) as (_ & _ & _ & _ & Hpo & _).
        destruct (IH s' p r Hp1) as (r' & A & B & C). exists r'. split; [exact A|split; [congruence|]].
        destruct C as [C|C]; [left; exact C|right]. rewrite Hpo in C. unfold count_pid in *. cbn.
        destruct (N.eqb_spec p q); [congruence|]. exact C.
    + (* q cannot step: it has finished or does not exist *)
      destruct (IH s p r Hp) as (r' & A & B & C). exists r'. split; [exact A|split; [exact B|]].
      destruct C as [C|C]; [left; exact C|].
      destruct (N.eq_dec q p) as [->|Hne].
      * left. (* p itself could not step, so it has finished already, and stays so *)
        destruct (finished r) eqn:Hf.
        -- clear -Hp Hf A. revert s Hp A. induction sched as [|x sched IH]; intros s Hp A; cbn in A.
           ++ rewrite Hp in A. inversion A; subst. exact Hf.
           ++ destruct (step s x) as [s1|] eqn:Hx; [|eauto].
              destruct (N.eq_dec x p) as [->|Hne].
              ** exfalso. unfold step, step_core in Hx. rewrite Hp in Hx. unfold finished in Hf.
                 destruct (ph r); try discriminate Hf; discriminate Hx.
              ** eapply IH; [|exact A]. rewrite (step_other _ _ _ p Hx); auto.
        -- destruct (step_progress _ _ _ Hp Hf) as [s1 Hs]. congruence.
      * right. unfold count_pid in *. cbn. destruct (N.eqb_spec p q); [congruence|]. exact C.
Qed.
