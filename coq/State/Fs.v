(* State/Fs.v: a small POSIX-like file system for the persistence code of src/state.rs.
   names -> inode, inode -> bytes, inode -> advisory lock state (flock: one lock per inode,
   free / shared by n holders / exclusive for one process). Inodes are never reclaimed (an
   unlinked inode stays readable through the handles that were opened on it).
   Model file: definitions only, no proofs. *)
From Coq Require Import NArith List Bool.
Import ListNotations.
Open Scope N_scope.

Definition pid := N.
Definition inode := N.
Definition bytes := list N.

(* the three names of one save: the target, the temp file of the save  .<name>.tmp.<pid>.<n>
   and the side-car lock file  <name>.lock.  [Temp p] is the temp name of the save that process p
   performs: the real name is chosen by the save itself with create_new (O_EXCL, [create_excl]
   below) and a counter advanced until the creation succeeds, so it is bound by that save and by
   nobody else (D95) -- also when two processes have the same operating-system pid (PID
   namespaces, a recycled pid). A residue of an older save of the same pid keeps its own name. *)
Inductive fname := Target | Temp (p : pid) | Side.

Definition fname_eqb (a b : fname) : bool :=
  match a, b with
  | Target, Target => true
  | Side, Side => true
  | Temp p, Temp q => N.eqb p q
  | _, _ => false
  end.

Inductive lockst := Free | Shared (n : nat) | Excl (p : pid).

Record fs := mkfs {
  names : fname -> option inode;
  data  : inode -> bytes;
  lock  : inode -> lockst;
  next  : inode                      (* allocator: every inode in use is below [next] *)
}.

Definition updn (m : fname -> option inode) (k : fname) (v : option inode) : fname -> option inode :=
  fun x => if fname_eqb x k then v else m x.
Definition updi {A} (m : inode -> A) (k : inode) (v : A) : inode -> A :=
  fun x => if N.eqb x k then v else m x.

Definition set_names (f : fs) (m : fname -> option inode) : fs := mkfs m (data f) (lock f) (next f).
Definition set_data (f : fs) (i : inode) (b : bytes) : fs := mkfs (names f) (updi (data f) i b) (lock f) (next f).
Definition set_lock (f : fs) (i : inode) (l : lockst) : fs := mkfs (names f) (data f) (updi (lock f) i l) (next f).

(* an empty file system whose target is absent / holds [b] in inode 0 *)
Definition fs_empty : fs := mkfs (fun _ => None) (fun _ => []) (fun _ => Free) 1.
Definition fs_with (b : bytes) : fs :=
  mkfs (fun n => if fname_eqb n Target then Some 0 else None) (fun i => if N.eqb i 0 then b else []) (fun _ => Free) 1.
Definition fs_init (prior : option bytes) : fs :=
  match prior with Some b => fs_with b | None => fs_empty end.

(* File::create / OpenOptions::create(true).truncate(true): bind a fresh empty inode, or truncate *)
Definition create_trunc (f : fs) (n : fname) : fs * inode :=
  match names f n with
  | Some i => (set_data f i [], i)
  | None => let i := next f in
            (mkfs (updn (names f) n (Some i)) (updi (data f) i []) (updi (lock f) i Free) (i + 1), i)
  end.

(* OpenOptions::create_new(true) (O_EXCL): refused when the name is bound, otherwise a fresh empty inode *)
Definition create_excl (f : fs) (n : fname) : option (fs * inode) :=
  match names f n with
  | Some _ => None
  | None => Some (create_trunc f n)
  end.
(* OpenOptions::create(true).truncate(false) *)
Definition open_create (f : fs) (n : fname) : fs * inode :=
  match names f n with
  | Some i => (f, i)
  | None => let i := next f in
            (mkfs (updn (names f) n (Some i)) (updi (data f) i []) (updi (lock f) i Free) (i + 1), i)
  end.

Definition open_existing (f : fs) (n : fname) : option inode := names f n.

Definition append (f : fs) (i : inode) (b : bytes) : fs := set_data f i (data f i ++ b).

(* rename(2): atomic rebinding; the old inode of [dst] stays alive for its open handles *)
Definition rename (f : fs) (src dst : fname) : option fs :=
  match names f src with
  | Some i => Some (set_names f (updn (updn (names f) src None) dst (Some i)))
  | None => None
  end.

Definition unlink (f : fs) (n : fname) : fs := set_names f (updn (names f) n None).

(* flock(LOCK_SH|LOCK_NB), flock(LOCK_EX|LOCK_NB), flock(LOCK_UN) *)
Definition try_lock_sh (f : fs) (i : inode) : option fs :=
  match lock f i with
  | Free => Some (set_lock f i (Shared 1))
  | Shared n => Some (set_lock f i (Shared (S n)))
  | Excl _ => None
  end.
Definition try_lock_ex (f : fs) (i : inode) (p : pid) : option fs :=
  match lock f i with
  | Free => Some (set_lock f i (Excl p))
  | _ => None
  end.
Definition unlock_sh (f : fs) (i : inode) : fs :=
  match lock f i with
  | Shared (S (S n)) => set_lock f i (Shared (S n))
  | Shared _ => set_lock f i Free
  | _ => f
  end.
Definition unlock_ex (f : fs) (i : inode) (p : pid) : fs :=
  match lock f i with
  | Excl q => if N.eqb p q then set_lock f i Free else f
  | _ => f
  end.

(* the kernel drops the locks of a dead process: exclusive locks of [p] on the given inode *)
Definition reap (f : fs) (i : option inode) (p : pid) : fs :=
  match i with Some i => unlock_ex f i p | None => f end.

Definition read_name (f : fs) (n : fname) : option bytes :=
  match names f n with Some i => Some (data f i) | None => None end.
