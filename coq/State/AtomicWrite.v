(* State/AtomicWrite.v: the save protocol of state::atomic_write_with_lock_timeout (src/state.rs)
   as a list of atomic steps over State/Fs.v, the named points between the steps (equal to the
   verif-hooks point names), a crash as a prefix of the protocol, and the three loaders
   (baseline: strict; history: load_or_default; cache: None on error).
   Documents are abstract: a value is a list of entry ids, [ser] is a length-prefixed encoding
   whose proper prefixes (and the empty file) do not parse -- the one fact about JSON the
   property needs. Model file: definitions only, no proofs. *)
From Coq Require Import NArith List Bool String.
From SG Require Import State.Fs.
Import ListNotations.
Open Scope N_scope.

Definition value := list N.
Definition ser (v : value) : bytes := N.of_nat (List.length v) :: v.
Definition parse (b : bytes) : option value :=
  match b with
  | n :: r => if N.eqb (N.of_nat (List.length r)) n then Some r else None
  | [] => None
  end.

(* ---- the protocol ---- *)
Inductive astep := MkParent | CreateTemp | WriteTemp | Flush | Fsync | OpenTarget | LockExcl | Rename | Unlock.

Definition protocol : list astep :=
  [MkParent; CreateTemp; WriteTemp; Flush; Fsync; OpenTarget; LockExcl; Rename; Unlock].

(* position of a writer = the last named point it passed *)
Inductive wpos := W0 | WMk | WTmp | WWr | WFl | WFs | WOp | WLk | WRn | WUl.

Definition pos_after (a : astep) : wpos :=
  match a with
  | MkParent => WMk | CreateTemp => WTmp | WriteTemp => WWr | Flush => WFl | Fsync => WFs
  | OpenTarget => WOp | LockExcl => WLk | Rename => WRn | Unlock => WUl
  end.
Definition next_astep (w : wpos) : option astep :=
  match w with
  | W0 => Some MkParent | WMk => Some CreateTemp | WTmp => Some WriteTemp | WWr => Some Flush
  | WFl => Some Fsync | WFs => Some OpenTarget | WOp => Some LockExcl | WLk => Some Rename
  | WRn => Some Unlock | WUl => None
  end.
Definition point_name (w : wpos) : string :=
  match w with
  | W0 => "aw:start" | WMk => "aw:after_mkparent" | WTmp => "aw:after_create_temp"
  | WWr => "aw:after_write" | WFl => "aw:after_flush" | WFs => "aw:after_fsync"
  | WOp => "aw:after_open_target" | WLk => "aw:after_lock" | WRn => "aw:after_rename"
  | WUl => "aw:after_unlock"
  end%string.
(* the hook names a complete save emits, in order *)
Definition points : list string := point_name W0 :: map (fun a => point_name (pos_after a)) protocol.

(* ---- writer-local state ---- *)
Definition bufwriter_cap : N := 8192.      (* std::io::BufWriter default capacity *)
Record wst := mkw {
  wcontent : bytes;          (* the serialised document to be saved *)
  wsize : N;                 (* its physical size in bytes (decides whether BufWriter writes through) *)
  wbuf : bytes;              (* bytes still in the BufWriter *)
  wh : option inode;         (* handle on the target opened for locking *)
  wlocked : bool
}.
Definition wst0 (c : bytes) (sz : N) : wst := mkw c sz [] None false.

Inductive aw_res := Next (f : fs) (w : wst) | Blocked | Err.

Definition temp_write (p : pid) (f : fs) (b : bytes) : fs :=
  match names f (Temp p) with Some i => append f i b | None => f end.

(* one protocol step of process p *)
Definition aw_exec (p : pid) (f : fs) (w : wst) (a : astep) : aw_res :=
  match a with
  | MkParent => Next f w
  | CreateTemp =>                       (* File::create + BufWriter::new: an empty buffer *)
      Next (fst (create_trunc f (Temp p))) (mkw (wcontent w) (wsize w) [] (wh w) (wlocked w))
  | WriteTemp =>
      if bufwriter_cap <=? wsize w
      then Next (temp_write p f (wcontent w)) w
      else Next f (mkw (wcontent w) (wsize w) (wcontent w) (wh w) (wlocked w))
  | Flush => Next (temp_write p f (wbuf w)) (mkw (wcontent w) (wsize w) [] (wh w) (wlocked w))
  | Fsync => Next f w
  | OpenTarget =>
      (* the target is opened for locking only if it exists; it is never created empty
         (D14 repaired: there is no placeholder a crash or a concurrent reader could see) *)
      Next f (mkw (wcontent w) (wsize w) (wbuf w) (open_existing f Target) (wlocked w))
  | LockExcl =>
      match wh w with
      | Some i => match try_lock_ex f i p with
                  | Some f' => Next f' (mkw (wcontent w) (wsize w) (wbuf w) (wh w) true)
                  | None => Blocked
                  end
      | None => Next f w                  (* no target yet: nothing to lock *)
      end
  | Rename => match rename f (Temp p) Target with Some f' => Next f' w | None => Err end
  | Unlock =>
      match wh w with
      | Some i => Next (if wlocked w then unlock_ex f i p else f)
                       (mkw (wcontent w) (wsize w) (wbuf w) None false)
      | None => Next f w
      end
  end.

(* lock time-out: Ok(Skipped); the TempFileGuard removes the temp file, the handle is closed *)
Definition aw_timeout (p : pid) (f : fs) (w : wst) : fs * wst :=
  (unlink f (Temp p), mkw (wcontent w) (wsize w) (wbuf w) None false).

Fixpoint run (p : pid) (f : fs) (w : wst) (l : list astep) : fs * wst :=
  match l with
  | [] => (f, w)
  | a :: tl => match aw_exec p f w a with
               | Next f' w' => run p f' w' tl
               | _ => (f, w)
               end
  end.

(* a crash after k steps: the prefix is executed, nothing else (no destructor runs: the temp
   file stays), the kernel drops the dead process's lock *)
Definition writer : pid := 1.
(* the same from an arbitrary file system (e.g. one that earlier crashes of the same pid left) *)
Definition crash_from (f : fs) (new : bytes) (sz : N) (k : nat) : fs :=
  let '(f', w) := run writer f (wst0 new sz) (firstn k protocol) in
  reap f' (if wlocked w then wh w else None) writer.
Definition crash (prior : option bytes) (new : bytes) (sz : N) (k : nat) : fs :=
  crash_from (fs_init prior) new sz k.

(* a history of crashed saves, all of a process with the same (recycled) pid: what each one
   leaves -- the temp file included -- is what the next one starts from *)
Fixpoint after_crashes (f : fs) (h : list (bytes * N * nat)) : fs :=
  match h with
  | [] => f
  | (c, sz, k) :: tl => after_crashes (crash_from f c sz k) tl
  end.
(* rename(2) onto a mount point (a state file bind-mounted into a container) is refused by the
   kernel with EBUSY: the protocol stops after LockExcl with an error, the guard removes the temp
   file, the lock is dropped *)
Definition save_refused (prior : option bytes) (new : bytes) (sz : N) : fs :=
  unlink (crash prior new sz 7) (Temp writer).

(* a save that runs to completion *)
Definition save_complete (f : fs) (new : bytes) (sz : N) : fs := fst (run writer f (wst0 new sz) protocol).

Definition target (f : fs) : option bytes := read_name f Target.
Definition temp_of (f : fs) : option bytes := read_name f (Temp writer).

(* ---- loaders (uncontended) ---- *)
Inductive kind := Baseline | History | Cache.
Inductive load_res := Loaded (v : value) | Absent | Failed.

(* open, shared lock (failure only warns), read + parse, unlock *)
Definition load_raw (f : fs) : load_res * fs :=
  match open_existing f Target with
  | None => (Absent, f)
  | Some i =>
      let '(f1, locked) := match try_lock_sh f i with Some f1 => (f1, true) | None => (f, false) end in
      let r := match parse (data f1 i) with Some v => Loaded v | None => Failed end in
      (r, if locked then unlock_sh f1 i else f1)
  end.

(* what the command that called the loader goes on with *)
Inductive outcome := Proceed (v : value) | ProceedDiscarding | ExitNotFound | ExitParse.
Definition load_kind (k : kind) (f : fs) : outcome :=
  match k, fst (load_raw f) with
  | _, Loaded v => Proceed v
  | Baseline, Absent => ExitNotFound         (* check --baseline F: Baseline file not found, exit 2 *)
  | Baseline, Failed => ExitParse            (* Baseline::load is strict: JSON error -> exit 2 *)
  | History, Absent => Proceed []            (* load_or_default: no file -> new history *)
  | History, Failed => ProceedDiscarding     (* unwrap_or_default: unreadable history silently becomes empty *)
  | Cache, Absent => Proceed []
  | Cache, Failed => ProceedDiscarding       (* load_cache(..).ok(): a broken cache is dropped (rebuilt) *)
  end.
