(* Config/Proofs_C16c.v -- dropping the inheritance keys at every level equals dropping them once:
   for documents (tables with strictly increasing keys)
     fold_left lvl ms (rm_ext a) = rm_ext (fold_left merge ms a). *)
From Coq Require Import NArith ZArith List Bool Lia.
From SG Require Import Config.Toml Config.TomlFacts Config.Merge Config.Extends Config.Proofs_C16a Config.Proofs_C16b.
Import ListNotations.
Open Scope N_scope.

Lemma tab_remove_in : forall k0 l k v, In (k, v) (tab_remove k0 l) -> In (k, v) l.
Proof.
  induction l as [|[k2 v2] t IH]; cbn; intros k v Hin; auto.
  destruct (str_eqb k0 k2); [right; auto|]. destruct Hin as [Hin|Hin]; auto.
Qed.

Lemma tab_set_front : forall k v l,
  (forall k' v', In (k', v') l -> str_cmp k k' = Lt) -> tab_set k v l = (k, v) :: l.
Proof.
  intros k v [|[k1 v1] t] Hall; cbn; auto. rewrite (Hall k1 v1) by (left; reflexivity). reflexivity.
Qed.

Lemma str_eqb_cmp_lt : forall a b, str_cmp a b = Lt -> str_eqb a b = false.
Proof. intros a b E. unfold str_eqb. rewrite E. reflexivity. Qed.

Lemma str_eqb_cmp_gt : forall a b, str_cmp a b = Gt -> str_eqb a b = false.
Proof. intros a b E. unfold str_eqb. rewrite E. reflexivity. Qed.

Lemma remove_set_commute : forall k0 k v l, sorted_keys l = true -> str_eqb k0 k = false ->
  tab_remove k0 (tab_set k v l) = tab_set k v (tab_remove k0 l).
Proof.
  intros k0 k v. induction l as [|[k2 v2] t IH]; intros Hs Hn.
  - cbn. rewrite Hn. reflexivity.
  - pose proof Hs as Hs0. cbn in Hs. apply andb_true_iff in Hs. destruct Hs as [H1 H2].
    cbn [tab_set]. destruct (str_cmp k k2) eqn:E.
    + apply str_cmp_eq in E. subst k2. cbn [tab_remove]. rewrite Hn. cbn [tab_set].
      rewrite str_cmp_refl. reflexivity.
    + cbn [tab_remove]. rewrite Hn. destruct (str_eqb k0 k2) eqn:E2.
      * symmetry. apply tab_set_front. intros k' v' Hin. apply tab_remove_in in Hin.
        eapply str_cmp_lt_trans; [exact E|]. eapply keys_above; eauto.
      * cbn [tab_set]. rewrite E. reflexivity.
    + cbn [tab_remove]. destruct (str_eqb k0 k2) eqn:E2.
      * apply IH; assumption.
      * cbn [tab_set]. rewrite E. rewrite IH by assumption. reflexivity.
Qed.

Lemma remove_set_same : forall k v l, tab_remove k (tab_set k v l) = tab_remove k l.
Proof.
  intros k v. induction l as [|[k2 v2] t IH]; cbn.
  - rewrite str_eqb_refl. reflexivity.
  - destruct (str_cmp k k2) eqn:E; cbn.
    + rewrite str_eqb_refl. apply str_cmp_eq in E. subst. rewrite str_eqb_refl. reflexivity.
    + rewrite str_eqb_refl. reflexivity.
    + rewrite (str_eqb_cmp_gt _ _ E). rewrite IH. reflexivity.
Qed.

Lemma remove_commute : forall k k' (l : list (str * tv)), tab_remove k (tab_remove k' l) = tab_remove k' (tab_remove k l).
Proof.
  intros k k'. induction l as [|[k2 x] t IH]; cbn; auto.
  destruct (str_eqb k' k2) eqn:E1; destruct (str_eqb k k2) eqn:E2; cbn; rewrite ?E1, ?E2, ?IH; auto.
Qed.

Lemma keys_lt_remove : forall k0 k l, keys_lt k l = true -> sorted_keys l = true -> keys_lt k (tab_remove k0 l) = true.
Proof.
  intros k0 k l Hk Hs. destruct (tab_remove k0 l) as [|[k1 v1] t] eqn:E; auto. cbn.
  assert (Hin : In (k1, v1) (tab_remove k0 l)) by (rewrite E; left; reflexivity).
  apply tab_remove_in in Hin. rewrite (keys_above _ _ Hk Hs _ _ Hin). reflexivity.
Qed.

Lemma sorted_remove : forall k0 l, sorted_keys l = true -> sorted_keys (tab_remove k0 l) = true.
Proof.
  induction l as [|[k2 v2] t IH]; cbn; intros Hs; auto.
  apply andb_true_iff in Hs. destruct Hs as [H1 H2].
  destruct (str_eqb k0 k2); auto. cbn. rewrite IH by assumption. rewrite andb_true_r.
  apply keys_lt_remove; assumption.
Qed.

Definition rm2 (l : list (str * tv)) : list (str * tv) := tab_remove K_sha (tab_remove K_extends l).

Lemma rm2_set : forall k v l, sorted_keys l = true ->
  rm2 (tab_set k v l) =
  if str_eqb K_extends k || str_eqb K_sha k then rm2 l else tab_set k v (rm2 l).
Proof.
  intros k v l Hs. unfold rm2. destruct (str_eqb K_extends k) eqn:E1.
  - apply str_eqb_eq in E1. subst. cbn [orb]. rewrite remove_set_same. reflexivity.
  - destruct (str_eqb K_sha k) eqn:E2; cbn [orb].
    + apply str_eqb_eq in E2. subst. rewrite (remove_commute K_sha K_extends), remove_set_same.
      apply remove_commute.
    + rewrite remove_set_commute by assumption. rewrite remove_set_commute; auto.
      apply sorted_remove. assumption.
Qed.

Lemma tab_get_rm2 : forall k l, str_eqb K_extends k || str_eqb K_sha k = false -> tab_get k (rm2 l) = tab_get k l.
Proof.
  intros k l Hn. apply orb_false_iff in Hn. destruct Hn as [H1 H2]. unfold rm2.
  rewrite tab_get_remove_other by (rewrite str_eqb_sym; assumption).
  apply tab_get_remove_other. rewrite str_eqb_sym. assumption.
Qed.

Lemma rm2_merge_tab : forall m la c acc1 acc2,
  sorted_keys acc1 = true -> sorted_keys acc2 = true -> rm2 acc1 = rm2 acc2 ->
  rm2 (merge_tab_with m (rm2 la) c acc1) = rm2 (merge_tab_with m la c acc2).
Proof.
  intros m la. induction c as [|[k cv] t IH]; intros acc1 acc2 S1 S2 Hr; cbn; auto.
  apply IH; try (apply sorted_tab_set; assumption).
  rewrite !rm2_set by assumption.
  destruct (str_eqb K_extends k || str_eqb K_sha k) eqn:E; auto.
  rewrite tab_get_rm2 by assumption. rewrite Hr. reflexivity.
Qed.

Lemma remove_idem : forall k (l : list (str * tv)), tab_remove k (tab_remove k l) = tab_remove k l.
Proof.
  intros k. induction l as [|[k' x] t IH]; cbn; auto. destruct (str_eqb k k') eqn:E; auto. cbn. rewrite E, IH. auto.
Qed.

Lemma rm2_idem : forall l, rm2 (rm2 l) = rm2 l.
Proof.
  intros l. unfold rm2.
  rewrite (remove_commute K_extends K_sha (tab_remove K_extends l)). rewrite remove_idem. rewrite remove_idem. reflexivity.
Qed.

Lemma rm_merge_rm : forall a b, is_doc a = true -> is_doc b = true ->
  rm_ext (merge (rm_ext a) b) = rm_ext (merge a b).
Proof.
  intros a b Ha Hb. destruct b as [| | | | | |lb]; try discriminate. destruct a as [| | | | | |la]; try discriminate.
  cbn [rm_ext merge]. f_equal. cbn [is_doc] in Ha.
  apply rm2_merge_tab; auto.
  - apply sorted_remove. apply sorted_remove. assumption.
  - apply rm2_idem.
Qed.

Lemma rm_ext_doc : forall a, is_doc a = true -> is_doc (rm_ext a) = true.
Proof.
  destruct a; try discriminate. cbn. intros Hs. apply sorted_remove. apply sorted_remove. assumption.
Qed.

(* the level-wise fold equals the plain fold finalised once *)
Lemma lvl_fold_plain : forall ms a, is_doc a = true -> Forall (fun m => is_doc m = true) ms ->
  fold_left lvl ms (rm_ext a) = rm_ext (fold_left merge ms a).
Proof.
  induction ms as [|m t IH]; intros a Ha Hall; cbn [fold_left]; auto. inv Hall.
  unfold lvl at 2. rewrite rm_merge_rm by assumption.
  apply IH; auto. apply merge_doc; assumption.
Qed.

Lemma lf_plain : forall ch, ch <> [] -> Forall (fun m => is_doc (mval m) = true) ch ->
  lf ch = rm_ext (fold_left merge (map mval (tl ch)) (mval (hd (Pre (TTab [])) ch))).
Proof.
  intros [|m t] Hn Hall; [contradiction|]. inv Hall. cbn [lf tl hd]. apply lvl_fold_plain; auto.
  rewrite Forall_map. assumption.
Qed.

(* the chain folded with the plain documented merge, finalised once *)
Definition fold_chain (ch : list member) : tv :=
  match ch with [] => TTab [] | m :: t => fold_left merge (map mval t) (mval m) end.

Lemma lf_fold_chain : forall ch, Forall (fun m => is_doc (mval m) = true) ch -> ch <> [] ->
  lf ch = rm_ext (fold_chain ch).
Proof.
  intros [|m t] Hall Hn; [contradiction|]. inv Hall. cbn [lf fold_chain]. apply lvl_fold_plain; auto.
  rewrite Forall_map. assumption.
Qed.

Lemma top_left_fold_plain : forall fs, presets_plain fs -> forall path v r pu ch,
  fs_read fs path = RdOk v -> has_key K_extends v = true ->
  load_core fs path false = Ok (r, pu) ->
  chain_of fs v (Some path) ch -> Forall (fun m => is_doc (mval m) = true) ch ->
  r = strip (rm_ext (fold_chain ch)).
Proof.
  intros fs Hpre path v r pu ch Hrd Hk Hl Hc Hdoc.
  destruct (top_left_fold fs Hpre _ _ _ _ Hrd Hk Hl) as [ch' [Hc' [-> _]]].
  assert (ch' = ch) by (eapply chain_functional; eauto). subst.
  rewrite lf_fold_chain; auto. eapply chain_nonempty; eauto.
Qed.
