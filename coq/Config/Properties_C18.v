(* Properties_C18.v -- C18: remote configuration integrity and fetch policy. Property theorems
   only; each is closed by [exact <lemma>] and followed by Print Assumptions. The model is
   Config/Remote.v ([fetch] = fetch_remote_config_with_client for one URL; [run] = a history of
   fetches sharing one cache file; [fetch_crash] = a fetch whose process is killed inside the
   cache write). SHA-256 is an ARBITRARY function H: every theorem is for all H, all contents,
   all clock values, all histories. *)
From Coq Require Import NArith List.
From SG Require Import Config.Toml Config.Remote Config.RemoteUrls Config.Proofs_C18 Config.Proofs_C18u.
Import ListNotations.
Open Scope N_scope.

(* when extends_sha256 is given, the content that takes effect has exactly that hash, whether it
   came from the cache or from the network *)
Theorem C18_integrity : forall (H : str -> str) p now c h srv s c' n,
  fetch H p now c (Some h) srv = (OContent s, c', n) -> H s = h.
Proof. exact integrity. Qed.
Print Assumptions C18_integrity.

(* ... and a body with a different hash is never written to the cache: the cache is unchanged or
   holds a body with the pinned hash *)
Theorem C18_never_caches_mismatch : forall (H : str -> str) p now c h srv o c' n,
  fetch H p now c (Some h) srv = (o, c', n) -> c' = c \/ hash_ok H h c'.
Proof. exact never_caches_mismatch. Qed.
Print Assumptions C18_never_caches_mismatch.

(* offline: no request, cache untouched, and a cache miss is an error -- the entry is absent, or it
   exists but cannot be read (bytes that are not UTF-8, a directory at the entry path) *)
Theorem C18_offline_never_fetches : forall (H : str -> str) now c ex srv o c' n,
  fetch H Offline now c ex srv = (o, c', n) ->
  n = 0 /\ c' = c /\ (c = None -> o = OMiss) /\
  (forall e, c = Some e -> readable e = false -> o = OMiss).
Proof. exact offline_never_fetches. Qed.
Print Assumptions C18_offline_never_fetches.

(* an unreadable entry is a cache miss under every policy: offline fails without a request and
   leaves it alone, normal and refresh behave exactly like the network half *)
Theorem C18_unreadable_entry_is_a_miss : forall (H : str -> str) now e ex srv, readable e = false ->
  fetch H Offline now (Some e) ex srv = (OMiss, Some e, 0) /\
  fetch H Normal now (Some e) ex srv = fetch_net H now (Some e) ex srv /\
  fetch H Refresh now (Some e) ex srv = fetch_net H now (Some e) ex srv.
Proof. exact unreadable_is_miss. Qed.
Print Assumptions C18_unreadable_entry_is_a_miss.

(* refresh: the answer and the request count (exactly one) do not depend on the cache *)
Theorem C18_refresh_never_reads_cache : forall (H : str -> str) now c1 c2 ex srv,
  fst (fst (fetch H Refresh now c1 ex srv)) = fst (fst (fetch H Refresh now c2 ex srv)) /\
  snd (fetch H Refresh now c1 ex srv) = 1 /\ snd (fetch H Refresh now c2 ex srv) = 1.
Proof. exact refresh_never_reads_cache. Qed.
Print Assumptions C18_refresh_never_reads_cache.

(* normal: an entry outside its lifetime (mtime <= now < mtime + 3600) is not used at all; a fresh
   one is used without a request when no hash is pinned or its hash is the pinned one *)
Theorem C18_normal_respects_ttl : forall (H : str -> str) now e ex srv,
  (within_ttl now e = false ->
     fetch H Normal now (Some e) ex srv = fetch_net H now (Some e) ex srv) /\
  (within_ttl now e = true -> readable e = true -> ex = None ->
     fetch H Normal now (Some e) ex srv = (OContent (c_body e), Some e, 0)) /\
  (within_ttl now e = true -> readable e = true -> ex = Some (H (c_body e)) ->
     fetch H Normal now (Some e) ex srv = (OContent (c_body e), Some e, 0)).
Proof. exact normal_respects_ttl. Qed.
Print Assumptions C18_normal_respects_ttl.

Theorem C18_ttl_is_one_hour : forall now e,
  within_ttl now e = true <-> c_mtime e <= now /\ now < c_mtime e + 3600.
Proof. exact within_ttl_spec. Qed.
Print Assumptions C18_ttl_is_one_hour.

(* any history of fetches that all pin the hash h and share one cache: every content returned has
   hash h, and the cache ends as it began or holds a body with hash h *)
Theorem C18_sequence_inv : forall (H : str -> str) h steps c outs c',
  (forall s, In s steps -> st_expected s = Some h) ->
  run H steps c = (outs, c') ->
  Forall (fun on => forall s, fst on = OContent s -> H s = h) outs /\ (c' = c \/ hash_ok H h c').
Proof. exact sequence_inv_gen. Qed.
Print Assumptions C18_sequence_inv.

(* any history at all (hash or not): every content returned is the complete body of the initial
   entry (a text file) or a complete body some server answered in the history; so is the final
   cache body, unless the final entry is the unreadable entry the history began with *)
Theorem C18_sequence_served : forall (H : str -> str) steps c0 outs c',
  run H steps c0 = (outs, c') ->
  Forall (fun on => forall s, fst on = OContent s -> served c0 steps s) outs /\
  (forall e, c' = Some e -> (readable e = false /\ c' = c0) \/ served c0 steps (c_body e)).
Proof. exact sequence_served. Qed.
Print Assumptions C18_sequence_served.

(* a fetch that does not deliver content leaves the cache exactly as it was *)
Theorem C18_failed_fetch_leaves_cache : forall (H : str -> str) p now c ex srv o c' n,
  fetch H p now c ex srv = (o, c', n) -> (forall s, o <> OContent s) -> c' = c.
Proof. exact failed_fetch_leaves_cache. Qed.
Print Assumptions C18_failed_fetch_leaves_cache.

(* a kill inside the cache write, then a run that pins the hash: still only content with that hash
   (for the repaired write and also for the plain create-then-write it replaced) *)
Theorem C18_crash_with_hash_safe : forall (H : str -> str) cp p now c ex srv c1 p2 now2 h srv2 s c2 n,
  fetch_crash H cp p now c ex srv = Some c1 ->
  fetch H p2 now2 c1 (Some h) srv2 = (OContent s, c2, n) -> H s = h.
Proof. exact crash_with_hash_safe. Qed.
Print Assumptions C18_crash_with_hash_safe.

Theorem C18_crash_with_hash_safe_plain_write : forall (H : str -> str) cp p now c ex srv c1 p2 now2 h srv2 s c2 n,
  fetch_crash_plain H cp p now c ex srv = Some c1 ->
  fetch H p2 now2 c1 (Some h) srv2 = (OContent s, c2, n) -> H s = h.
Proof. exact crash_with_hash_safe_plain. Qed.
Print Assumptions C18_crash_with_hash_safe_plain_write.

(* a kill inside the cache write, then ANY later run (hash or not): the content it returns is a
   complete body -- the entry that was there before, what the first server answered, or what the
   second server answers. Full statement since fixes/D20-atomic-remote-cache-write.patch. *)
Theorem C18_crash_without_hash : forall (H : str -> str) cp p now c ex srv c1 p2 now2 ex2 srv2 s c2 n,
  fetch_crash H cp p now c ex srv = Some c1 ->
  fetch H p2 now2 c1 ex2 srv2 = (OContent s, c2, n) ->
  (exists e, c = Some e /\ readable e = true /\ c_body e = s) \/ srv = SBody s \/ srv2 = SBody s.
Proof. exact crash_without_hash. Qed.
Print Assumptions C18_crash_without_hash.

(* D20, the write as it was (File::create + write_all): killed after the create, the next
   normal-policy run without a hash returns the empty body, which nobody served *)
Theorem C18_crash_without_hash_plain_write_refuted : forall (H : str -> str),
  exists cp now c srv c1 s c2,
    fetch_crash_plain H cp Normal now c None srv = Some c1 /\
    fetch H Normal (now + 10) c1 None (SFail 1) = (OContent s, c2, 0) /\
    c = None /\ srv <> SBody s.
Proof. exact plain_write_refuted. Qed.
Print Assumptions C18_crash_without_hash_plain_write_refuted.

(* non-vacuity: a history in which all three policies, a stale entry, a mismatch and a rewrite occur *)
Example C18_nonvacuous :
  let H := fun b : str => match b with [103] => [1] | [111] => [2] | _ => [9] end in
  run H [ {| st_policy := Normal;  st_now := 5000; st_expected := Some [1]; st_server := SBody [97] |};
          {| st_policy := Normal;  st_now := 5001; st_expected := Some [1]; st_server := SBody [103] |};
          {| st_policy := Offline; st_now := 9999; st_expected := Some [1]; st_server := SFail 1 |};
          {| st_policy := Refresh; st_now := 10000; st_expected := None;    st_server := SBody [110] |} ]
        (Some {| c_body := [111]; c_mtime := 1000; c_kind := EText |})
  = ([(OMismatch [9], 1); (OContent [103], 1); (OContent [103], 0); (OContent [110], 1)],
     Some {| c_body := [110]; c_mtime := 10000; c_kind := EText |}).
Proof. vm_compute. reflexivity. Qed.
Print Assumptions C18_nonvacuous.

(* non-vacuity of the unreadable states: a fresh entry torn inside a two-byte character (lead byte
   195 only) -- offline fails without a request; the normal policy fetches and replaces it; a
   directory at the entry path survives the (failing, ignored) cache write *)
Example C18_unreadable_nonvacuous :
  let H := fun b : str => b in
  let torn := {| c_body := [35; 195]; c_mtime := 990; c_kind := EGarbled |} in
  let dir := {| c_body := []; c_mtime := 990; c_kind := EDir |} in
  fetch H Offline 1000 (Some torn) None (SBody [97]) = (OMiss, Some torn, 0) /\
  fetch H Offline 1000 (Some dir) (Some [97]) (SBody [97]) = (OMiss, Some dir, 0) /\
  fetch H Normal 1000 (Some torn) None (SBody [97])
    = (OContent [97], Some {| c_body := [97]; c_mtime := 1000; c_kind := EText |}, 1) /\
  fetch H Normal 1000 (Some dir) None (SBody [97]) = (OContent [97], Some dir, 1).
Proof. vm_compute. repeat split; reflexivity. Qed.
Print Assumptions C18_unreadable_nonvacuous.

Example C18_crash_reaches_write :
  fetch_crash (fun b => b) AfterRename Normal 7 None None (SBody [97])
  = Some (Some {| c_body := [97]; c_mtime := 7; c_kind := EText |}).
Proof. vm_compute. reflexivity. Qed.
Print Assumptions C18_crash_reaches_write.

(* ---- several URLs sharing one cache directory (Config/RemoteUrls.v: the directory is keyed on the
   WHOLE url text -- query string, fragment and letter case included).
   A fetch of one URL leaves the entry of every other URL alone ... *)
Theorem C18_other_urls_untouched : forall (H : str -> str) p now d u v ex srv o d' n,
  u <> v -> fetch_url H p now d u ex srv = (o, d', n) -> dir_get v d' = dir_get v d.
Proof. exact other_urls_untouched. Qed.
Print Assumptions C18_other_urls_untouched.

(* ... and its answer, its request count and the new entry of its URL depend on the entry of that URL
   only: what other URLs have cached has no influence *)
Theorem C18_url_answer_depends_on_own_entry_only : forall (H : str -> str) p now d1 d2 u ex srv,
  dir_get u d1 = dir_get u d2 ->
  fst (fst (fetch_url H p now d1 u ex srv)) = fst (fst (fetch_url H p now d2 u ex srv)) /\
  snd (fetch_url H p now d1 u ex srv) = snd (fetch_url H p now d2 u ex srv) /\
  dir_get u (snd (fst (fetch_url H p now d1 u ex srv))) = dir_get u (snd (fst (fetch_url H p now d2 u ex srv))).
Proof. exact own_entry_only. Qed.
Print Assumptions C18_url_answer_depends_on_own_entry_only.

(* offline on a URL that was never fetched (no entry of its own) is a cache miss without a request,
   whatever sits in the directory for other URLs *)
Theorem C18_offline_unfetched_url_misses : forall (H : str -> str) now d u ex srv,
  dir_get u d = None ->
  exists d', fetch_url H Offline now d u ex srv = (OMiss, d', 0) /\ forall v, dir_get v d' = dir_get v d.
Proof. exact offline_unfetched_url_misses. Qed.
Print Assumptions C18_offline_unfetched_url_misses.

(* inside a history over several URLs, the answers to the steps that configure URL u and the final
   entry of u are those of the single-URL history made of these steps alone: every theorem above
   about [run] / [fetch] holds per URL *)
Theorem C18_url_histories_independent : forall (H : str -> str) u steps d,
  answers_of u steps (fst (run_urls H steps d)) = fst (run H (steps_of u steps) (dir_get u d)) /\
  dir_get u (snd (run_urls H steps d)) = snd (run H (steps_of u steps) (dir_get u d)).
Proof. exact run_urls_projects. Qed.
Print Assumptions C18_url_histories_independent.

(* non-vacuity: base.toml?ref=v1 (63 = ?) is fetched and cached; base.toml?ref=v2, never fetched, misses
   offline, is then fetched with its own body; v1 is still served offline from its own entry *)
Example C18_urls_nonvacuous :
  let H := fun b : str => b in
  let v1 := [98; 63; 49] in let v2 := [98; 63; 50] in
  let st p t s := {| st_policy := p; st_now := t; st_expected := None; st_server := s |} in
  run_urls H [ {| us_url := v1; us_step := st Normal 100 (SBody [97]) |};
               {| us_url := v2; us_step := st Offline 101 (SBody [122]) |};
               {| us_url := v2; us_step := st Normal 102 (SBody [122]) |};
               {| us_url := v1; us_step := st Offline 103 (SFail 1) |} ] []
  = ([(OContent [97], 1); (OMiss, 0); (OContent [122], 1); (OContent [97], 0)],
     [(v1, {| c_body := [97]; c_mtime := 100; c_kind := EText |});
      (v2, {| c_body := [122]; c_mtime := 102; c_kind := EText |})]).
Proof. vm_compute. reflexivity. Qed.
Print Assumptions C18_urls_nonvacuous.

(* a loader without a project root (explain --sources) has no cache: offline is a miss without a
   request, normal and refresh send exactly one request and answer alike *)
Theorem C18_no_root_policies : forall (H : str -> str) now ex srv,
  fetch_noroot H Offline now ex srv = (OMiss, 0) /\
  snd (fetch_noroot H Normal now ex srv) = 1 /\ snd (fetch_noroot H Refresh now ex srv) = 1 /\
  fetch_noroot H Normal now ex srv = fetch_noroot H Refresh now ex srv.
Proof. exact noroot_policies. Qed.
Print Assumptions C18_no_root_policies.
