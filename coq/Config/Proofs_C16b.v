(* Config/Proofs_C16b.v -- lemmas about Config/Extends.v: termination, the left fold, markers,
   chain naming, --no-extends, flattening. *)
From Coq Require Import NArith ZArith List Bool Lia.
From SG Require Import Config.Toml Config.TomlFacts Config.Merge Config.Extends Config.Proofs_C16a.
Import ListNotations.
Open Scope N_scope.

(* ---- the chain the resolver follows, as a relation on the file system *)
Inductive member := Mem (v : tv) | Pre (v : tv).   (* file / remote member, built-in preset *)
Definition mval (m : member) : tv := match m with Mem v => v | Pre v => v end.

Definition ref_path (bp : option str) (e : str) : option str :=
  if is_abs e then Some e
  else match bp with Some b => Some (join_parent b e) | None => None end.

Inductive chain_of (fs : fsys) : tv -> option str -> list member -> Prop :=
| ch_base : forall v bp,
    as_str (tv_get K_extends v) = None -> chain_of fs v bp [Mem v]
| ch_preset : forall v bp e pv,
    as_str (tv_get K_extends v) = Some e -> is_prefix P_preset e = true ->
    fs_preset fs (drop 7 e) = Some pv -> chain_of fs v bp [Pre pv; Mem v]
| ch_remote : forall v bp e rv ch,
    as_str (tv_get K_extends v) = Some e -> is_prefix P_preset e = false -> is_remote e = true ->
    fs_remote fs e (as_str (tv_get K_sha v)) = FOk rv ->
    chain_of fs rv None ch -> chain_of fs v bp (ch ++ [Mem v])
| ch_local : forall v bp e p bv ch,
    as_str (tv_get K_extends v) = Some e -> is_prefix P_preset e = false -> is_remote e = false ->
    ref_path bp e = Some p -> fs_read fs p = RdOk bv ->
    chain_of fs bv (Some p) ch -> chain_of fs v bp (ch ++ [Mem v]).

(* one level: the documented merge, then the inheritance keys are dropped *)
Definition lvl (acc m : tv) : tv := rm_ext (merge acc m).

(* the left fold from base to leaf (before the final strip) *)
Definition lf (ch : list member) : tv :=
  match ch with
  | [] => TTab []
  | m :: t => fold_left lvl (map mval t) (rm_ext (mval m))
  end.

Definition member_ok (m : member) : Prop :=
  match m with Mem v => valid (rm_ext v) = true /\ bad_key v = None | Pre _ => True end.

Lemma chain_nonempty : forall fs v bp ch, chain_of fs v bp ch -> ch <> [].
Proof. intros fs v bp ch Hc. inv Hc; try discriminate; destruct ch0; discriminate. Qed.

Lemma lf_snoc : forall ch m, ch <> [] -> lf (ch ++ [m]) = lvl (lf ch) (mval m).
Proof.
  intros [|x t] m Hn; [contradiction|]. cbn [lf app]. rewrite map_app, fold_left_app. reflexivity.
Qed.

(* ---- rm_ext *)
Lemma rm_ext_strip : forall v, rm_ext (strip v) = strip (rm_ext v).
Proof.
  destruct v; try reflexivity.
  - rewrite strip_tab. cbn [rm_ext]. rewrite strip_tab. rewrite !sm_tab_remove. reflexivity.
Qed.

Lemma rm_ext_valid : forall v, valid v = true -> valid (rm_ext v) = true.
Proof.
  destruct v; auto. cbn [rm_ext valid]. intros Hv.
  apply (forallb_tab_remove valid). apply (forallb_tab_remove valid). assumption.
Qed.

Lemma check_valid_ok : forall v, check_valid v = Ok tt <-> valid v = true.
Proof.
  intros v. unfold check_valid. rewrite <- (validate_valid v []).
  destruct (validate v []) as [[p i]|]; split; intros E; try discriminate; auto.
Qed.

Lemma check_valid_cases : forall v, check_valid v = Ok tt \/ exists p i, check_valid v = Err (EReset p i).
Proof. intros v. unfold check_valid. destruct (validate v []) as [[p i]|]; eauto. Qed.

Lemma finish_ok : forall m r, finish m = Ok r <-> valid (rm_ext m) = true /\ r = strip (rm_ext m).
Proof.
  intros m r. unfold finish. destruct (check_valid_cases (rm_ext m)) as [E|[p [i E]]]; rewrite E; cbn.
  - apply check_valid_ok in E. split.
    + intros X. inv X. auto.
    + intros [_ ->]. reflexivity.
  - split; [discriminate|]. intros [Hv _]. apply check_valid_ok in Hv. congruence.
Qed.

Lemma finish_cases : forall m, (exists r, finish m = Ok r) \/ exists p i, finish m = Err (EReset p i).
Proof.
  intros m. unfold finish. destruct (check_valid_cases (rm_ext m)) as [E|[p [i E]]]; rewrite E; cbn; eauto.
Qed.

Lemma finalize_ok : forall m r, finalize m = Ok r <-> valid m = true /\ r = strip m.
Proof.
  intros m r. unfold finalize. destruct (check_valid_cases m) as [E|[p [i E]]]; rewrite E; cbn.
  - apply check_valid_ok in E. split.
    + intros X. inv X. auto.
    + intros [_ ->]. reflexivity.
  - split; [discriminate|]. intros [Hv _]. apply check_valid_ok in Hv. congruence.
Qed.

(* the part of process_config_value after the base is known *)
Definition after (v : tv) (bp : tv * option str) : res (tv * option str) :=
  bind (check_valid v) (fun _ => bind (finish (merge (fst bp) v)) (fun r => Ok (r, snd bp))).

Lemma after_ok : forall v rb pb r pu,
  after v (rb, pb) = Ok (r, pu) -> pb = pu /\ valid v = true /\ finish (merge rb v) = Ok r.
Proof.
  intros v rb pb r pu. unfold after. cbn [fst snd].
  destruct (check_valid_cases v) as [E|[p [i E]]]; rewrite E; cbn; try discriminate.
  destruct (finish_cases (merge rb v)) as [[r' E']|[p [i E']]]; rewrite E'; cbn; try discriminate.
  intros X. inv X. apply check_valid_ok in E. auto.
Qed.

Lemma after_not_oof : forall v bp, after v bp <> OutOfFuel.
Proof.
  intros v [rb pb]. unfold after. cbn [fst snd].
  destruct (check_valid_cases v) as [E|[p [i E]]]; rewrite E; cbn; try discriminate.
  destruct (finish_cases (merge rb v)) as [[r' E']|[p [i E']]]; rewrite E'; cbn; discriminate.
Qed.

Lemma after_err : forall v bp e, after v bp = Err e -> exists p i, e = EReset p i.
Proof.
  intros v [rb pb] e. unfold after. cbn [fst snd].
  destruct (check_valid_cases v) as [E|[p [i E]]]; rewrite E; cbn.
  - destruct (finish_cases (merge rb v)) as [[r' E']|[p [i E']]]; rewrite E'; cbn; try discriminate.
    intros X. inv X. eauto.
  - intros X. inv X. eauto.
Qed.

(* resolve_val, one unfolding, with the base computation named *)
Definition base_of (fs : fsys) (f : nat) (v : tv) (base_path : option str) (visited : list str) (depth : N) (e : str)
  : res (tv * option str) :=
  if is_prefix P_preset e then
    match fs_preset fs (drop 7 e) with
    | Some pv => Ok (pv, Some (drop 7 e))
    | None => Err (EPreset (drop 7 e))
    end
  else if is_remote e then
    if MAX <? depth + 1 then Err (ETooDeep (depth + 1) visited)
    else if mem e visited then Err (ECircular (visited ++ [e]))
    else match fs_remote fs e (as_str (tv_get K_sha v)) with
         | FErr k => Err (ERemote k)
         | FSyntax => Err (ESyntax e)
         | FOk rv => resolve_val fs f rv None (visited ++ [e]) (depth + 1)
         end
  else
    match ref_path base_path e with
    | None => Err (EResolution e)
    | Some p =>
        match fs_read fs p with
        | RdMissing => Err (EFileAccess p)
        | RdSyntax => Err (ESyntax p)
        | RdOk bv =>
            if MAX <? depth + 1 then Err (ETooDeep (depth + 1) visited)
            else match fs_canon fs p with
                 | None => Err (EFileAccess p)
                 | Some key =>
                     if mem key visited then Err (ECircular (visited ++ [key]))
                     else resolve_val fs f bv (Some p) (visited ++ [key]) (depth + 1)
                 end
        end
    end.

Lemma resolve_unfold : forall fs f v bp vis d,
  resolve_val fs (S f) v bp vis d =
  match bad_key v with
  | Some k => Err (EBadKey k)
  | None =>
  match as_str (tv_get K_extends v) with
  | None => bind (finish v) (fun r => Ok (r, None))
  | Some e => bind (base_of fs f v bp vis d e) (after v)
  end
  end.
Proof. intros. cbn [resolve_val]. destruct (bad_key v); reflexivity. Qed.

Lemma bind_ok : forall (A B : Type) (r : res A) (f : A -> res B) b,
  bind r f = Ok b -> exists a, r = Ok a /\ f a = Ok b.
Proof. intros A B [a| |] f b; cbn; intros E; try discriminate. eauto. Qed.

Lemma bind_oof : forall (A B : Type) (r : res A) (f : A -> res B),
  bind r f = OutOfFuel -> r = OutOfFuel \/ exists a, r = Ok a /\ f a = OutOfFuel.
Proof. intros A B [a| |] f; cbn; intros E; try discriminate; eauto. Qed.

Lemma bind_err : forall (A B : Type) (r : res A) (f : A -> res B) e,
  bind r f = Err e -> r = Err e \/ exists a, r = Ok a /\ f a = Err e.
Proof. intros A B [a|e0|] f e; cbn; intros E; try discriminate; eauto. left. congruence. Qed.

(* ---- C16_terminates *)
Lemma resolve_terminates : forall fs fuel v bp vis d,
  (N.to_nat (MAX - d) < fuel)%nat -> resolve_val fs fuel v bp vis d <> OutOfFuel.
Proof.
  intros fs. induction fuel as [|f IH]; intros v bp vis d Hf; [lia|].
  rewrite resolve_unfold. destruct (bad_key v); [discriminate|].
  destruct (as_str (tv_get K_extends v)) as [e|].
  - intros Ho. apply bind_oof in Ho. destruct Ho as [Ho|[a [_ Ho]]]; [|eapply after_not_oof; eauto].
    unfold base_of in Ho.
    assert (Hrec : forall x y z, (MAX <? d + 1) = false -> resolve_val fs f x y z (d + 1) <> OutOfFuel).
    { intros x y z Hm. apply IH. apply N.ltb_ge in Hm. lia. }
    destruct (is_prefix P_preset e).
    { destruct (fs_preset fs (drop 7 e)); discriminate. }
    destruct (is_remote e).
    { destruct (MAX <? d + 1) eqn:Hm; [discriminate|]. destruct (mem e vis); [discriminate|].
      destruct (fs_remote fs e (as_str (tv_get K_sha v))); try discriminate. eapply Hrec; eauto. }
    destruct (ref_path bp e) as [p|]; [|discriminate].
    destruct (fs_read fs p); try discriminate.
    destruct (MAX <? d + 1) eqn:Hm; [discriminate|].
    destruct (fs_canon fs p) as [key|]; [|discriminate].
    destruct (mem key vis); [discriminate|]. eapply Hrec; eauto.
  - destruct (finish_cases v) as [[r E]|[p [i E]]]; rewrite E; cbn; discriminate.
Qed.

Lemma load_core_terminates : forall fs path ne, load_core fs path ne <> OutOfFuel.
Proof.
  intros fs path ne. unfold load_core.
  destruct (fs_read fs path) as [| |v]; try discriminate.
  destruct (negb ne && has_key K_extends v).
  - destruct (fs_canon fs path) as [key|]; [|discriminate].
    intros Ho. apply bind_oof in Ho. destruct Ho as [Ho|[[m pu] [_ Ho]]].
    + revert Ho. apply resolve_terminates. unfold FUEL. lia.
    + cbn [fst snd] in Ho. unfold finalize in Ho.
      destruct (check_valid_cases m) as [E|[p [i E]]]; rewrite E in Ho; cbn in Ho; discriminate.
  - destruct (has_any v); [|discriminate]. unfold finalize.
    destruct (check_valid_cases v) as [E|[p [i E]]]; rewrite E; cbn; discriminate.
Qed.

(* ---- C16_is_left_fold (with C16_misplaced_marker_rejected as a by-product) *)
Definition presets_plain (fs : fsys) : Prop :=
  forall n pv, fs_preset fs n = Some pv -> rm_ext pv = pv.

Lemma tail_step : forall Fb v r,
  valid Fb = true -> valid v = true -> finish (merge (strip Fb) v) = Ok r ->
  r = strip (lvl Fb v) /\ valid (lvl Fb v) = true.
Proof.
  intros Fb v r HF Hv Hfin. apply finish_ok in Hfin. destruct Hfin as [_ ->]. unfold lvl. split.
  - rewrite <- rm_ext_strip. rewrite strip_commutes by assumption. rewrite rm_ext_strip. reflexivity.
  - apply rm_ext_valid. apply merge_valid; assumption.
Qed.

Lemma resolve_ok : forall fs, presets_plain fs -> forall fuel v bp vis d r pu,
  resolve_val fs fuel v bp vis d = Ok (r, pu) ->
  exists ch, chain_of fs v bp ch /\ r = strip (lf ch) /\ valid (lf ch) = true /\ Forall member_ok ch.
Proof.
  intros fs Hpre. induction fuel as [|f IH]; intros v bp vis d r pu Hr; [discriminate|].
  rewrite resolve_unfold in Hr. destruct (bad_key v) eqn:Ebk; [discriminate|].
  destruct (as_str (tv_get K_extends v)) as [e|] eqn:Ee.
  - apply bind_ok in Hr. destruct Hr as [[rb pb] [Hb Ha]].
    apply after_ok in Ha. destruct Ha as [-> [Hv Hfin]].
    assert (Hstep : forall x y z w, resolve_val fs f x y z w = Ok (rb, pu) -> chain_of fs x y
                      = chain_of fs x y -> forall chx, chain_of fs x y chx -> chain_of fs v bp (chx ++ [Mem v]) ->
                      rb = strip (lf chx) -> valid (lf chx) = true -> Forall member_ok chx ->
                      exists ch, chain_of fs v bp ch /\ r = strip (lf ch) /\ valid (lf ch) = true /\ Forall member_ok ch).
    { intros x y z w _ _ chx Hcx Hcv -> HvF Hall.
      destruct (tail_step _ _ _ HvF Hv Hfin) as [-> Hval].
      exists (chx ++ [Mem v]). rewrite lf_snoc by (eapply chain_nonempty; eauto). cbn [mval].
      split; [assumption|]. split; [reflexivity|]. split; [assumption|].
      apply Forall_app. split; auto. constructor; auto. cbn. split; [apply rm_ext_valid; assumption|assumption]. }
    unfold base_of in Hb.
    destruct (is_prefix P_preset e) eqn:Ep.
    { destruct (fs_preset fs (drop 7 e)) as [pv|] eqn:Epv; [|discriminate]. inv Hb.
      apply finish_ok in Hfin. destruct Hfin as [Hval ->].
      exists [Pre rb; Mem v]. cbn [lf map fold_left mval]. unfold lvl. rewrite (Hpre _ _ Epv).
      split; [eapply ch_preset; eauto|]. split; [reflexivity|]. split; [assumption|].
      constructor; cbn; auto. constructor; auto. cbn. split; [apply rm_ext_valid; assumption|assumption]. }
    destruct (is_remote e) eqn:Er.
    { destruct (MAX <? d + 1); [discriminate|]. destruct (mem e vis); [discriminate|].
      destruct (fs_remote fs e (as_str (tv_get K_sha v))) as [k| |rv] eqn:Ef; try discriminate.
      destruct (IH _ _ _ _ _ _ Hb) as [chx [Hcx [Hrb [HvF Hall]]]].
      eapply Hstep; eauto. eapply ch_remote; eauto. }
    destruct (ref_path bp e) as [p|] eqn:Erp; [|discriminate].
    destruct (fs_read fs p) as [| |bv] eqn:Erd; try discriminate.
    destruct (MAX <? d + 1); [discriminate|].
    destruct (fs_canon fs p) as [key|]; [|discriminate].
    destruct (mem key vis); [discriminate|].
    destruct (IH _ _ _ _ _ _ Hb) as [chx [Hcx [Hrb [HvF Hall]]]].
    eapply Hstep; eauto. eapply ch_local; eauto.
  - apply bind_ok in Hr. destruct Hr as [r' [Hfin E]]. inv E.
    apply finish_ok in Hfin. destruct Hfin as [Hval ->].
    exists [Mem v]. cbn [lf map fold_left mval].
    split; [apply ch_base; assumption|]. split; [reflexivity|]. split; [assumption|].
    constructor; auto. cbn. auto.
Qed.

(* the chain is a function of the file system: needed to turn resolve_ok around *)
Lemma chain_functional : forall fs v bp ch1, chain_of fs v bp ch1 -> forall ch2, chain_of fs v bp ch2 -> ch1 = ch2.
Proof.
  intros fs v bp ch1 Hc1. induction Hc1 as [v bp Ee|v bp e pv Ee Ep Epv|v bp e rv ch Ee Ep Er Ef Hc IHc|v bp e p bv ch Ee Ep Er Erp Erd Hc IHc];
    intros ch2 Hc2; inv Hc2; try congruence.
  - assert (e0 = e) by congruence. subst. assert (rv0 = rv) by congruence. subst. f_equal. auto.
  - assert (e0 = e) by congruence. subst. assert (p0 = p) by congruence. subst.
    assert (bv0 = bv) by congruence. subst. f_equal. auto.
Qed.

Lemma misplaced_marker_rejected : forall fs, presets_plain fs -> forall v bp ch m,
  chain_of fs v bp ch -> In (Mem m) ch -> valid (rm_ext m) = false ->
  forall fuel vis d rp, resolve_val fs fuel v bp vis d <> Ok rp.
Proof.
  intros fs Hpre v bp ch m Hc Hin Hbad fuel vis d [r pu] Hr.
  destruct (resolve_ok fs Hpre _ _ _ _ _ _ _ Hr) as [ch' [Hc' [_ [_ Hall]]]].
  assert (ch' = ch) by (eapply chain_functional; eauto). subst.
  rewrite Forall_forall in Hall. specialize (Hall _ Hin). cbn in Hall. destruct Hall. congruence.
Qed.

(* a member whose inheritance key is present but not a string makes resolution fail *)
Lemma bad_key_rejected : forall fs, presets_plain fs -> forall v bp ch m,
  chain_of fs v bp ch -> In (Mem m) ch -> bad_key m <> None ->
  forall fuel vis d rp, resolve_val fs fuel v bp vis d <> Ok rp.
Proof.
  intros fs Hpre v bp ch m Hc Hin Hbad fuel vis d [r pu] Hr.
  destruct (resolve_ok fs Hpre _ _ _ _ _ _ _ Hr) as [ch' [Hc' [_ [_ Hall]]]].
  assert (ch' = ch) by (eapply chain_functional; eauto). subst.
  rewrite Forall_forall in Hall. specialize (Hall _ Hin). cbn in Hall. destruct Hall. congruence.
Qed.

(* ---- C16_cycle_or_depth_names_chain *)
Lemma names_chain : forall fs fuel v bp vis d,
  d <= MAX ->
  (forall ch, resolve_val fs fuel v bp vis d = Err (ECircular ch) ->
     exists suf k, ch = vis ++ suf ++ [k] /\ In k (vis ++ suf)) /\
  (forall dd ch, resolve_val fs fuel v bp vis d = Err (ETooDeep dd ch) ->
     dd = MAX + 1 /\ exists suf, ch = vis ++ suf /\ N.of_nat (length suf) = MAX - d).
Proof.
  intros fs. induction fuel as [|f IH]; intros v bp vis d Hd; [split; intros; discriminate|].
  rewrite resolve_unfold. destruct (bad_key v); [split; intros; discriminate|].
  destruct (as_str (tv_get K_extends v)) as [e|].
  2:{ destruct (finish_cases v) as [[r E]|[p [i E]]]; rewrite E; cbn; split; intros; discriminate. }
  assert (Hmem : forall k l, mem k l = true -> In k l).
  { induction l as [|x t IHl]; cbn; [discriminate|]. intros Hm. apply orb_true_iff in Hm.
    destruct Hm as [Hm|Hm]; auto. apply str_eqb_eq in Hm. auto. }
  assert (Hb : (forall ch, base_of fs f v bp vis d e = Err (ECircular ch) ->
                  exists suf k, ch = vis ++ suf ++ [k] /\ In k (vis ++ suf)) /\
               (forall dd ch, base_of fs f v bp vis d e = Err (ETooDeep dd ch) ->
                  dd = MAX + 1 /\ exists suf, ch = vis ++ suf /\ N.of_nat (length suf) = MAX - d)).
  { unfold base_of.
    assert (Hrec : forall x y k, (MAX <? d + 1) = false ->
               (forall ch, resolve_val fs f x y (vis ++ [k]) (d + 1) = Err (ECircular ch) ->
                  exists suf k0, ch = vis ++ suf ++ [k0] /\ In k0 (vis ++ suf)) /\
               (forall dd ch, resolve_val fs f x y (vis ++ [k]) (d + 1) = Err (ETooDeep dd ch) ->
                  dd = MAX + 1 /\ exists suf, ch = vis ++ suf /\ N.of_nat (length suf) = MAX - d)).
    { intros x y k Hm. apply N.ltb_ge in Hm.
      destruct (IH x y (vis ++ [k]) (d + 1) Hm) as [I1 I2]. split.
      - intros ch E. destruct (I1 ch E) as [suf [k0 [-> Hin]]].
        exists (k :: suf), k0. rewrite <- !app_assoc in *. cbn in *. auto.
      - intros dd ch E. destruct (I2 dd ch E) as [-> [suf [-> Hl]]]. split; auto.
        exists (k :: suf). rewrite <- app_assoc. cbn [app length]. split; auto. lia. }
    destruct (is_prefix P_preset e).
    { destruct (fs_preset fs (drop 7 e)); split; intros; discriminate. }
    destruct (is_remote e).
    { destruct (MAX <? d + 1) eqn:Hm.
      - split; intros; try discriminate. inv H. apply N.ltb_lt in Hm. split; [lia|].
        exists []. rewrite app_nil_r. split; auto. cbn [length]. lia.
      - destruct (mem e vis) eqn:Hme.
        + split; intros; try discriminate. inv H. exists [], e. cbn. rewrite app_nil_r. auto.
        + destruct (fs_remote fs e (as_str (tv_get K_sha v))); try (split; intros; discriminate).
          apply Hrec; reflexivity. }
    destruct (ref_path bp e) as [p|]; [|split; intros; discriminate].
    destruct (fs_read fs p); try (split; intros; discriminate).
    destruct (MAX <? d + 1) eqn:Hm.
    { split; intros; try discriminate. inv H. apply N.ltb_lt in Hm. split; [lia|].
      exists []. rewrite app_nil_r. split; auto. cbn [length]. lia. }
    destruct (fs_canon fs p) as [key|]; [|split; intros; discriminate].
    destruct (mem key vis) eqn:Hme.
    { split; intros; try discriminate. inv H. exists [], key. cbn. rewrite app_nil_r. auto. }
    apply Hrec; reflexivity. }
  destruct Hb as [B1 B2]. split.
  - intros ch E. apply bind_err in E. destruct E as [E|[a [_ E]]]; auto.
    apply after_err in E. destruct E as [p [i E]]. discriminate.
  - intros dd ch E. apply bind_err in E. destruct E as [E|[a [_ E]]]; auto.
    apply after_err in E. destruct E as [p [i E]]. discriminate.
Qed.

(* ---- top level: load_core *)
Lemma tab_get_remove_same : forall k l, tab_get k (tab_remove k l) = None.
Proof.
  induction l as [|[k' v] t IH]; cbn; auto. destruct (str_eqb k k') eqn:E; auto. cbn. rewrite E. auto.
Qed.

Lemma tab_get_remove_other : forall k k' l, str_eqb k k' = false -> tab_get k (tab_remove k' l) = tab_get k l.
Proof.
  intros k k' l Hn. induction l as [|[k2 v] t IH]; cbn; auto.
  destruct (str_eqb k' k2) eqn:E.
  - apply str_eqb_eq in E. subst. rewrite Hn. auto.
  - cbn. rewrite IH. reflexivity.
Qed.

Lemma has_key_strip : forall k v, has_key k (strip v) = has_key k v.
Proof.
  intros k v. unfold has_key. destruct v; try reflexivity.
  - rewrite strip_tab. cbn [tv_get]. rewrite tab_get_sm. destruct (tab_get k l); reflexivity.
Qed.

Lemma has_key_rm_ext : forall X, has_key K_extends (rm_ext X) = false.
Proof.
  intros X. unfold has_key. destruct X; try reflexivity. cbn [rm_ext tv_get].
  rewrite tab_get_remove_other by reflexivity. rewrite tab_get_remove_same. reflexivity.
Qed.

Lemma resolve_shape : forall fs fuel v bp vis d m pu,
  resolve_val fs fuel v bp vis d = Ok (m, pu) -> exists X, m = strip (rm_ext X) /\ valid (rm_ext X) = true.
Proof.
  intros fs [|f] v bp vis d m pu Hr; [discriminate|]. rewrite resolve_unfold in Hr.
  assert (G : forall X, finish X = Ok m -> exists X, m = strip (rm_ext X) /\ valid (rm_ext X) = true).
  { intros X Hf. apply finish_ok in Hf. destruct Hf as [Hv ->]. eauto. }
  destruct (bad_key v); [discriminate|].
  destruct (as_str (tv_get K_extends v)) as [e|].
  - apply bind_ok in Hr. destruct Hr as [[rb pb] [_ Ha]]. apply after_ok in Ha. destruct Ha as [_ [_ Hf]]. eauto.
  - apply bind_ok in Hr. destruct Hr as [r' [Hf E]]. inv E. eauto.
Qed.

(* C16_no_marker_survives *)
Lemma no_marker_survives : forall fs path ne r pu,
  load_core fs path ne = Ok (r, pu) -> has_any r = false.
Proof.
  intros fs path ne r pu. unfold load_core.
  destruct (fs_read fs path) as [| |v]; try discriminate.
  destruct (negb ne && has_key K_extends v).
  - destruct (fs_canon fs path) as [key|]; [|discriminate]. intros Hb.
    apply bind_ok in Hb. destruct Hb as [[m pm] [_ Hb]]. cbn [fst snd] in Hb.
    apply bind_ok in Hb. destruct Hb as [r' [Hf E]]. inv E.
    apply finalize_ok in Hf. destruct Hf as [Hv ->]. apply valid_strip_clean. assumption.
  - destruct (has_any v) eqn:Ha.
    + intros Hb. apply bind_ok in Hb. destruct Hb as [r' [Hf E]]. inv E.
      apply finalize_ok in Hf. destruct Hf as [Hv ->]. apply valid_strip_clean. assumption.
    + intros E. inv E. assumption.
Qed.

(* C16_no_extends_is_leaf *)
Lemma no_extends_is_leaf : forall fs path,
  load_core fs path true =
  match fs_read fs path with
  | RdMissing => Err (EFileAccess path)
  | RdSyntax => Err (ESyntax path)
  | RdOk v => if has_any v then bind (finalize v) (fun r => Ok (r, None)) else Ok (v, None)
  end.
Proof. intros. unfold load_core. destruct (fs_read fs path); reflexivity. Qed.

Lemma no_extends_local : forall fs fs' path,
  fs_read fs path = fs_read fs' path -> load_core fs path true = load_core fs' path true.
Proof. intros fs fs' path E. rewrite !no_extends_is_leaf, E. reflexivity. Qed.

(* the effective value never carries the inheritance key *)
Lemma result_has_no_extends : forall fs path r pu,
  load_core fs path false = Ok (r, pu) -> has_key K_extends r = false.
Proof.
  intros fs path r pu. unfold load_core.
  destruct (fs_read fs path) as [| |v]; try discriminate. cbn [negb andb].
  destruct (has_key K_extends v) eqn:Hk.
  - destruct (fs_canon fs path) as [key|]; [|discriminate]. intros Hb.
    apply bind_ok in Hb. destruct Hb as [[m pm] [Hr Hb]]. cbn [fst snd] in Hb.
    apply bind_ok in Hb. destruct Hb as [r' [Hf E]]. inv E.
    apply finalize_ok in Hf. destruct Hf as [_ ->].
    apply resolve_shape in Hr. destruct Hr as [X [-> _]].
    rewrite !has_key_strip. apply has_key_rm_ext.
  - destruct (has_any v).
    + intros Hb. apply bind_ok in Hb. destruct Hb as [r' [Hf E]]. inv E.
      apply finalize_ok in Hf. destruct Hf as [_ ->]. rewrite has_key_strip. assumption.
    + intros E. inv E. assumption.
Qed.

(* C16_flatten_equivalent *)
Lemma flatten_equivalent : forall fs path r pu,
  load_core fs path false = Ok (r, pu) ->
  forall fs' p' ne, fs_read fs' p' = RdOk r -> load_core fs' p' ne = Ok (r, None).
Proof.
  intros fs path r pu Hl fs' p' ne Hrd. unfold load_core. rewrite Hrd.
  rewrite (result_has_no_extends _ _ _ _ Hl). rewrite andb_false_r.
  rewrite (no_marker_survives _ _ _ _ _ Hl). reflexivity.
Qed.

(* C16_is_left_fold at the top level *)
Lemma top_left_fold : forall fs, presets_plain fs -> forall path v r pu,
  fs_read fs path = RdOk v -> has_key K_extends v = true ->
  load_core fs path false = Ok (r, pu) ->
  exists ch, chain_of fs v (Some path) ch /\ r = strip (lf ch) /\ Forall member_ok ch.
Proof.
  intros fs Hpre path v r pu Hrd Hk. unfold load_core. rewrite Hrd, Hk. cbn [negb andb].
  destruct (fs_canon fs path) as [key|]; [|discriminate]. intros Hb.
  apply bind_ok in Hb. destruct Hb as [[m pm] [Hr Hb]]. cbn [fst snd] in Hb.
  apply bind_ok in Hb. destruct Hb as [r' [Hf E]]. inv E.
  apply finalize_ok in Hf. destruct Hf as [_ ->].
  destruct (resolve_ok fs Hpre _ _ _ _ _ _ _ Hr) as [ch [Hc [-> [Hv Hall]]]].
  exists ch. split; auto. split; auto. apply strip_idem. assumption.
Qed.

Lemma top_misplaced_rejected : forall fs, presets_plain fs -> forall path v ch m,
  fs_read fs path = RdOk v -> has_key K_extends v = true ->
  chain_of fs v (Some path) ch -> In (Mem m) ch -> valid (rm_ext m) = false ->
  forall rp, load_core fs path false <> Ok rp.
Proof.
  intros fs Hpre path v ch m Hrd Hk Hc Hin Hbad [r pu] Hl.
  destruct (top_left_fold fs Hpre _ _ _ _ Hrd Hk Hl) as [ch' [Hc' [_ Hall]]].
  assert (ch' = ch) by (eapply chain_functional; eauto). subst.
  rewrite Forall_forall in Hall. specialize (Hall _ Hin). cbn in Hall. destruct Hall. congruence.
Qed.

(* a single file (or --no-extends): a misplaced marker is rejected as well *)
Lemma single_misplaced_rejected : forall fs path v ne,
  fs_read fs path = RdOk v -> (negb ne && has_key K_extends v) = false -> valid v = false ->
  forall rp, load_core fs path ne <> Ok rp.
Proof.
  intros fs path v ne Hrd Hm Hbad [r pu]. unfold load_core. rewrite Hrd, Hm.
  destruct (has_any v) eqn:Ha.
  - intros Hb. apply bind_ok in Hb. destruct Hb as [r' [Hf E]].
    apply finalize_ok in Hf. destruct Hf as [Hv _]. congruence.
  - apply clean_valid in Ha. congruence.
Qed.

(* C16_cycle_or_depth_names_chain at the top level: the chain starts with the leaf's own key *)
Lemma top_names_chain : forall fs path v key,
  fs_read fs path = RdOk v -> fs_canon fs path = Some key ->
  (forall ch, load_core fs path false = Err (ECircular ch) ->
     exists suf k, ch = key :: suf ++ [k] /\ In k (key :: suf)) /\
  (forall dd ch, load_core fs path false = Err (ETooDeep dd ch) ->
     dd = MAX + 1 /\ exists suf, ch = key :: suf /\ N.of_nat (length ch) = MAX + 1).
Proof.
  intros fs path v key Hrd Hc. unfold load_core. rewrite Hrd. cbn [negb andb].
  destruct (has_key K_extends v).
  2:{ destruct (has_any v); split; intros; try discriminate;
      unfold finalize in H; destruct (check_valid_cases v) as [E|[p [i E]]]; rewrite E in H; cbn in H; discriminate. }
  rewrite Hc.
  assert (Hd : 0 <= MAX) by (unfold MAX; lia).
  destruct (names_chain fs FUEL v (Some path) [key] 0 Hd) as [N1 N2].
  assert (Hfin : forall (mp : tv * option str) e, bind (finalize (fst mp)) (fun r => Ok (r, snd mp)) = Err e -> exists p i, e = EReset p i).
  { intros [m pm] e. cbn [fst snd]. unfold finalize.
    destruct (check_valid_cases m) as [E|[p [i E]]]; rewrite E; cbn; intros X; inv X. eauto. }
  split.
  - intros ch E. apply bind_err in E. destruct E as [E|[a [_ E]]].
    + destruct (N1 ch E) as [suf [k [-> Hin]]]. exists suf, k. auto.
    + apply Hfin in E. destruct E as [p [i E]]. discriminate.
  - intros dd ch E. apply bind_err in E. destruct E as [E|[a [_ E]]].
    + destruct (N2 dd ch E) as [-> [suf [-> Hl]]]. split; auto. exists suf. split; auto.
      cbn [app length]. rewrite Nat2N.inj_succ. lia.
    + apply Hfin in E. destruct E as [p [i E]]. discriminate.
Qed.

(* ---- the documented merge, clause by clause *)
Lemma merge_child_scalar : forall a b,
  (forall l, b <> TArr l) -> (forall l, b <> TTab l) -> merge a b = b.
Proof. intros a b H1 H2. destruct b; try reflexivity; [destruct (H1 l)|destruct (H2 l)]; reflexivity. Qed.

Lemma merge_kind_mismatch : forall a b,
  (forall l l', a = TArr l -> b = TArr l' -> False) -> (forall l l', a = TTab l -> b = TTab l' -> False) ->
  merge a b = b.
Proof.
  intros a b H1 H2. destruct b; try reflexivity; destruct a; try reflexivity.
  - exfalso. eapply H1; reflexivity.
  - exfalso. eapply H2; reflexivity.
Qed.

Lemma merge_arrays_spec : forall a c,
  merge (TArr a) (TArr c) = if has_reset_marker c then TArr (tl c) else TArr (a ++ c).
Proof. intros. cbn. unfold merge_arrays. destruct (has_reset_marker c); reflexivity. Qed.

Lemma tab_get_set_same : forall k v l, tab_get k (tab_set k v l) = Some v.
Proof.
  induction l as [|[k' v'] t IH]; cbn.
  - rewrite str_eqb_refl. reflexivity.
  - destruct (str_cmp k k') eqn:E; cbn; rewrite ?str_eqb_refl; auto.
    unfold str_eqb. rewrite E. exact IH.
Qed.

Lemma tab_get_set_other : forall k k' v l, str_eqb k k' = false -> tab_get k (tab_set k' v l) = tab_get k l.
Proof.
  intros k k' v l Hn. induction l as [|[k2 v2] t IH]; cbn.
  - rewrite Hn. reflexivity.
  - destruct (str_cmp k' k2) eqn:E; cbn; rewrite ?Hn; auto.
    + apply str_cmp_eq in E. subst. rewrite Hn. reflexivity.
    + rewrite IH. reflexivity.
Qed.

Lemma keys_above : forall k l, keys_lt k l = true -> sorted_keys l = true ->
  forall k' v, In (k', v) l -> str_cmp k k' = Lt.
Proof.
  intros k l. revert k. induction l as [|[k1 v1] t IH]; intros k Hk Hs k' v Hin; [destruct Hin|].
  cbn in Hk, Hs. apply andb_true_iff in Hs. destruct Hs as [H1 H2].
  destruct (str_cmp k k1) eqn:E; try discriminate.
  destruct Hin as [Hin|Hin].
  - inv Hin. assumption.
  - eapply str_cmp_lt_trans; [exact E|]. eapply IH; eauto.
Qed.

Lemma sorted_head_absent : forall k v t, sorted_keys ((k, v) :: t) = true -> tab_get k t = None.
Proof.
  intros k v t Hs. cbn in Hs. apply andb_true_iff in Hs. destruct Hs as [H1 H2].
  destruct (tab_get k t) as [x|] eqn:E; auto. apply tab_get_in in E.
  pose proof (keys_above _ _ H1 H2 _ _ E) as Hlt. rewrite str_cmp_refl in Hlt. discriminate.
Qed.

(* tables: the merged table maps k to the child's value merged over the base's value when the child
   has k, and to the base's (running) value otherwise *)
Lemma merge_tab_get : forall m b c acc k, sorted_keys c = true ->
  tab_get k (merge_tab_with m b c acc) =
  match tab_get k c with
  | Some cv => Some (match tab_get k b with Some bv => m bv cv | None => cv end)
  | None => tab_get k acc
  end.
Proof.
  intros m b. induction c as [|[k1 cv1] t IH]; intros acc k Hs; cbn; auto.
  pose proof (sorted_head_absent _ _ _ Hs) as Habs.
  cbn in Hs. apply andb_true_iff in Hs. destruct Hs as [_ Hs]. rewrite IH by assumption.
  destruct (str_eqb k k1) eqn:E.
  - apply str_eqb_eq in E. subst. rewrite Habs. apply tab_get_set_same.
  - destruct (tab_get k t); auto. apply tab_get_set_other. assumption.
Qed.

Lemma merge_tables_spec : forall b c k, sorted_keys c = true ->
  tv_get k (merge (TTab b) (TTab c)) =
  match tab_get k c with
  | Some cv => Some (match tab_get k b with Some bv => merge bv cv | None => cv end)
  | None => tab_get k b
  end.
Proof. intros. cbn [merge tv_get]. apply merge_tab_get. assumption. Qed.

(* and the result of merging into a sorted table is sorted *)
Lemma keys_lt_tab_set : forall k0 k v l, keys_lt k0 l = true -> str_cmp k0 k = Lt -> keys_lt k0 (tab_set k v l) = true.
Proof.
  intros k0 k v [|[k1 v1] t] Hl Hk; cbn; [rewrite Hk; reflexivity|].
  destruct (str_cmp k k1); cbn; rewrite ?Hk; auto.
Qed.

Lemma sorted_tab_set : forall k v l, sorted_keys l = true -> sorted_keys (tab_set k v l) = true.
Proof.
  induction l as [|[k1 v1] t IH]; cbn; intros Hs; auto.
  apply andb_true_iff in Hs. destruct Hs as [H1 H2].
  destruct (str_cmp k k1) eqn:E; cbn.
  - apply str_cmp_eq in E. subst. rewrite H1, H2. reflexivity.
  - rewrite E, H1, H2. reflexivity.
  - rewrite IH by assumption. rewrite andb_true_r. apply keys_lt_tab_set; auto.
    rewrite str_cmp_antisym, E. reflexivity.
Qed.

Lemma sorted_merge_tab : forall m b c acc, sorted_keys acc = true -> sorted_keys (merge_tab_with m b c acc) = true.
Proof.
  intros m b. induction c as [|[k cv] t IH]; intros acc Ha; cbn; auto.
  apply IH. apply sorted_tab_set. assumption.
Qed.

Lemma merge_doc : forall a b, is_doc a = true -> is_doc b = true -> is_doc (merge a b) = true.
Proof.
  intros a b Ha Hb. destruct b; try discriminate. destruct a; try discriminate.
  cbn [merge is_doc]. apply sorted_merge_tab. exact Ha.
Qed.

Lemma tab_remove_absent : forall k l, tab_get k l = None -> tab_remove k l = l.
Proof.
  induction l as [|[k' v] t IH]; cbn; auto. destruct (str_eqb k k'); [discriminate|].
  intros Hg. f_equal. auto.
Qed.

Lemma rm_ext_absent : forall v, has_key K_extends v = false -> has_key K_sha v = false -> rm_ext v = v.
Proof.
  unfold has_key. destruct v; try reflexivity. cbn [tv_get rm_ext]. intros H1 H2.
  destruct (tab_get K_extends l) eqn:E1; [discriminate|]. destruct (tab_get K_sha l) eqn:E2; [discriminate|].
  rewrite (tab_remove_absent _ _ E1), (tab_remove_absent _ _ E2). reflexivity.
Qed.
