(* Config/TomlFacts.v -- lemmas about string comparison and the table primitives of Toml.v. *)
From Coq Require Import NArith ZArith List Bool Lia.
From SG Require Import Config.Toml.
Import ListNotations.
Open Scope N_scope.

Lemma str_cmp_eq : forall a b, str_cmp a b = Eq -> a = b.
Proof.
  induction a as [|x a IH]; destruct b as [|y b]; cbn; intros Hc; try discriminate; auto.
  destruct (N.compare x y) eqn:E; try discriminate.
  apply N.compare_eq in E. subst. f_equal. auto.
Qed.

Lemma str_cmp_refl : forall a, str_cmp a a = Eq.
Proof. induction a as [|x a IH]; cbn; auto. rewrite N.compare_refl. exact IH. Qed.

Lemma str_eqb_eq : forall a b, str_eqb a b = true <-> a = b.
Proof.
  unfold str_eqb. intros a b. split.
  - destruct (str_cmp a b) eqn:E; try discriminate. intros _. apply str_cmp_eq; auto.
  - intros ->. rewrite str_cmp_refl. reflexivity.
Qed.

Lemma str_eqb_refl : forall a, str_eqb a a = true.
Proof. intros. apply str_eqb_eq. reflexivity. Qed.

Lemma str_eqb_neq : forall a b, str_eqb a b = false <-> a <> b.
Proof.
  intros a b. split.
  - intros Hf He. apply str_eqb_eq in He. congruence.
  - intros Hn. destruct (str_eqb a b) eqn:E; auto. apply str_eqb_eq in E. contradiction.
Qed.

Lemma str_eqb_sym : forall a b, str_eqb a b = str_eqb b a.
Proof.
  intros. destruct (str_eqb a b) eqn:E.
  - apply str_eqb_eq in E. subst. symmetry. apply str_eqb_refl.
  - symmetry. apply str_eqb_neq. apply str_eqb_neq in E. congruence.
Qed.

Lemma str_cmp_antisym : forall a b, str_cmp b a = CompOpp (str_cmp a b).
Proof.
  induction a as [|x a IH]; destruct b as [|y b]; cbn; auto.
  rewrite (N.compare_antisym x y). destruct (N.compare x y); cbn; auto.
Qed.

Lemma str_cmp_lt_trans : forall a b c, str_cmp a b = Lt -> str_cmp b c = Lt -> str_cmp a c = Lt.
Proof.
  induction a as [|x a IH]; destruct b as [|y b]; destruct c as [|z c]; cbn; intros H1 H2;
    try discriminate; auto.
  destruct (N.compare x y) eqn:E1; try discriminate;
  destruct (N.compare y z) eqn:E2; try discriminate.
  - apply N.compare_eq in E1. apply N.compare_eq in E2. subst. rewrite N.compare_refl. eauto.
  - apply N.compare_eq in E1. subst. rewrite E2. reflexivity.
  - apply N.compare_eq in E2. subst. rewrite E1. reflexivity.
  - rewrite N.compare_lt_iff in *. assert (Hl : x < z) by lia.
    apply N.compare_lt_iff in Hl. rewrite Hl. reflexivity.
Qed.
