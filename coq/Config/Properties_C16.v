(* Properties_C16.v -- C16: config inheritance is a deterministic left fold and always terminates.
   Property theorems only; each is closed by [exact <lemma>] and followed by Print Assumptions.
   Model: Config/Toml.v (values), Config/Merge.v (merge.rs), Config/Extends.v (extends.rs and the
   value-level half of loader.rs: [load_top fs path no_extends]). The file system, the preset
   table and the remote fetch are ARBITRARY data [fs : fsys]; values are arbitrary [tv].
   Since fix D67 the members of a chain are the files / remote documents with their aliased keys
   renamed ([norm_alias], [norm_fs fs]): the chain theorems speak of [chain_of (norm_fs fs)
   (norm_alias v)]; a file loaded alone is not touched. *)
From Coq Require Import NArith ZArith List Bool.
From SG Require Import Config.Toml Config.Merge Config.Extends Config.Proofs_C16a Config.Proofs_C16b
     Config.Proofs_C16c Config.Proofs_C16d Config.Examples_C16 Gen.Gen_Config.
Import ListNotations.
Open Scope N_scope.

(* ---- termination: the fuel handed to the resolver (MAX + 2) is never exhausted. The measure is
   MAX + 1 - depth: a level recurses only after the test depth + 1 <= MAX; presets do not recurse.
   [visited] plays no part. *)
Theorem C16_terminates : forall fs path no_extends, load_top fs path no_extends <> OutOfFuel.
Proof. exact t_terminates. Qed.
Print Assumptions C16_terminates.

Theorem C16_terminates_measure : forall fs fuel v bp visited depth,
  (N.to_nat (MAX - depth) < fuel)%nat -> resolve_val fs fuel v bp visited depth <> OutOfFuel.
Proof. exact resolve_terminates. Qed.
Print Assumptions C16_terminates_measure.

(* ---- the effective value is the left fold of the documented merge over the chain base..leaf,
   finalised: [lf ch] folds [lvl acc m = rm_ext (merge acc m)] (merge, then the inheritance keys are
   dropped) from the base, [strip] removes the first-position markers ONCE at the end, although
   the code strips at every level (C16_strip_commutes is why). [chain_of] is the list of members
   reached by following the extends references (local path resolved against the referring file,
   remote, preset as a final base). Every file / remote member is well-formed on its own. *)
Theorem C16_is_left_fold : forall fs, presets_plain fs -> forall path v r pu,
  fs_read fs path = RdOk v -> has_key K_extends v = true ->
  load_top fs path false = Ok (r, pu) ->
  exists ch, chain_of (norm_fs fs) (norm_alias v) (Some path) ch /\ r = strip (lf ch) /\ Forall member_ok ch.
Proof. exact t_left_fold. Qed.
Print Assumptions C16_is_left_fold.

(* ... and in the form  r = finalize (fold_left dmerge chain):  when every member is a document (a
   table with strictly increasing keys, which every toml::Table is) dropping the inheritance keys at
   every level equals dropping them once, so the effective value is the chain folded with the PLAIN
   documented merge, then the keys dropped once, then the markers stripped once. *)
Theorem C16_is_left_fold_finalized : forall fs, presets_plain fs -> forall path v r pu ch,
  fs_read fs path = RdOk v -> has_key K_extends v = true ->
  load_top fs path false = Ok (r, pu) ->
  chain_of (norm_fs fs) (norm_alias v) (Some path) ch -> Forall (fun m => is_doc (mval m) = true) ch ->
  r = strip (rm_ext (fold_chain ch)).
Proof. exact t_left_fold_plain. Qed.
Print Assumptions C16_is_left_fold_finalized.

Theorem C16_drop_keys_once : forall ms a, is_doc a = true -> Forall (fun m => is_doc m = true) ms ->
  fold_left lvl ms (rm_ext a) = rm_ext (fold_left merge ms a).
Proof. exact lvl_fold_plain. Qed.
Print Assumptions C16_drop_keys_once.

(* the same at every level of the recursion, with the invariant that makes it go through *)
Theorem C16_is_left_fold_levels : forall fs, presets_plain fs -> forall fuel v bp vis d r pu,
  resolve_val fs fuel v bp vis d = Ok (r, pu) ->
  exists ch, chain_of fs v bp ch /\ r = strip (lf ch) /\ valid (lf ch) = true /\ Forall member_ok ch.
Proof. exact resolve_ok. Qed.
Print Assumptions C16_is_left_fold_levels.

(* the chain is a function of the file system (determinism of the fold) *)
Theorem C16_chain_deterministic : forall fs v bp ch1, chain_of fs v bp ch1 ->
  forall ch2, chain_of fs v bp ch2 -> ch1 = ch2.
Proof. exact chain_functional. Qed.
Print Assumptions C16_chain_deterministic.

(* the documented merge, clause by clause: child scalars override; a kind mismatch is an override;
   arrays concatenate parent-then-child unless the child array begins with a marker, which discards
   the inherited elements; tables merge key by key, recursively *)
Theorem C16_merge_child_scalar_overrides : forall a b,
  (forall l, b <> TArr l) -> (forall l, b <> TTab l) -> merge a b = b.
Proof. exact merge_child_scalar. Qed.
Print Assumptions C16_merge_child_scalar_overrides.

Theorem C16_merge_kind_mismatch_overrides : forall a b,
  (forall l l', a = TArr l -> b = TArr l' -> False) -> (forall l l', a = TTab l -> b = TTab l' -> False) ->
  merge a b = b.
Proof. exact merge_kind_mismatch. Qed.
Print Assumptions C16_merge_kind_mismatch_overrides.

Theorem C16_merge_arrays : forall a c,
  merge (TArr a) (TArr c) = if has_reset_marker c then TArr (tl c) else TArr (a ++ c).
Proof. exact merge_arrays_spec. Qed.
Print Assumptions C16_merge_arrays.

Theorem C16_merge_tables : forall b c k, sorted_keys c = true ->
  tv_get k (merge (TTab b) (TTab c)) =
  match tab_get k c with
  | Some cv => Some (match tab_get k b with Some bv => merge bv cv | None => cv end)
  | None => tab_get k b
  end.
Proof. exact merge_tables_spec. Qed.
Print Assumptions C16_merge_tables.

Theorem C16_merge_keeps_documents : forall a b, is_doc a = true -> is_doc b = true -> is_doc (merge a b) = true.
Proof. exact merge_doc. Qed.
Print Assumptions C16_merge_keeps_documents.

(* ---- why stripping at every level equals stripping once *)
Theorem C16_strip_commutes : forall b a, valid a = true -> strip (merge (strip a) b) = strip (merge a b).
Proof. exact strip_commutes. Qed.
Print Assumptions C16_strip_commutes.

(* validate_reset_positions accepts exactly the values whose markers sit in first positions *)
Theorem C16_validate_is_valid : forall v p, validate v p = None <-> valid v = true.
Proof. exact validate_valid. Qed.
Print Assumptions C16_validate_is_valid.

(* merging well-formed members gives a well-formed value: with the member validated before the
   merge (fix D25) nothing can be hidden from the validation *)
Theorem C16_merge_valid : forall b a, valid a = true -> valid b = true -> valid (merge a b) = true.
Proof. exact merge_valid. Qed.
Print Assumptions C16_merge_valid.

(* ---- no marker reaches the effective configuration *)
Theorem C16_no_marker_survives : forall fs path no_extends r pu,
  load_top fs path no_extends = Ok (r, pu) -> has_any r = false.
Proof. exact t_no_marker_survives. Qed.
Print Assumptions C16_no_marker_survives.

(* ---- a member with a marker anywhere but first makes resolution fail (full statement since
   fixes/D25-validate-member-before-merge.patch). rm_ext: the inheritance keys themselves are
   dropped before the test. *)
Theorem C16_misplaced_marker_rejected : forall fs, presets_plain fs -> forall path v ch m,
  fs_read fs path = RdOk v -> has_key K_extends v = true ->
  chain_of (norm_fs fs) (norm_alias v) (Some path) ch -> In (Mem m) ch -> valid (rm_ext m) = false ->
  forall rp, load_top fs path false <> Ok rp.
Proof. exact t_misplaced_rejected. Qed.
Print Assumptions C16_misplaced_marker_rejected.

Theorem C16_misplaced_marker_rejected_single_file : forall fs path v no_extends,
  fs_read fs path = RdOk v -> (negb no_extends && has_key K_extends v) = false -> valid v = false ->
  forall rp, load_top fs path no_extends <> Ok rp.
Proof. exact t_single_misplaced_rejected. Qed.
Print Assumptions C16_misplaced_marker_rejected_single_file.

(* D25 as it was: the merge consumes the first marker, so validating the MERGED value (all the code
   did before the fix) accepts the child [$reset; $reset; c1]; the child itself is not valid *)
Example C16_d25_merged_value_hides_marker :
  let base := TTab [(k_exclude, TArr [TStr s_p1])] in
  let child := TTab [(k_exclude, TArr [TStr RESET; TStr RESET; TStr s_c1])] in
  valid child = false /\ valid (merge base child) = true /\
  strip (merge base child) = TTab [(k_exclude, TArr [TStr s_c1])].
Proof. vm_compute. auto. Qed.
Print Assumptions C16_d25_merged_value_hides_marker.

(* ... and the repaired resolver rejects it *)
Example C16_d25_rejected_now : load_top world_d25 fA false = Err (EReset k_exclude 1).
Proof. vm_compute. reflexivity. Qed.
Print Assumptions C16_d25_rejected_now.

(* ---- fixes D66 / D68: an inheritance key that is present but not a string (extends = [..],
   extends_sha256 = 12345) in ANY file / remote member of the chain makes resolution fail; before
   the fixes the key was dropped silently (the base ignored, the remote content unverified) *)
Theorem C16_malformed_inheritance_key_rejected : forall fs, presets_plain fs -> forall path v ch m,
  fs_read fs path = RdOk v -> has_key K_extends v = true ->
  chain_of (norm_fs fs) (norm_alias v) (Some path) ch -> In (Mem m) ch -> bad_key m <> None ->
  forall rp, load_top fs path false <> Ok rp.
Proof. exact t_bad_key_rejected. Qed.
Print Assumptions C16_malformed_inheritance_key_rejected.

(* ... in the leaf the error names the key (extends before the pin) *)
Theorem C16_malformed_key_in_leaf_names_key : forall fs path v key k,
  fs_read fs path = RdOk v -> fs_canon fs path = Some key -> has_key K_extends v = true ->
  bad_key v = Some k -> load_top fs path false = Err (EBadKey k).
Proof. exact t_bad_leaf. Qed.
Print Assumptions C16_malformed_key_in_leaf_names_key.

Theorem C16_every_ok_member_has_string_keys : forall fs, presets_plain fs -> forall fuel v bp vis d r pu,
  resolve_val fs fuel v bp vis d = Ok (r, pu) ->
  exists ch, chain_of fs v bp ch /\ Forall member_ok ch.
Proof. exact resolve_members_ok. Qed.
Print Assumptions C16_every_ok_member_has_string_keys.

Example C16_bad_extends_rejected :
  load_top world_bad_extends fA false = Err (EBadKey K_extends) /\
  load_top world_bad_pin fA false = Err (EBadKey K_sha) /\
  load_top world_bad_extends_in_base fA false = Err (EBadKey K_extends).
Proof. vm_compute. auto. Qed.
Print Assumptions C16_bad_extends_rejected.

(* ---- fix D67: aliased keys. Inside the structure table of a member the alias is renamed to the
   canonical key unless both spellings are present; nothing else changes; the inheritance keys are
   not touched; renaming twice is renaming once *)
Theorem C16_alias_renamed_to_canonical : forall s,
  tab_get K_deny_files (norm_tab s) =
  match tab_get K_deny_files s with Some x => Some x | None => tab_get K_deny_alias s end.
Proof. exact norm_tab_canonical. Qed.
Print Assumptions C16_alias_renamed_to_canonical.

Theorem C16_alias_key_gone : forall s, tab_get K_deny_files s = None -> tab_get K_deny_alias (norm_tab s) = None.
Proof. exact norm_tab_alias_gone. Qed.
Print Assumptions C16_alias_key_gone.

Theorem C16_alias_other_keys_kept : forall s k, str_eqb k K_deny_files = false -> str_eqb k K_deny_alias = false ->
  tab_get k (norm_tab s) = tab_get k s.
Proof. exact norm_tab_other. Qed.
Print Assumptions C16_alias_other_keys_kept.

Theorem C16_alias_idempotent : forall s, norm_tab (norm_tab s) = norm_tab s.
Proof. exact norm_tab_idem. Qed.
Print Assumptions C16_alias_idempotent.

Theorem C16_alias_keeps_other_tables : forall k v, str_eqb k K_structure = false ->
  tv_get k (norm_alias v) = tv_get k v.
Proof. exact tv_get_norm_other. Qed.
Print Assumptions C16_alias_keeps_other_tables.

(* the witness of D67: base [structure] deny_file_patterns = [*.bak], leaf [structure] deny_files =
   [*.tmp]: the chain folds to deny_files = [*.bak, *.tmp] (before the fix the merged table carried
   both keys and the typed parse failed with a duplicate field) *)
Example C16_alias_chain_folds :
  load_top world_alias fA false
  = Ok (TTab [(K_structure, TTab [(K_deny_files, TArr [TStr s_bak; TStr s_tmp])])], None).
Proof. vm_compute. reflexivity. Qed.
Print Assumptions C16_alias_chain_folds.

(* ---- a cycle or a chain deeper than MAX is an error that names the chain: the canonical keys
   from the leaf on, ending (cycle) with the key met twice; (depth) exactly MAX + 1 members *)
Theorem C16_cycle_or_depth_names_chain : forall fs path v key,
  fs_read fs path = RdOk v -> fs_canon fs path = Some key ->
  (forall ch, load_top fs path false = Err (ECircular ch) ->
     exists suf k, ch = key :: suf ++ [k] /\ In k (key :: suf)) /\
  (forall dd ch, load_top fs path false = Err (ETooDeep dd ch) ->
     dd = MAX + 1 /\ exists suf, ch = key :: suf /\ N.of_nat (length ch) = MAX + 1).
Proof. exact t_names_chain. Qed.
Print Assumptions C16_cycle_or_depth_names_chain.

(* ---- --no-extends uses the leaf alone: the answer is this expression of the leaf's own value *)
Theorem C16_no_extends_is_leaf : forall fs path,
  load_top fs path true =
  match fs_read fs path with
  | RdMissing => Err (EFileAccess path)
  | RdSyntax => Err (ESyntax path)
  | RdOk v => if has_any v then bind (finalize v) (fun r => Ok (r, None)) else Ok (v, None)
  end.
Proof. exact t_no_extends_is_leaf. Qed.
Print Assumptions C16_no_extends_is_leaf.

Theorem C16_no_extends_ignores_other_files : forall fs fs' path,
  fs_read fs path = fs_read fs' path -> load_top fs path true = load_top fs' path true.
Proof. exact t_no_extends_local. Qed.
Print Assumptions C16_no_extends_ignores_other_files.

(* ---- a single file holding the effective value resolves to that value (any file system, with
   or without --no-extends) *)
Theorem C16_flatten_equivalent : forall fs path r pu,
  load_top fs path false = Ok (r, pu) ->
  forall fs' p' no_extends, fs_read fs' p' = RdOk r -> load_top fs' p' no_extends = Ok (r, None).
Proof. exact t_flatten_equivalent. Qed.
Print Assumptions C16_flatten_equivalent.

(* ---- tie to the crate's data (Gen_Config.v is regenerated from the built crate on every run) *)
Theorem C16_max_is_the_crates : MAX = gen_max_extends_depth.
Proof. reflexivity. Qed.
Print Assumptions C16_max_is_the_crates.

(* the built-in presets carry no inheritance keys and no markers and are documents, so
   [presets_plain] holds of the real preset table (finite domain: the five presets) *)
Theorem C16_builtin_presets_plain :
  forallb (fun nv => negb (has_key K_extends (snd nv)) && negb (has_key K_sha (snd nv))
                     && negb (has_any (snd nv)) && is_doc (snd nv)) gen_presets = true.
Proof. vm_compute. reflexivity. Qed.
Print Assumptions C16_builtin_presets_plain.

Theorem C16_plain_when_no_keys : forall v,
  has_key K_extends v = false -> has_key K_sha v = false -> rm_ext v = v.
Proof. exact rm_ext_absent. Qed.
Print Assumptions C16_plain_when_no_keys.

(* ---- non-vacuity: a three-file chain with a reset in the middle, a cycle, a chain of 12 and of 11 *)
Example C16_nonvacuous_chain :
  load_top world3 fA false
  = Ok (TTab [(k_exclude, TArr [TStr [98]; TStr s_c1]); (k_max, TInt 1)], None).
Proof. vm_compute. reflexivity. Qed.
Print Assumptions C16_nonvacuous_chain.

Example C16_nonvacuous_cycle : load_top world_cycle fA false = Err (ECircular [fA; fB; fA]).
Proof. vm_compute. reflexivity. Qed.
Print Assumptions C16_nonvacuous_cycle.

Example C16_nonvacuous_depth :
  load_top (mkfs (long_chain 11 200) []) [200] false
  = Err (ETooDeep 11 [[200];[201];[202];[203];[204];[205];[206];[207];[208];[209];[210]]) /\
  exists r, load_top (mkfs (long_chain 10 200) []) [200] false = Ok r.
Proof. split; [vm_compute; reflexivity | eexists; vm_compute; reflexivity]. Qed.
Print Assumptions C16_nonvacuous_depth.
