(* Config/Examples_C16.v -- small concrete worlds for the non-vacuity examples of Properties_C16
   (definitions only). *)
From Coq Require Import NArith ZArith List Bool.
From SG Require Import Config.Toml Config.Merge Config.Extends.
Import ListNotations.
Open Scope N_scope.

(* a file system from an association list: path -> (canonical key, value) *)
Fixpoint assoc {A : Type} (k : str) (l : list (str * A)) : option A :=
  match l with [] => None | (k', a) :: t => if str_eqb k k' then Some a else assoc k t end.

Definition mkfs (files : list (str * (str * tv))) (presets : list (str * tv)) : fsys :=
  {| fs_read := fun p => match assoc p files with Some (_, v) => RdOk v | None => RdMissing end;
     fs_canon := fun p => match assoc p files with Some (c, _) => Some c | None => None end;
     fs_preset := fun n => assoc n presets;
     fs_remote := fun _ _ => FErr 1 |}.

Definition k_exclude : str := [101].          (* e *)
Definition k_max : str := [109].              (* m *)
Definition s_p1 : str := [112;49].            (* p1 *)
Definition s_c1 : str := [99;49].             (* c1 *)

(* file names: a single letter *)
Definition fA : str := [97].  Definition fB : str := [98].  Definition fC : str := [99].

Definition doc (ext : option str) (excl : list tv) (m : Z) : tv :=
  TTab (tab_set K_extends (match ext with Some e => TStr e | None => TInt 0 end)
          [(k_exclude, TArr excl); (k_max, TInt m)]).

Definition doc_noext (excl : list tv) (m : Z) : tv := TTab [(k_exclude, TArr excl); (k_max, TInt m)].

(* A extends B extends C *)
Definition world3 : fsys :=
  mkfs [ (fA, (fA, doc (Some fB) [TStr s_c1] 1));
         (fB, (fB, doc (Some fC) [TStr RESET; TStr [98]] 2));
         (fC, (fC, doc_noext [TStr s_p1] 3)) ] [].

(* A extends B extends A *)
Definition world_cycle : fsys :=
  mkfs [ (fA, (fA, doc (Some fB) [] 1)); (fB, (fB, doc (Some fA) [] 2)) ] [].

(* the D25 witness: child [$reset; $reset; c1] over a parent that has the key *)
Definition world_d25 : fsys :=
  mkfs [ (fA, (fA, doc (Some fB) [TStr RESET; TStr RESET; TStr s_c1] 1));
         (fB, (fB, doc_noext [TStr s_p1] 2)) ] [].

(* a chain of n+1 files: file i (the one-character name i) extends file i+1 *)
Fixpoint long_chain (n : nat) (i : N) : list (str * (str * tv)) :=
  match n with
  | O => [([i], ([i], doc_noext [] 0))]
  | S n' => ([i], ([i], doc (Some [i + 1]) [] 0)) :: long_chain n' (i + 1)
  end.

(* fix D67: the base spells structure.deny_files by its alias, the leaf by its canonical name *)
Definition s_bak : str := [42;46;98;97;107].      (* *.bak *)
Definition s_tmp : str := [42;46;116;109;112].    (* *.tmp *)
Definition world_alias : fsys :=
  mkfs [ (fA, (fA, TTab [(K_extends, TStr fB); (K_structure, TTab [(K_deny_files, TArr [TStr s_tmp])])]));
         (fB, (fB, TTab [(K_structure, TTab [(K_deny_alias, TArr [TStr s_bak])])])) ] [].

(* fixes D66 / D68: inheritance keys that are present but not strings *)
Definition world_bad_extends : fsys :=
  mkfs [ (fA, (fA, TTab [(K_extends, TArr [TStr fB])])); (fB, (fB, doc_noext [] 2)) ] [].
Definition world_bad_pin : fsys :=
  mkfs [ (fA, (fA, TTab [(K_extends, TStr fB); (K_sha, TInt 12345)])); (fB, (fB, doc_noext [] 2)) ] [].
Definition world_bad_extends_in_base : fsys :=
  mkfs [ (fA, (fA, doc (Some fB) [] 1)); (fB, (fB, TTab [(K_extends, TBool true)])) ] [].
