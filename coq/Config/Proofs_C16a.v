(* Config/Proofs_C16a.v -- lemmas about Config/Merge.v: validate vs valid, strip, merge. *)
From Coq Require Import NArith ZArith List Bool Lia.
From SG Require Import Config.Toml Config.TomlFacts Config.Merge.
Import ListNotations.
Open Scope N_scope.

Ltac inv H := inversion H; subst; clear H.

Definition sm (l : list (str * tv)) : list (str * tv) := map (fun kv => (fst kv, strip (snd kv))) l.

Definition strip_list (l : list tv) : list tv :=
  match l with
  | [] => []
  | x :: t => if is_reset_element x then map strip t else strip x :: map strip t
  end.

Lemma strip_arr : forall l, strip (TArr l) = TArr (strip_list l).
Proof. destruct l; reflexivity. Qed.

Lemma strip_tab : forall l, strip (TTab l) = TTab (sm l).
Proof. reflexivity. Qed.

(* ---- tables *)
Lemma tab_get_sm : forall k l, tab_get k (sm l) = option_map strip (tab_get k l).
Proof.
  induction l as [|[k' v] t IH]; cbn; auto. destruct (str_eqb k k'); cbn; auto.
Qed.

Lemma sm_tab_set : forall k v l, sm (tab_set k v l) = tab_set k (strip v) (sm l).
Proof.
  unfold sm. induction l as [|[k' v'] t IH]; cbn; auto.
  destruct (str_cmp k k'); cbn; auto. rewrite IH. reflexivity.
Qed.

Lemma sm_tab_remove : forall k l, sm (tab_remove k l) = tab_remove k (sm l).
Proof.
  unfold sm. induction l as [|[k' v'] t IH]; cbn; auto.
  destruct (str_eqb k k'); cbn; auto. rewrite IH. reflexivity.
Qed.

Lemma tab_get_in : forall k l v, tab_get k l = Some v -> In (k, v) l.
Proof.
  induction l as [|[k' v'] t IH]; cbn; intros v Hg; try discriminate.
  destruct (str_eqb k k') eqn:E.
  - inv Hg. apply str_eqb_eq in E. subst. auto.
  - auto.
Qed.

Lemma forallb_tab_set : forall (P : tv -> bool) k v l,
  P v = true -> forallb (fun kv => P (snd kv)) l = true ->
  forallb (fun kv => P (snd kv)) (tab_set k v l) = true.
Proof.
  induction l as [|[k' v'] t IH]; cbn; intros Hv Hl.
  - rewrite Hv. reflexivity.
  - apply andb_true_iff in Hl. destruct Hl as [H1 H2].
    destruct (str_cmp k k'); cbn; rewrite ?Hv, ?H1, ?H2; cbn; auto.
Qed.

Lemma forallb_tab_remove : forall (P : tv -> bool) k l,
  forallb (fun kv => P (snd kv)) l = true ->
  forallb (fun kv => P (snd kv)) (tab_remove k l) = true.
Proof.
  induction l as [|[k' v'] t IH]; cbn; intros Hl; auto.
  apply andb_true_iff in Hl. destruct Hl as [H1 H2].
  destruct (str_eqb k k'); cbn; rewrite ?H1; auto.
Qed.

(* ---- markers and strip *)
Lemma is_reset_strip : forall v, is_reset_element (strip v) = is_reset_element v.
Proof.
  destruct v; try reflexivity.
  - rewrite strip_tab. cbn. rewrite !tab_get_sm.
    destruct (tab_get K_pattern l) as [x|]; cbn.
    + destruct x; cbn; auto.
    + destruct (tab_get K_scope l) as [x|]; cbn; auto.
      destruct x; cbn; auto.
Qed.

(* ---- validate = None  <->  valid *)
Lemma validate_valid : forall v p, validate v p = None <-> valid v = true.
Proof.
  induction v as [s|z|b|b|s|l IH|l IH] using tv_ind'; intros p; cbn [validate valid];
    try (split; reflexivity).
  - (* arrays *)
    assert (G : forall t i, 0 < i -> Forall (fun x => forall p, validate x p = None <-> valid x = true) t ->
              (find_map_i (fun i x => if (0 <? i) && is_reset_element x then Some (p, i) else validate x p) i t = None
               <-> forallb (fun y => negb (is_reset_element y) && valid y) t = true)).
    { induction t as [|y t IHt]; intros i Hi Hf; cbn; [split; reflexivity|].
      inv Hf. assert (Hlt : (0 <? i) = true) by (apply N.ltb_lt; exact Hi). rewrite Hlt. cbn.
      destruct (is_reset_element y); cbn.
      - split; discriminate.
      - destruct (validate y p) eqn:Ev.
        + split; try discriminate. intros Hb. apply andb_true_iff in Hb. destruct Hb as [Hb _].
          apply (H1 p) in Hb. congruence.
        + apply (H1 p) in Ev. rewrite Ev. cbn. apply IHt; auto. lia. }
    destruct l as [|x t]; [split; reflexivity|]. inv IH. cbn.
    destruct (validate x p) eqn:Ev.
    + split; try discriminate. intros Hb. apply andb_true_iff in Hb. destruct Hb as [Hb _].
      apply (H1 p) in Hb. congruence.
    + apply (H1 p) in Ev. rewrite Ev. cbn. apply G; auto. lia.
  - (* tables *)
    induction l as [|[k x] t IHt]; cbn; [split; reflexivity|]. inv IH. cbn in H1.
    destruct (validate x (child_path p k)) eqn:Ev.
    + split; try discriminate. intros Hb. apply andb_true_iff in Hb. destruct Hb as [Hb _].
      apply (H1 (child_path p k)) in Hb. congruence.
    + apply (H1 (child_path p k)) in Ev. rewrite Ev. cbn. apply IHt; auto.
Qed.

(* ---- valid values are clean after strip; clean values are fixed by strip *)
Lemma valid_strip_clean : forall v, valid v = true -> has_any (strip v) = false.
Proof.
  induction v as [s|z|b|b|s|l IH|l IH] using tv_ind'; intros Hv; try reflexivity.
  - rewrite strip_arr. cbn [has_any]. destruct l as [|x t]; [reflexivity|].
    cbn [valid] in Hv. apply andb_true_iff in Hv. destruct Hv as [Hx Ht]. inv IH.
    assert (Gt : existsb (fun y => is_reset_element y || has_any y) (map strip t) = false).
    { clear Hx H1. induction t as [|y t IHt]; cbn; auto. inv H2. cbn in Ht.
      apply andb_true_iff in Ht. destruct Ht as [Hy Ht]. apply andb_true_iff in Hy. destruct Hy as [Hr Hy].
      rewrite is_reset_strip. apply negb_true_iff in Hr. rewrite Hr. rewrite (H1 Hy). cbn. auto. }
    cbn [strip_list]. destruct (is_reset_element x) eqn:Er; [exact Gt|].
    cbn. rewrite is_reset_strip, Er, (H1 Hx). cbn. exact Gt.
  - rewrite strip_tab. cbn [has_any]. cbn [valid] in Hv.
    induction l as [|[k x] t IHt]; cbn; auto. inv IH. cbn in Hv, H1.
    apply andb_true_iff in Hv. destruct Hv as [Hx Ht]. rewrite (H1 Hx). cbn. auto.
Qed.

Lemma clean_strip_id : forall v, has_any v = false -> strip v = v.
Proof.
  induction v as [s|z|b|b|s|l IH|l IH] using tv_ind'; intros Hc; try reflexivity.
  - rewrite strip_arr. f_equal. cbn [has_any] in Hc.
    assert (G : forall t, Forall (fun x => has_any x = false -> strip x = x) t ->
                existsb (fun y => is_reset_element y || has_any y) t = false -> map strip t = t).
    { induction t as [|y t IHt]; intros Hf He; cbn; auto. inv Hf. cbn in He.
      apply orb_false_iff in He. destruct He as [Hy Ht]. apply orb_false_iff in Hy. destruct Hy as [_ Hy].
      rewrite (H1 Hy). f_equal. auto. }
    destruct l as [|x t]; [reflexivity|]. cbn in Hc.
    apply orb_false_iff in Hc. destruct Hc as [Hx Ht]. apply orb_false_iff in Hx. destruct Hx as [Hr Hx].
    inv IH. cbn [strip_list]. rewrite Hr. rewrite (H1 Hx). f_equal. apply G; auto.
  - rewrite strip_tab. f_equal. cbn [has_any] in Hc.
    induction l as [|[k x] t IHt]; cbn; auto. inv IH. cbn in Hc, H1.
    apply orb_false_iff in Hc. destruct Hc as [Hx Ht]. rewrite (H1 Hx). f_equal. auto.
Qed.

Lemma strip_idem : forall v, valid v = true -> strip (strip v) = strip v.
Proof. intros. apply clean_strip_id. apply valid_strip_clean. assumption. Qed.

Lemma clean_valid : forall v, has_any v = false -> valid v = true.
Proof.
  induction v as [s|z|b|b|s|l IH|l IH] using tv_ind'; intros Hc; try reflexivity.
  - cbn [has_any] in Hc. cbn [valid]. destruct l as [|x t]; auto. cbn in Hc.
    apply orb_false_iff in Hc. destruct Hc as [Hx Ht]. apply orb_false_iff in Hx. destruct Hx as [Hr Hx].
    inv IH. rewrite (H1 Hx). cbn.
    clear H1 Hr Hx. induction t as [|y t IHt]; cbn; auto. inv H2. cbn in Ht.
    apply orb_false_iff in Ht. destruct Ht as [Hy Ht]. apply orb_false_iff in Hy. destruct Hy as [Hr Hy].
    rewrite Hr, (H1 Hy). cbn. auto.
  - cbn [has_any] in Hc. cbn [valid].
    induction l as [|[k x] t IHt]; cbn; auto. inv IH. cbn in Hc, H1.
    apply orb_false_iff in Hc. destruct Hc as [Hx Ht]. rewrite (H1 Hx). cbn. auto.
Qed.

Lemma has_reset_marker_false_strip_list : forall l,
  has_reset_marker l = false -> strip_list l = map strip l.
Proof. destruct l as [|x t]; cbn; auto. intros ->. reflexivity. Qed.

Lemma valid_tail : forall x t, valid (TArr (x :: t)) = true ->
  valid x = true /\ forallb (fun y => negb (is_reset_element y) && valid y) t = true.
Proof. intros x t Hv. cbn in Hv. apply andb_true_iff in Hv. exact Hv. Qed.

Lemma map_strip_idem : forall t,
  forallb (fun y => negb (is_reset_element y) && valid y) t = true ->
  map strip (map strip t) = map strip t.
Proof.
  induction t as [|y t IH]; cbn; auto. intros Hb.
  apply andb_true_iff in Hb. destruct Hb as [Hy Ht]. apply andb_true_iff in Hy. destruct Hy as [_ Hy].
  rewrite strip_idem by assumption. f_equal. auto.
Qed.

(* the array half of strip_commutes *)
Lemma strip_list_app : forall l c,
  valid (TArr l) = true -> has_reset_marker c = false ->
  strip_list (strip_list l ++ c) = strip_list (l ++ c).
Proof.
  intros l c Hv Hc. destruct l as [|x t]; [reflexivity|].
  apply valid_tail in Hv. destruct Hv as [Hx Ht].
  cbn [strip_list app]. destruct (is_reset_element x) eqn:Er.
  - rewrite map_app. destruct t as [|y t'].
    + cbn. apply has_reset_marker_false_strip_list. assumption.
    + cbn [map app strip_list]. rewrite is_reset_strip.
      cbn in Ht. apply andb_true_iff in Ht. destruct Ht as [Hy Ht'].
      apply andb_true_iff in Hy. destruct Hy as [Hr Hy]. apply negb_true_iff in Hr. rewrite Hr.
      rewrite strip_idem by assumption. rewrite !map_app. rewrite map_strip_idem by assumption.
      cbn. reflexivity.
  - cbn [app strip_list]. rewrite is_reset_strip, Er.
    rewrite strip_idem by assumption. rewrite !map_app. rewrite map_strip_idem by assumption.
    reflexivity.
Qed.

Lemma tab_get_valid : forall k l v,
  forallb (fun kv => valid (snd kv)) l = true -> tab_get k l = Some v -> valid v = true.
Proof.
  intros k l v Hf Hg. apply tab_get_in in Hg. rewrite forallb_forall in Hf. apply (Hf _ Hg).
Qed.

Lemma sm_idem : forall l, forallb (fun kv => valid (snd kv)) l = true -> sm (sm l) = sm l.
Proof.
  unfold sm. induction l as [|[k x] t IH]; cbn; auto. intros Hb.
  apply andb_true_iff in Hb. destruct Hb as [Hx Ht]. rewrite strip_idem by assumption. f_equal. auto.
Qed.

(* C16_strip_commutes *)
Lemma strip_commutes : forall b a, valid a = true -> strip (merge (strip a) b) = strip (merge a b).
Proof.
  induction b as [s|z|b0|b0|s|c IH|c IH] using tv_ind'; intros a Ha; try reflexivity.
  - (* child array *)
    destruct a as [s|z|b0|b0|s|l|l]; try reflexivity.
    rewrite strip_arr. cbn [merge]. unfold merge_arrays.
    destruct (has_reset_marker c) eqn:Hc; [reflexivity|].
    rewrite !strip_arr. f_equal. apply strip_list_app; assumption.
  - (* child table *)
    destruct a as [s|z|b0|b0|s|l|l]; try reflexivity.
    + rewrite (strip_tab l). cbn [merge]. rewrite !strip_tab. f_equal.
      cbn [valid] in Ha.
      assert (G : forall c acc1 acc2,
                 Forall (fun kv => forall a, valid a = true -> strip (merge (strip a) (snd kv)) = strip (merge a (snd kv))) c ->
                 sm acc1 = sm acc2 ->
                 sm (merge_tab_with (fun bv cv => merge bv cv) (sm l) c acc1)
                 = sm (merge_tab_with (fun bv cv => merge bv cv) l c acc2)).
      { induction c0 as [|[k cv] t IHt]; intros acc1 acc2 Hf Hacc; cbn; auto.
        inv Hf. cbn in H1. apply IHt; auto.
        rewrite !sm_tab_set, Hacc. f_equal.
        rewrite tab_get_sm. destruct (tab_get k l) as [bv|] eqn:Eg; cbn; auto.
        apply H1. eapply tab_get_valid; [exact Ha | exact Eg]. }
      apply G; auto. apply sm_idem; assumption.
Qed.

(* merging valid values gives a valid value (this is what the D25 repair restores) *)
Lemma forallb_app_nr : forall t c,
  forallb (fun y => negb (is_reset_element y) && valid y) t = true ->
  forallb (fun y => negb (is_reset_element y) && valid y) c = true ->
  forallb (fun y => negb (is_reset_element y) && valid y) (t ++ c) = true.
Proof. intros. rewrite forallb_app. rewrite H, H0. reflexivity. Qed.

Lemma valid_no_head_all : forall c, valid (TArr c) = true -> has_reset_marker c = false ->
  forallb (fun y => negb (is_reset_element y) && valid y) c = true.
Proof.
  destruct c as [|y t]; cbn; auto. intros Hv Hr. apply andb_true_iff in Hv. destruct Hv as [Hy Ht].
  rewrite Hr, Hy, Ht. reflexivity.
Qed.

Lemma valid_tl : forall c, valid (TArr c) = true -> valid (TArr (tl c)) = true.
Proof.
  destruct c as [|y t]; cbn; auto. intros Hv. apply andb_true_iff in Hv. destruct Hv as [_ Ht].
  destruct t as [|z t']; auto. cbn in Ht. apply andb_true_iff in Ht. destruct Ht as [Hz Ht'].
  apply andb_true_iff in Hz. destruct Hz as [_ Hz]. cbn. rewrite Hz, Ht'. reflexivity.
Qed.

Lemma merge_valid : forall b a, valid a = true -> valid b = true -> valid (merge a b) = true.
Proof.
  induction b as [s|z|b0|b0|s|c IH|c IH] using tv_ind'; intros a Ha Hb; try reflexivity.
  - destruct a as [s|z|b0|b0|s|l|l]; try exact Hb.
    cbn [merge]. unfold merge_arrays. destruct (has_reset_marker c) eqn:Hc.
    + apply valid_tl. assumption.
    + destruct l as [|x t]; [exact Hb|]. apply valid_tail in Ha. destruct Ha as [Hx Ht].
      cbn [app valid]. rewrite Hx. cbn. apply forallb_app_nr; auto. apply valid_no_head_all; assumption.
  - destruct a as [s|z|b0|b0|s|l|l]; try exact Hb.
    cbn [merge valid]. cbn [valid] in Ha, Hb.
    assert (G : forall c acc,
               Forall (fun kv => forall a, valid a = true -> valid (snd kv) = true -> valid (merge a (snd kv)) = true) c ->
               forallb (fun kv => valid (snd kv)) c = true ->
               forallb (fun kv => valid (snd kv)) acc = true ->
               forallb (fun kv => valid (snd kv)) (merge_tab_with (fun bv cv => merge bv cv) l c acc) = true).
    { induction c0 as [|[k cv] t IHt]; intros acc Hf Hc Hacc; cbn; auto.
      inv Hf. cbn in Hc, H1. apply andb_true_iff in Hc. destruct Hc as [Hcv Ht].
      apply IHt; auto. apply (forallb_tab_set valid); auto.
      destruct (tab_get k l) as [bv|] eqn:Eg; auto. apply H1; auto. eapply tab_get_valid; [exact Ha | exact Eg]. }
    apply G; auto.
Qed.
