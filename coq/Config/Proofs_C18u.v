(* Config/Proofs_C18u.v -- lemmas about histories over several URLs (Config/RemoteUrls.v). *)
From Coq Require Import NArith List Bool.
From SG Require Import Config.Toml Config.TomlFacts Config.Remote Config.RemoteUrls Config.Proofs_C18.
Import ListNotations.
Open Scope N_scope.

Lemma dir_get_del_same : forall u d, dir_get u (dir_del u d) = None.
Proof.
  intros u d. induction d as [|[k e] t IH]; cbn [dir_del dir_get]; auto.
  destruct (str_eqb k u) eqn:E; auto. cbn [dir_get]. rewrite E. exact IH.
Qed.

Lemma dir_get_del_other : forall u v d, str_eqb u v = false -> dir_get v (dir_del u d) = dir_get v d.
Proof.
  intros u v d Huv. induction d as [|[k e] t IH]; cbn [dir_del dir_get]; auto.
  destruct (str_eqb k u) eqn:E.
  - apply str_eqb_eq in E. subst k. rewrite Huv. exact IH.
  - cbn [dir_get]. destruct (str_eqb k v); auto.
Qed.

Lemma dir_get_set_same : forall u c d, dir_get u (dir_set u c d) = c.
Proof.
  intros u c d. destruct c as [e|]; cbn [dir_set dir_get].
  - rewrite str_eqb_refl. reflexivity.
  - apply dir_get_del_same.
Qed.

Lemma dir_get_set_other : forall u v c d, str_eqb u v = false -> dir_get v (dir_set u c d) = dir_get v d.
Proof.
  intros u v c d Huv. destruct c as [e|]; cbn [dir_set dir_get].
  - rewrite Huv. apply dir_get_del_other; auto.
  - apply dir_get_del_other; auto.
Qed.

Section U.
  Variable H : str -> str.

  (* a fetch of URL u leaves the entry of every other URL alone *)
  Lemma other_urls_untouched : forall p now d u v ex srv o d' n,
    u <> v -> fetch_url H p now d u ex srv = (o, d', n) -> dir_get v d' = dir_get v d.
  Proof.
    intros p now d u v ex srv o d' n Hne Hf. unfold fetch_url in Hf.
    destruct (fetch H p now (dir_get u d) ex srv) as [[o1 c1] n1]. inversion Hf; subst.
    apply dir_get_set_other. apply str_eqb_neq. exact Hne.
  Qed.

  (* ... and is Remote.fetch on the entry of u: the entries of other URLs have no influence *)
  Lemma fetch_url_is_fetch_on_own_entry : forall p now d u ex srv,
    fetch_url H p now d u ex srv =
      (fst (fst (fetch H p now (dir_get u d) ex srv)),
       dir_set u (snd (fst (fetch H p now (dir_get u d) ex srv))) d,
       snd (fetch H p now (dir_get u d) ex srv)) /\
    dir_get u (snd (fst (fetch_url H p now d u ex srv))) = snd (fst (fetch H p now (dir_get u d) ex srv)).
  Proof.
    intros. unfold fetch_url. destruct (fetch H p now (dir_get u d) ex srv) as [[o c'] n]. cbn [fst snd].
    split; auto. apply dir_get_set_same.
  Qed.

  Lemma own_entry_only : forall p now d1 d2 u ex srv,
    dir_get u d1 = dir_get u d2 ->
    fst (fst (fetch_url H p now d1 u ex srv)) = fst (fst (fetch_url H p now d2 u ex srv)) /\
    snd (fetch_url H p now d1 u ex srv) = snd (fetch_url H p now d2 u ex srv) /\
    dir_get u (snd (fst (fetch_url H p now d1 u ex srv))) = dir_get u (snd (fst (fetch_url H p now d2 u ex srv))).
  Proof.
    intros p now d1 d2 u ex srv E. unfold fetch_url. rewrite E.
    destruct (fetch H p now (dir_get u d2) ex srv) as [[o c'] n]. cbn [fst snd].
    repeat split. rewrite !dir_get_set_same. reflexivity.
  Qed.

  (* offline on a URL that has no entry: cache miss, no request, whatever other URLs have cached *)
  Lemma offline_unfetched_url_misses : forall now d u ex srv,
    dir_get u d = None ->
    exists d', fetch_url H Offline now d u ex srv = (OMiss, d', 0) /\ forall v, dir_get v d' = dir_get v d.
  Proof.
    intros now d u ex srv E. unfold fetch_url. rewrite E. cbn.
    exists (dir_del u d). split; auto. intros v.
    destruct (str_eqb u v) eqn:Euv.
    - apply str_eqb_eq in Euv. subst v. rewrite dir_get_del_same. auto.
    - apply dir_get_del_other; auto.
  Qed.

  Lemma noroot_policies : forall now ex srv,
    fetch_noroot H Offline now ex srv = (OMiss, 0) /\
    snd (fetch_noroot H Normal now ex srv) = 1 /\ snd (fetch_noroot H Refresh now ex srv) = 1 /\
    fetch_noroot H Normal now ex srv = fetch_noroot H Refresh now ex srv.
  Proof.
    intros now ex srv. unfold fetch_noroot, fetch. cbn [read_cache policy_eqb].
    repeat split; unfold fetch_net; destruct srv; try destruct ex; try destruct (str_eqb _ _); reflexivity.
  Qed.

  (* the history of one URL inside a history over several URLs is the single-URL history of its own steps *)
  Lemma run_urls_projects : forall u steps d,
    answers_of u steps (fst (run_urls H steps d)) = fst (run H (steps_of u steps) (dir_get u d)) /\
    dir_get u (snd (run_urls H steps d)) = snd (run H (steps_of u steps) (dir_get u d)).
  Proof.
    intros u steps. induction steps as [|s t IH]; intros d.
    - cbn. auto.
    - cbn [run_urls]. unfold run_ustep, fetch_url.
      destruct (fetch H (st_policy (us_step s)) (st_now (us_step s)) (dir_get (us_url s) d)
                      (st_expected (us_step s)) (st_server (us_step s))) as [[o c'] n] eqn:Ef.
      specialize (IH (dir_set (us_url s) c' d)).
      destruct (run_urls H t (dir_set (us_url s) c' d)) as [os d''] eqn:Er.
      cbn [fst snd answers_of] in *. unfold steps_of. cbn [filter].
      destruct (on_url u s) eqn:Eon; unfold on_url in Eon.
      + apply str_eqb_eq in Eon. subst u. cbn [map run]. unfold run_step.
        rewrite Ef. rewrite dir_get_set_same in IH.
        fold (steps_of (us_url s) t). destruct IH as [IH1 IH2].
        destruct (run H (steps_of (us_url s) t) c') as [os2 c2] eqn:Er2. cbn [fst snd] in *.
        split; congruence.
      + rewrite dir_get_set_other in IH by exact Eon. exact IH.
  Qed.
End U.
