(* Config/Proofs_C18.v -- lemmas about Config/Remote.v for an arbitrary hash function H. *)
From Coq Require Import NArith List Bool Lia.
From SG Require Import Config.Toml Config.TomlFacts Config.Remote.
Import ListNotations.
Open Scope N_scope.

Ltac crush_fetch :=
  repeat match goal with
         | |- context [if ?x then _ else _] => destruct x eqn:?
         | |- context [match ?x with _ => _ end] => destruct x eqn:?
         end.

Ltac inv H := inversion H; subst; clear H.

Section P.
  Variable H : str -> str.

  Lemma within_ttl_spec : forall now e,
    within_ttl now e = true <-> c_mtime e <= now /\ now < c_mtime e + TTL.
  Proof.
    intros now e. unfold within_ttl. rewrite andb_true_iff, N.leb_le, N.ltb_lt. lia.
  Qed.

  Lemma fetch_net_integrity : forall now c h srv s c' n,
    fetch_net H now c (Some h) srv = (OContent s, c', n) -> H s = h.
  Proof.
    unfold fetch_net. intros now c h srv s c' n. crush_fetch; intros E; inv E.
    apply str_eqb_eq. assumption.
  Qed.

  Lemma integrity : forall p now c h srv s c' n,
    fetch H p now c (Some h) srv = (OContent s, c', n) -> H s = h.
  Proof.
    unfold fetch. intros p now c h srv s c' n. crush_fetch; intros E;
      first [ eapply fetch_net_integrity; eassumption | inv E; apply str_eqb_eq; assumption ].
  Qed.

  Definition hash_ok (h : str) (c : cache) : Prop :=
    exists e, c = Some e /\ readable e = true /\ H (c_body e) = h.

  Definition text_entry (now : N) (b : str) : centry := {| c_body := b; c_mtime := now; c_kind := EText |}.

  Lemma write_cache_cases : forall now c b,
    write_cache now c b = c \/ write_cache now c b = Some (text_entry now b).
  Proof.
    intros now c b. unfold write_cache, text_entry. destruct c as [e|]; [destruct (is_dir e)|]; auto.
  Qed.

  Lemma fetch_net_never_caches_mismatch : forall now c h srv o c' n,
    fetch_net H now c (Some h) srv = (o, c', n) -> c' = c \/ hash_ok h c'.
  Proof.
    unfold fetch_net, hash_ok. intros now c h srv o c' n. crush_fetch; intros E; inv E; auto.
    destruct (write_cache_cases now c b) as [->| ->]; auto.
    right. eexists. split; [reflexivity|]. cbn. split; [reflexivity|]. apply str_eqb_eq. assumption.
  Qed.

  Lemma never_caches_mismatch : forall p now c h srv o c' n,
    fetch H p now c (Some h) srv = (o, c', n) -> c' = c \/ hash_ok h c'.
  Proof.
    unfold fetch. intros p now c h srv o c' n. crush_fetch; intros E;
      try (eapply fetch_net_never_caches_mismatch; eassumption); inv E; auto.
  Qed.

  Lemma offline_never_fetches : forall now c ex srv o c' n,
    fetch H Offline now c ex srv = (o, c', n) ->
    n = 0 /\ c' = c /\ (c = None -> o = OMiss) /\
    (forall e, c = Some e -> readable e = false -> o = OMiss).
  Proof.
    unfold fetch, read_cache, read_entry. intros now c ex srv o c' n. cbn [policy_eqb].
    destruct c as [e|]; [destruct (readable e) eqn:Hr|]; destruct ex as [h|]; crush_fetch; intros E; inv E;
      repeat split; auto; intros; try discriminate; congruence.
  Qed.

  (* an entry that exists but cannot be read (bytes that are not UTF-8, a directory) is a cache
     miss under every policy: offline fails without a request, the others go to the network *)
  Lemma unreadable_is_miss : forall now e ex srv, readable e = false ->
    fetch H Offline now (Some e) ex srv = (OMiss, Some e, 0) /\
    fetch H Normal now (Some e) ex srv = fetch_net H now (Some e) ex srv /\
    fetch H Refresh now (Some e) ex srv = fetch_net H now (Some e) ex srv.
  Proof.
    intros now e ex srv Hr. unfold fetch, read_cache, read_entry. rewrite Hr. cbn [policy_eqb].
    repeat split; destruct (within_ttl now e); reflexivity.
  Qed.

  Lemma refresh_is_net : forall now c ex srv,
    fetch H Refresh now c ex srv = fetch_net H now c ex srv.
  Proof. intros. unfold fetch. cbn. reflexivity. Qed.

  Lemma fetch_net_cache_blind : forall now c1 c2 ex srv,
    fst (fst (fetch_net H now c1 ex srv)) = fst (fst (fetch_net H now c2 ex srv)) /\
    snd (fetch_net H now c1 ex srv) = 1 /\ snd (fetch_net H now c2 ex srv) = 1.
  Proof. intros. unfold fetch_net. crush_fetch; cbn; auto. Qed.

  Lemma refresh_never_reads_cache : forall now c1 c2 ex srv,
    fst (fst (fetch H Refresh now c1 ex srv)) = fst (fst (fetch H Refresh now c2 ex srv)) /\
    snd (fetch H Refresh now c1 ex srv) = 1 /\ snd (fetch H Refresh now c2 ex srv) = 1.
  Proof. intros. rewrite !refresh_is_net. apply fetch_net_cache_blind. Qed.

  Lemma normal_respects_ttl : forall now e ex srv,
    (within_ttl now e = false ->
       fetch H Normal now (Some e) ex srv = fetch_net H now (Some e) ex srv) /\
    (within_ttl now e = true -> readable e = true -> ex = None ->
       fetch H Normal now (Some e) ex srv = (OContent (c_body e), Some e, 0)) /\
    (within_ttl now e = true -> readable e = true -> ex = Some (H (c_body e)) ->
       fetch H Normal now (Some e) ex srv = (OContent (c_body e), Some e, 0)).
  Proof.
    intros now e ex srv. unfold fetch, read_cache, read_entry. repeat split; intros Hw.
    - rewrite Hw. reflexivity.
    - intros Hr ->. rewrite Hw, Hr. reflexivity.
    - intros Hr ->. rewrite Hw, Hr. rewrite str_eqb_refl. reflexivity.
  Qed.

  Lemma fetch_net_failed_leaves_cache : forall now c ex srv o c' n,
    fetch_net H now c ex srv = (o, c', n) -> (forall s, o <> OContent s) -> c' = c.
  Proof.
    unfold fetch_net. intros now c ex srv o c' n. crush_fetch; intros E Hn; inv E; auto;
      exfalso; eapply Hn; reflexivity.
  Qed.

  Lemma failed_fetch_leaves_cache : forall p now c ex srv o c' n,
    fetch H p now c ex srv = (o, c', n) -> (forall s, o <> OContent s) -> c' = c.
  Proof.
    unfold fetch. intros p now c ex srv o c' n. crush_fetch; intros E Hn;
      try (eapply fetch_net_failed_leaves_cache; eassumption); inv E; auto.
  Qed.

  (* ---- histories *)
  Lemma sequence_inv_gen : forall h steps c outs c',
    (forall s, In s steps -> st_expected s = Some h) ->
    run H steps c = (outs, c') ->
    Forall (fun on => forall s, fst on = OContent s -> H s = h) outs /\ (c' = c \/ hash_ok h c').
  Proof.
    intros h. induction steps as [|st t IH]; intros c outs c' Hall Hrun; cbn in Hrun.
    - inv Hrun. split; auto.
    - unfold run_step in Hrun.
      destruct (fetch H (st_policy st) (st_now st) c (st_expected st) (st_server st)) as [[o c1] n] eqn:Ef.
      destruct (run H t c1) as [os c2] eqn:Er. inv Hrun.
      assert (Hex : st_expected st = Some h) by (apply Hall; left; reflexivity).
      rewrite Hex in Ef.
      destruct (IH c1 os c' (fun s Hs => Hall s (or_intror Hs)) Er) as [Hf Hc].
      split.
      + constructor; auto. cbn. intros s ->. eapply integrity. eassumption.
      + destruct Hc as [->|Hc]; auto.
        eapply never_caches_mismatch. eassumption.
  Qed.

  (* what may legitimately be trusted: the body of the initial entry when it is a text file, or a
     body some server answered in this history *)
  Definition served (c0 : cache) (steps : list step) (s : str) : Prop :=
    (exists e, c0 = Some e /\ readable e = true /\ c_body e = s) \/
    (exists st, In st steps /\ st_server st = SBody s).

  Lemma fetch_net_shape : forall now c ex srv o c' n,
    fetch_net H now c ex srv = (o, c', n) ->
    (forall s, o = OContent s -> srv = SBody s) /\
    (c' = c \/ exists b, srv = SBody b /\ c' = Some (text_entry now b)).
  Proof.
    unfold fetch_net. intros now c ex srv o c' n. crush_fetch; intros E; inv E; split; auto;
      try (intros s0 E0; inv E0; reflexivity); try (intros s0 E0; discriminate);
      (destruct (write_cache_cases now c b) as [->| ->]; [left; reflexivity | right; eexists; split; reflexivity]).
  Qed.

  Lemma read_cache_some : forall p now c b,
    read_cache p now c = Some b -> exists e, c = Some e /\ readable e = true /\ c_body e = b.
  Proof.
    unfold read_cache, read_entry. intros p now c b.
    destruct p; destruct c as [e|]; crush_fetch; intros E; inv E; eauto.
  Qed.

  Lemma fetch_shape : forall p now c ex srv o c' n,
    fetch H p now c ex srv = (o, c', n) ->
    (forall s, o = OContent s ->
       (exists e, c = Some e /\ readable e = true /\ c_body e = s) \/ srv = SBody s) /\
    (c' = c \/ exists b, srv = SBody b /\ c' = Some (text_entry now b)).
  Proof.
    unfold fetch. intros p now c ex srv o c' n.
    destruct (read_cache p now c) as [body|] eqn:Er.
    - destruct (read_cache_some _ _ _ _ Er) as [e [-> [Hr Hb]]].
      crush_fetch; intros E;
        first [ apply fetch_net_shape in E; destruct E as [E1 E2]; split; [intros s9 Hs9; right; auto|exact E2]
              | inv E; split; [ intros s0 E0; first [ discriminate | inv E0; left; eexists; split; [reflexivity | split; [exact Hr | reflexivity]] ] | auto ] ].
    - crush_fetch; intros E;
        first [ apply fetch_net_shape in E; destruct E as [E1 E2]; split; [intros s9 Hs9; right; auto|exact E2]
              | inv E; split; [ intros s0 E0; discriminate | auto ] ].
  Qed.

  (* the invariant of a history: the entry is still the initial one, or a text file holding a served body *)
  Definition entry_inv (c0 : cache) (steps : list step) (c : cache) : Prop :=
    c = c0 \/ exists e, c = Some e /\ readable e = true /\ served c0 steps (c_body e).

  Lemma sequence_served_gen : forall steps c0 c outs c',
    entry_inv c0 steps c ->
    run H steps c = (outs, c') ->
    Forall (fun on => forall s, fst on = OContent s -> served c0 steps s) outs /\
    entry_inv c0 steps c'.
  Proof.
    intros steps c0.
    assert (G : forall t c outs c',
      (forall st, In st t -> In st steps) ->
      entry_inv c0 steps c ->
      run H t c = (outs, c') ->
      Forall (fun on => forall s, fst on = OContent s -> served c0 steps s) outs /\
      entry_inv c0 steps c').
    { induction t as [|st t IH]; intros c outs c' Hsub Hc Hrun; cbn in Hrun.
      - inv Hrun. split; auto.
      - unfold run_step in Hrun.
        destruct (fetch H (st_policy st) (st_now st) c (st_expected st) (st_server st)) as [[o c1] n] eqn:Ef.
        destruct (run H t c1) as [os c2] eqn:Er. inv Hrun.
        apply fetch_shape in Ef. destruct Ef as [Ho Hc1].
        assert (Hin : In st steps) by (apply Hsub; left; reflexivity).
        assert (Hc1' : entry_inv c0 steps c1).
        { destruct Hc1 as [->|[b [Hs ->]]]; auto.
          right. eexists. split; [reflexivity|]. split; [reflexivity|]. cbn. right. eauto. }
        destruct (IH c1 os c' (fun s Hs => Hsub s (or_intror Hs)) Hc1' Er) as [Hf Hc'].
        split; auto. constructor; auto. cbn. intros s ->.
        destruct (Ho s eq_refl) as [[e [-> [Hr Hb]]]|Hs].
        + destruct Hc as [<-|[e' [E' [_ Hsv]]]].
          * left. eauto.
          * inv E'. exact Hsv.
        + right. eauto. }
    intros c outs c' Hc Hrun. eapply G; eauto.
  Qed.

  Lemma sequence_served : forall steps c0 outs c',
    run H steps c0 = (outs, c') ->
    Forall (fun on => forall s, fst on = OContent s -> served c0 steps s) outs /\
    (forall e, c' = Some e -> (readable e = false /\ c' = c0) \/ served c0 steps (c_body e)).
  Proof.
    intros steps c0 outs c' Hrun.
    destruct (sequence_served_gen steps c0 c0 outs c' (or_introl eq_refl) Hrun) as [Hf Hi].
    split; auto. intros e ->.
    destruct Hi as [E|[e' [E' [_ Hsv]]]].
    - destruct (readable e) eqn:Hr.
      + right. left. eauto.
      + left. auto.
    - inv E'. right. exact Hsv.
  Qed.

  (* ---- crashes *)
  Lemma fetch_net_content : forall now c ex srv s c' n,
    fetch_net H now c ex srv = (OContent s, c', n) ->
    srv = SBody s /\ c' = write_cache now c s /\ n = 1.
  Proof.
    unfold fetch_net. intros now c ex srv s c' n. crush_fetch; intros E; inv E; auto.
  Qed.

  Lemma fetch_one_request : forall p now c ex srv s c',
    fetch H p now c ex srv = (OContent s, c', 1) -> srv = SBody s /\ c' = write_cache now c s.
  Proof.
    unfold fetch. intros p now c ex srv s c'. crush_fetch; intros E;
      first [ apply fetch_net_content in E; destruct E as [E1 [E2 _]]; split; assumption
            | inv E ].
  Qed.

  Lemma crash_state : forall cp p now c ex srv c1,
    fetch_crash H cp p now c ex srv = Some c1 ->
    c1 = c \/ exists b, srv = SBody b /\ c1 = Some (text_entry now b).
  Proof.
    unfold fetch_crash. intros cp p now c ex srv c1.
    destruct (fetch H p now c ex srv) as [[o c'] n] eqn:Ef.
    destruct o; try discriminate.
    destruct n as [|[q|q|]]; try discriminate. intros E. inv E.
    apply fetch_one_request in Ef. destruct Ef as [Hs _].
    destruct cp; cbn; auto.
    destruct (write_cache_cases now c s) as [->| ->]; auto. right. eauto.
  Qed.

  Lemma crash_with_hash_safe : forall cp p now c ex srv c1 p2 now2 h srv2 s c2 n,
    fetch_crash H cp p now c ex srv = Some c1 ->
    fetch H p2 now2 c1 (Some h) srv2 = (OContent s, c2, n) -> H s = h.
  Proof. intros. eapply integrity. eassumption. Qed.

  (* also for the write as it was before the repair: any state it can leave is harmless when the
     later run pins the hash *)
  Lemma crash_with_hash_safe_plain : forall cp p now c ex srv c1 p2 now2 h srv2 s c2 n,
    fetch_crash_plain H cp p now c ex srv = Some c1 ->
    fetch H p2 now2 c1 (Some h) srv2 = (OContent s, c2, n) -> H s = h.
  Proof. intros. eapply integrity. eassumption. Qed.

  Lemma crash_without_hash : forall cp p now c ex srv c1 p2 now2 ex2 srv2 s c2 n,
    fetch_crash H cp p now c ex srv = Some c1 ->
    fetch H p2 now2 c1 ex2 srv2 = (OContent s, c2, n) ->
    (exists e, c = Some e /\ readable e = true /\ c_body e = s) \/ srv = SBody s \/ srv2 = SBody s.
  Proof.
    intros cp p now c ex srv c1 p2 now2 ex2 srv2 s c2 n Hc Hf.
    apply crash_state in Hc. apply fetch_shape in Hf. destruct Hf as [Ho _].
    destruct (Ho s eq_refl) as [[e [E [Hr Hb]]]|Hs]; auto.
    destruct Hc as [->|[b [Hs ->]]].
    - left. eauto.
    - inv E. cbn. auto.
  Qed.

  Lemma plain_write_refuted :
    exists cp now c srv c1 s c2,
      fetch_crash_plain H cp Normal now c None srv = Some c1 /\
      fetch H Normal (now + 10) c1 None (SFail 1) = (OContent s, c2, 0) /\
      c = None /\ srv <> SBody s.
  Proof.
    exists PAfterCreate, 1000, None, (SBody [97]), (Some {| c_body := []; c_mtime := 1000; c_kind := EText |}), [],
      (Some {| c_body := []; c_mtime := 1000; c_kind := EText |}).
    repeat split; try reflexivity. discriminate.
  Qed.
End P.
