(* Config/Merge.v -- Gallina port of src/config/merge.rs (definitions only).
   merge_toml_values, merge_arrays, has_reset_marker, is_reset_element, strip_reset_markers,
   has_any_reset_markers, validate_reset_positions.

   Table merge: the Rust loop is  for (key, child_val) in child_table: base_table.remove(&key) ...
   insert.  child_table is a BTreeMap, so every key is visited once and the lookup in the running
   table equals the lookup in the original base table; the model looks the key up in the original
   base table and writes into the running one with the sorted insertion tab_set. *)
From Coq Require Import NArith ZArith List Bool.
From SG Require Import Config.Toml.
Import ListNotations.
Open Scope N_scope.

Definition RESET : str := [36;114;101;115;101;116].             (* $reset *)
Definition K_pattern : str := [112;97;116;116;101;114;110].     (* pattern *)
Definition K_scope : str := [115;99;111;112;101].               (* scope *)

(* is_reset_element: a string equal to the marker, or a table whose pattern field (or, only when
   there is no pattern field at all, whose scope field) is a string equal to the marker *)
Definition is_reset_element (v : tv) : bool :=
  match v with
  | TStr s => str_eqb s RESET
  | TTab l =>
      match (match tab_get K_pattern l with Some x => Some x | None => tab_get K_scope l end) with
      | Some (TStr s) => str_eqb s RESET
      | _ => false
      end
  | _ => false
  end.

Definition has_reset_marker (l : list tv) : bool :=
  match l with x :: _ => is_reset_element x | [] => false end.

Definition merge_arrays (base child : list tv) : tv :=
  if has_reset_marker child then TArr (tl child) else TArr (base ++ child).

(* one pass over the child entries *)
Section MergeTab.
  Variable m : tv -> tv -> tv.
  Variable b : list (str * tv).
  Fixpoint merge_tab_with (c : list (str * tv)) (acc : list (str * tv)) : list (str * tv) :=
    match c with
    | [] => acc
    | (k, cv) :: t =>
        merge_tab_with t
          (tab_set k (match tab_get k b with Some bv => m bv cv | None => cv end) acc)
    end.
End MergeTab.

Fixpoint merge (base child : tv) {struct child} : tv :=
  match child with
  | TTab c =>
      match base with
      | TTab b =>
          TTab (merge_tab_with (fun bv cv => merge bv cv) b c b)
      | _ => child
      end
  | TArr c =>
      match base with
      | TArr b => merge_arrays b c
      | _ => child
      end
  | _ => child
  end.

(* strip_reset_markers: drop a first-position marker of every array, recursively *)
Fixpoint strip (v : tv) : tv :=
  match v with
  | TTab l => TTab (map (fun kv => (fst kv, strip (snd kv))) l)
  | TArr l =>
      TArr (match l with
            | [] => []
            | x :: t => if is_reset_element x then map strip t else strip x :: map strip t
            end)
  | _ => v
  end.

(* has_any_reset_markers: a marker at ANY position of any array *)
Fixpoint has_any (v : tv) : bool :=
  match v with
  | TTab l => existsb (fun kv => has_any (snd kv)) l
  | TArr l => existsb (fun x => is_reset_element x || has_any x) l
  | _ => false
  end.

(* validate_reset_positions: first error in traversal order (table keys ascending, array index
   ascending, the position test before the descent); the error carries the dotted array path and
   the position *)
Section FindMap.
  Context {A B : Type}.
  Variable f : A -> option B.
  Fixpoint find_map (l : list A) : option B :=
    match l with
    | [] => None
    | x :: t => match f x with Some e => Some e | None => find_map t end
    end.
End FindMap.

Section FindMapI.
  Context {A B : Type}.
  Variable f : N -> A -> option B.
  Fixpoint find_map_i (i : N) (l : list A) : option B :=
    match l with
    | [] => None
    | x :: t => match f i x with Some e => Some e | None => find_map_i (i + 1) t end
    end.
End FindMapI.

Definition child_path (path k : str) : str :=
  match path with [] => k | _ => path ++ [46] ++ k end.

Fixpoint validate (v : tv) (path : str) : option (str * N) :=
  match v with
  | TTab l => find_map (fun kv => validate (snd kv) (child_path path (fst kv))) l
  | TArr l =>
      find_map_i (fun i x => if (0 <? i) && is_reset_element x then Some (path, i)
                             else validate x path) 0 l
  | _ => None
  end.

(* path-free boolean reading of validate = None (proved equivalent in Proofs_C16) *)
Fixpoint valid (v : tv) : bool :=
  match v with
  | TTab l => forallb (fun kv => valid (snd kv)) l
  | TArr l =>
      match l with
      | [] => true
      | x :: t => valid x && forallb (fun y => negb (is_reset_element y) && valid y) t
      end
  | _ => true
  end.
