(* Config/Toml.v -- the value type of the configuration layer (toml::Value of the toml crate,
   built without preserve_order: tables are BTreeMap<String, Value>, i.e. key-sorted).
   Strings are lists of Unicode scalar values; BTreeMap order on String is byte order of the
   UTF-8 encoding, which coincides with lexicographic order on scalar values.
   Definitions only (plus the nested induction principle, which is a definition too). *)
From Coq Require Import NArith ZArith List Bool.
Import ListNotations.
Open Scope N_scope.

Definition str := list N.

Inductive tv : Type :=
| TStr (s : str)
| TInt (z : Z)
| TFloat (bits : N)          (* f64::to_bits *)
| TBool (b : bool)
| TDate (s : str)            (* datetime kept as its canonical text *)
| TArr (l : list tv)
| TTab (l : list (str * tv)) (* key-sorted association list *).

(* ---- nested induction principle *)
Section tv_ind_nested.
  Variable P : tv -> Prop.
  Hypothesis HStr : forall s, P (TStr s).
  Hypothesis HInt : forall z, P (TInt z).
  Hypothesis HFloat : forall b, P (TFloat b).
  Hypothesis HBool : forall b, P (TBool b).
  Hypothesis HDate : forall s, P (TDate s).
  Hypothesis HArr : forall l, Forall P l -> P (TArr l).
  Hypothesis HTab : forall l, Forall (fun kv => P (snd kv)) l -> P (TTab l).

  Fixpoint tv_ind' (v : tv) : P v :=
    match v with
    | TStr s => HStr s
    | TInt z => HInt z
    | TFloat b => HFloat b
    | TBool b => HBool b
    | TDate s => HDate s
    | TArr l =>
        HArr l ((fix go (l : list tv) : Forall P l :=
                   match l with
                   | [] => Forall_nil _
                   | x :: t => Forall_cons x (tv_ind' x) (go t)
                   end) l)
    | TTab l =>
        HTab l ((fix go (l : list (str * tv)) : Forall (fun kv => P (snd kv)) l :=
                   match l with
                   | [] => Forall_nil _
                   | kv :: t => Forall_cons kv (tv_ind' (snd kv)) (go t)
                   end) l)
    end.
End tv_ind_nested.

(* ---- strings *)
Fixpoint str_cmp (a b : str) : comparison :=
  match a, b with
  | [], [] => Eq
  | [], _ :: _ => Lt
  | _ :: _, [] => Gt
  | x :: a', y :: b' =>
      match N.compare x y with
      | Eq => str_cmp a' b'
      | c => c
      end
  end.

Definition str_eqb (a b : str) : bool :=
  match str_cmp a b with Eq => true | _ => false end.

Fixpoint is_prefix (p s : str) : bool :=
  match p, s with
  | [], _ => true
  | _ :: _, [] => false
  | x :: p', y :: s' => if N.eqb x y then is_prefix p' s' else false
  end.

Fixpoint drop (n : nat) (s : str) : str :=
  match n, s with
  | O, _ => s
  | S n', [] => []
  | S n', _ :: s' => drop n' s'
  end.

(* ---- tables: sorted insertion / first-match lookup / removal *)
Fixpoint tab_get (k : str) (l : list (str * tv)) : option tv :=
  match l with
  | [] => None
  | (k', v) :: t => if str_eqb k k' then Some v else tab_get k t
  end.

Fixpoint tab_set (k : str) (v : tv) (l : list (str * tv)) : list (str * tv) :=
  match l with
  | [] => [(k, v)]
  | (k', v') :: t =>
      match str_cmp k k' with
      | Lt => (k, v) :: l
      | Eq => (k, v) :: t
      | Gt => (k', v') :: tab_set k v t
      end
  end.

Fixpoint tab_remove (k : str) (l : list (str * tv)) : list (str * tv) :=
  match l with
  | [] => []
  | (k', v) :: t => if str_eqb k k' then tab_remove k t else (k', v) :: tab_remove k t
  end.

Definition map_vals (f : tv -> tv) (l : list (str * tv)) : list (str * tv) :=
  map (fun kv => (fst kv, f (snd kv))) l.

(* toml::Value::get with a string index: tables only *)
Definition tv_get (k : str) (v : tv) : option tv :=
  match v with TTab l => tab_get k l | _ => None end.

(* .and_then(Value::as_str) *)
Definition as_str (o : option tv) : option str :=
  match o with Some (TStr s) => Some s | _ => None end.

(* strictly increasing keys: the BTreeMap invariant *)
Definition keys_lt (k : str) (l : list (str * tv)) : bool :=
  match l with
  | [] => true
  | (k', _) :: _ => match str_cmp k k' with Lt => true | _ => false end
  end.

Fixpoint sorted_keys (l : list (str * tv)) : bool :=
  match l with
  | [] => true
  | (k, _) :: t => keys_lt k t && sorted_keys t
  end.

(* a document root: a table with sorted keys *)
Definition is_doc (v : tv) : bool :=
  match v with TTab l => sorted_keys l | _ => false end.

(* size, for size-based arguments *)
Fixpoint tv_size (v : tv) : nat :=
  match v with
  | TArr l => S (fold_right (fun x a => tv_size x + a)%nat 0%nat l)
  | TTab l => S (fold_right (fun kv a => tv_size (snd kv) + a)%nat 0%nat l)
  | _ => 1%nat
  end.

(* injective numeric code of a value: used to print results from vm_compute (cases.v) *)
Definition z_code (z : Z) : list N :=
  match z with Z0 => [0; 0] | Zpos p => [1; Npos p] | Zneg p => [2; Npos p] end.

Fixpoint tv_code (v : tv) : list N :=
  match v with
  | TStr s => 1 :: N.of_nat (length s) :: s
  | TInt z => 2 :: z_code z
  | TFloat b => [3; b]
  | TBool b => [4; if b then 1 else 0]
  | TDate s => 5 :: N.of_nat (length s) :: s
  | TArr l => 6 :: N.of_nat (length l) :: flat_map tv_code l
  | TTab l =>
      7 :: N.of_nat (length l)
        :: flat_map (fun kv => N.of_nat (length (fst kv)) :: fst kv ++ tv_code (snd kv)) l
  end.
