(* Config/Remote.v -- Gallina port of fetch_remote_config_with_client (src/config/remote.rs),
   for one URL with a project root present. Definitions only.
   The cache file of the URL is [option centry] (absent, or body + mtime in Unix seconds + what
   sits at the entry path: a text file, a file whose bytes are not UTF-8 -- torn inside a
   multi-byte character, say --, or a directory). Only a text file can be READ (fs::read_to_string);
   the other two exist (cache_exists, is_cache_within_ttl look at the path and its mtime only) but
   read as nothing, so they count as a cache miss under every policy. A directory cannot be
   replaced by the cache write either (the open-for-lock fails, the error is ignored).
   SHA-256 is the section variable H (content -> lowercase hex text); nothing is assumed of it.
   The cache write goes through state::atomic_write_with_lock (temp file + rename): a kill
   inside write_to_cache leaves the states listed in [crash_write]. *)
From Coq Require Import NArith List Bool.
From SG Require Import Config.Toml.
Import ListNotations.
Open Scope N_scope.

Inductive policy := Normal | Offline | Refresh.

(* what sits at the entry path *)
Inductive ekind := EText | EGarbled | EDir.

(* c_body: the text of a text file; the raw bytes of a garbled file (never handed out); [] for a directory *)
Record centry := { c_body : str; c_mtime : N; c_kind : ekind }.
Definition cache := option centry.

Definition readable (e : centry) : bool := match c_kind e with EText => true | _ => false end.
Definition is_dir (e : centry) : bool := match c_kind e with EDir => true | _ => false end.

(* what the scripted client answers to a GET *)
Inductive server := SBody (b : str) | SFail (kind : N).   (* kind 1 = error, 2 = time-out (an error too) *)

Inductive outcome :=
| OContent (s : str)
| OMismatch (actual : str)     (* RemoteConfigHashMismatch *)
| OMiss                        (* offline cache miss *)
| OFail (kind : N).            (* the client's error, passed through *)

Definition TTL : N := 3600.    (* CACHE_TTL_SECS *)

Definition within_ttl (now : N) (e : centry) : bool :=
  (c_mtime e <=? now) && (now - c_mtime e <? TTL).

Definition policy_eqb (a b : policy) : bool :=
  match a, b with
  | Normal, Normal | Offline, Offline | Refresh, Refresh => true
  | _, _ => false
  end.

(* fs::read_to_string(path).ok() *)
Definition read_entry (e : centry) : option str := if readable e then Some (c_body e) else None.

(* read_from_cache *)
Definition read_cache (p : policy) (now : N) (c : cache) : option str :=
  match p, c with
  | Refresh, _ => None
  | _, None => None
  | Offline, Some e => read_entry e
  | Normal, Some e => if within_ttl now e then read_entry e else None
  end.

(* write_to_cache, completed: temp file renamed over the entry; over a directory the write fails
   before the rename and the failure is ignored *)
Definition write_cache (now : N) (c : cache) (b : str) : cache :=
  match c with
  | Some e => if is_dir e then c else Some {| c_body := b; c_mtime := now; c_kind := EText |}
  | None => Some {| c_body := b; c_mtime := now; c_kind := EText |}
  end.

Section Fetch.
  Variable H : str -> str.

  (* network half: GET, verify BEFORE caching, write the cache *)
  Definition fetch_net (now : N) (c : cache) (expected : option str) (srv : server)
    : outcome * cache * N :=
    match srv with
    | SFail k => (OFail k, c, 1)
    | SBody b =>
        match expected with
        | Some h => if str_eqb (H b) h then (OContent b, write_cache now c b, 1)
                    else (OMismatch (H b), c, 1)
        | None => (OContent b, write_cache now c b, 1)
        end
    end.

  (* fetch_remote_config_with_client: (result, cache afterwards, requests seen by the client) *)
  Definition fetch (p : policy) (now : N) (c : cache) (expected : option str) (srv : server)
    : outcome * cache * N :=
    match read_cache p now c with
    | Some body =>
        match expected with
        | Some h =>
            if str_eqb (H body) h then (OContent body, c, 0)
            else if policy_eqb p Offline then (OMismatch (H body), c, 0)
            else fetch_net now c expected srv
        | None => (OContent body, c, 0)
        end
    | None =>
        if policy_eqb p Offline then (OMiss, c, 0) else fetch_net now c expected srv
    end.

  (* one step of a history of fetches that share one cache file *)
  Record step := { st_policy : policy; st_now : N; st_expected : option str; st_server : server }.

  Definition run_step (c : cache) (s : step) : outcome * cache * N :=
    fetch (st_policy s) (st_now s) c (st_expected s) (st_server s).

  Fixpoint run (steps : list step) (c : cache) : list (outcome * N) * cache :=
    match steps with
    | [] => ([], c)
    | s :: t =>
        match run_step c s with
        | (o, c', n) => let (os, c'') := run t c' in ((o, n) :: os, c'')
        end
    end.

  (* ---- crash inside write_to_cache.
     Repaired code (fixes/D20-atomic-remote-cache-write.patch, on top of D14): the body goes to a
     temporary file that is renamed over the cache file; a kill leaves the old entry (any point
     before the rename) or the complete new one (after it). *)
  Inductive crash_point := BeforeRename | AfterRename.

  Definition crash_write (cp : crash_point) (now : N) (c : cache) (b : str) : cache :=
    match cp with
    | BeforeRename => c
    | AfterRename => write_cache now c b
    end.

  (* The write as it was before the repair: File::create (create + truncate), then write_all.
     Kept to state why the repair was needed (C18_plain_write_refuted). *)
  Inductive plain_point :=
  | PBeforeCreate | PAfterCreate | PMidWrite (n : nat) | PAfterWrite.

  Definition crash_write_plain (cp : plain_point) (now : N) (c : cache) (b : str) : cache :=
    match cp with
    | PBeforeCreate => c
    | PAfterCreate => Some {| c_body := []; c_mtime := now; c_kind := EText |}
    | PMidWrite n => Some {| c_body := firstn n b; c_mtime := now; c_kind := EText |}
    | PAfterWrite => write_cache now c b
    end.

  (* a fetch whose process is killed at cp if (and only if) it reaches the cache write;
     None = the run did not reach the write and completed normally *)
  Definition fetch_crash (cp : crash_point) (p : policy) (now : N) (c : cache)
             (expected : option str) (srv : server) : option cache :=
    match fetch p now c expected srv with
    | (OContent b, _, 1) => Some (crash_write cp now c b)
    | _ => None
    end.

  Definition fetch_crash_plain (cp : plain_point) (p : policy) (now : N) (c : cache)
             (expected : option str) (srv : server) : option cache :=
    match fetch p now c expected srv with
    | (OContent b, _, 1) => Some (crash_write_plain cp now c b)
    | _ => None
    end.
End Fetch.
