(* Config/RemoteUrls.v -- several URLs sharing one cache directory (src/config/remote.rs:
   cache_file_path = <state dir>/remote-configs/<sha256(url)>.toml, hash_url takes the WHOLE url
   string). Definitions only. The directory is a list of (url, entry); the model keys it on the URL
   text itself, compared by exact equality: query string, fragment and letter case are part of the
   key, so two URLs that differ anywhere have two entries. (SHA-256 of the url is injective for every
   purpose of the check; a collision is outside the model.) [fetch_url] is one fetch of one URL:
   Remote.fetch on the entry of that URL, every other entry left alone. *)
From Coq Require Import NArith List Bool.
From SG Require Import Config.Toml Config.Remote.
Import ListNotations.
Open Scope N_scope.

Definition cdir := list (str * centry).

Fixpoint dir_get (u : str) (d : cdir) : cache :=
  match d with
  | [] => None
  | (k, e) :: t => if str_eqb k u then Some e else dir_get u t
  end.

Fixpoint dir_del (u : str) (d : cdir) : cdir :=
  match d with
  | [] => []
  | (k, e) :: t => if str_eqb k u then dir_del u t else (k, e) :: dir_del u t
  end.

Definition dir_set (u : str) (c : cache) (d : cdir) : cdir :=
  match c with
  | None => dir_del u d
  | Some e => (u, e) :: dir_del u d
  end.

Section FetchUrls.
  Variable H : str -> str.

  Definition fetch_url (p : policy) (now : N) (d : cdir) (u : str) (expected : option str)
             (srv : server) : outcome * cdir * N :=
    match fetch H p now (dir_get u d) expected srv with
    | (o, c', n) => (o, dir_set u c' d, n)
    end.

  (* a loader built WITHOUT a project root (explain --sources): read_from_cache and write_to_cache
     return None at once, so the fetch sees no entry and stores nothing *)
  Definition fetch_noroot (p : policy) (now : N) (expected : option str) (srv : server) : outcome * N :=
    match fetch H p now None expected srv with
    | (o, _, n) => (o, n)
    end.

  (* one step of a history over several URLs: which URL is configured, and the fetch *)
  Record ustep := { us_url : str; us_step : step }.

  Definition run_ustep (d : cdir) (s : ustep) : outcome * cdir * N :=
    fetch_url (st_policy (us_step s)) (st_now (us_step s)) d (us_url s)
              (st_expected (us_step s)) (st_server (us_step s)).

  Fixpoint run_urls (steps : list ustep) (d : cdir) : list (outcome * N) * cdir :=
    match steps with
    | [] => ([], d)
    | s :: t =>
        match run_ustep d s with
        | (o, d', n) => let (os, d'') := run_urls t d' in ((o, n) :: os, d'')
        end
    end.

  (* the steps of a history that configure URL u, and their answers *)
  Definition on_url (u : str) (s : ustep) : bool := str_eqb (us_url s) u.

  Definition steps_of (u : str) (steps : list ustep) : list step :=
    map us_step (filter (on_url u) steps).

  Fixpoint answers_of (u : str) (steps : list ustep) (os : list (outcome * N))
    : list (outcome * N) :=
    match steps, os with
    | s :: t, o :: ot => if on_url u s then o :: answers_of u t ot else answers_of u t ot
    | _, _ => []
    end.
End FetchUrls.
