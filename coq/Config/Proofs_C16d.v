(* Config/Proofs_C16d.v -- the loader with alias normalisation (fix D67): [load_top] is [load_core]
   over the normalised file system when the leaf has an extends key, and [load_core] over the file
   system as it is otherwise. Every top-level lemma of Proofs_C16b / Proofs_C16c is carried over;
   plus the lemmas about [norm_alias] and about malformed inheritance keys (fixes D66 / D68). *)
From Coq Require Import NArith ZArith List Bool Lia.
From SG Require Import Config.Toml Config.TomlFacts Config.Merge Config.Extends Config.Proofs_C16a
     Config.Proofs_C16b Config.Proofs_C16c.
Import ListNotations.
Open Scope N_scope.

(* ---- norm_alias leaves the inheritance keys alone *)
Lemma tv_get_norm_other : forall k v, str_eqb k K_structure = false -> tv_get k (norm_alias v) = tv_get k v.
Proof.
  intros k v Hn. destruct v as [| | | | | |l]; try reflexivity. cbn [norm_alias].
  destruct (tab_get K_structure l) as [[| | | | | |s]|]; try reflexivity.
  cbn [tv_get]. apply tab_get_set_other. assumption.
Qed.

Lemma has_key_norm : forall v, has_key K_extends (norm_alias v) = has_key K_extends v.
Proof. intros v. unfold has_key. rewrite tv_get_norm_other by reflexivity. reflexivity. Qed.

Lemma bad_key_norm : forall v, bad_key (norm_alias v) = bad_key v.
Proof.
  intros v. unfold bad_key, not_a_string. rewrite !tv_get_norm_other by reflexivity. reflexivity.
Qed.

(* what the renaming does inside the structure table: afterwards the canonical key holds the
   canonical value when there was one, else the aliased value; the alias key is gone unless both
   spellings were present *)
Lemma norm_tab_canonical : forall s,
  tab_get K_deny_files (norm_tab s) =
  match tab_get K_deny_files s with Some x => Some x | None => tab_get K_deny_alias s end.
Proof.
  intros s. unfold norm_tab. destruct (tab_get K_deny_files s) as [x|] eqn:E1; [assumption|].
  destruct (tab_get K_deny_alias s) as [y|] eqn:E2; [apply tab_get_set_same|assumption].
Qed.

Lemma norm_tab_alias_gone : forall s, tab_get K_deny_files s = None ->
  tab_get K_deny_alias (norm_tab s) = None.
Proof.
  intros s E1. unfold norm_tab. rewrite E1. destruct (tab_get K_deny_alias s) as [y|] eqn:E2; [|assumption].
  rewrite tab_get_set_other by reflexivity. apply tab_get_remove_same.
Qed.

Lemma norm_tab_other : forall s k, str_eqb k K_deny_files = false -> str_eqb k K_deny_alias = false ->
  tab_get k (norm_tab s) = tab_get k s.
Proof.
  intros s k H1 H2. unfold norm_tab. destruct (tab_get K_deny_files s); [reflexivity|].
  destruct (tab_get K_deny_alias s); [|reflexivity].
  rewrite tab_get_set_other by assumption. apply tab_get_remove_other. assumption.
Qed.

Lemma norm_tab_idem : forall s, norm_tab (norm_tab s) = norm_tab s.
Proof.
  intros s. unfold norm_tab at 1. rewrite norm_tab_canonical.
  destruct (tab_get K_deny_files s) as [x|] eqn:E1; [reflexivity|].
  destruct (tab_get K_deny_alias s) as [y|] eqn:E2; [reflexivity|].
  rewrite (norm_tab_alias_gone s E1). reflexivity.
Qed.

(* ---- load_top in terms of load_core *)
Lemma presets_plain_norm : forall fs, presets_plain fs -> presets_plain (norm_fs fs).
Proof. intros fs Hp n pv E. exact (Hp n pv E). Qed.

Lemma load_top_ext : forall fs path v, fs_read fs path = RdOk v -> has_key K_extends v = true ->
  load_top fs path false = load_core (norm_fs fs) path false.
Proof. intros fs path v Hrd Hk. unfold load_top. rewrite Hrd, Hk. reflexivity. Qed.

Lemma load_top_single : forall fs path v ne, fs_read fs path = RdOk v ->
  (negb ne && has_key K_extends v) = false -> load_top fs path ne = load_core fs path ne.
Proof. intros fs path v ne Hrd Hm. unfold load_top. rewrite Hrd, Hm. reflexivity. Qed.

Lemma load_top_cases : forall fs path ne,
  load_top fs path ne = load_core fs path ne \/
  (ne = false /\ load_top fs path ne = load_core (norm_fs fs) path false).
Proof.
  intros fs path ne. unfold load_top. destruct (fs_read fs path) as [| |v]; auto.
  destruct ne; cbn [negb andb]; auto. destruct (has_key K_extends v); auto.
Qed.

Lemma norm_read : forall fs path v, fs_read fs path = RdOk v -> fs_read (norm_fs fs) path = RdOk (norm_alias v).
Proof. intros fs path v E. cbn. rewrite E. reflexivity. Qed.

(* ---- the top-level lemmas, carried over *)
Lemma t_terminates : forall fs path ne, load_top fs path ne <> OutOfFuel.
Proof.
  intros fs path ne. destruct (load_top_cases fs path ne) as [->|[_ ->]]; apply load_core_terminates.
Qed.

Lemma t_left_fold : forall fs, presets_plain fs -> forall path v r pu,
  fs_read fs path = RdOk v -> has_key K_extends v = true ->
  load_top fs path false = Ok (r, pu) ->
  exists ch, chain_of (norm_fs fs) (norm_alias v) (Some path) ch /\ r = strip (lf ch) /\ Forall member_ok ch.
Proof.
  intros fs Hpre path v r pu Hrd Hk Hl. rewrite (load_top_ext _ _ _ Hrd Hk) in Hl.
  apply (top_left_fold (norm_fs fs) (presets_plain_norm fs Hpre) path (norm_alias v) r pu (norm_read _ _ _ Hrd));
    [rewrite has_key_norm; assumption | assumption].
Qed.

Lemma t_left_fold_plain : forall fs, presets_plain fs -> forall path v r pu ch,
  fs_read fs path = RdOk v -> has_key K_extends v = true ->
  load_top fs path false = Ok (r, pu) ->
  chain_of (norm_fs fs) (norm_alias v) (Some path) ch -> Forall (fun m => is_doc (mval m) = true) ch ->
  r = strip (rm_ext (fold_chain ch)).
Proof.
  intros fs Hpre path v r pu ch Hrd Hk Hl Hc Hdoc. rewrite (load_top_ext _ _ _ Hrd Hk) in Hl.
  apply (top_left_fold_plain (norm_fs fs) (presets_plain_norm fs Hpre) path (norm_alias v) r pu ch (norm_read _ _ _ Hrd));
    [rewrite has_key_norm; assumption | assumption | assumption | assumption].
Qed.

Lemma t_no_marker_survives : forall fs path ne r pu,
  load_top fs path ne = Ok (r, pu) -> has_any r = false.
Proof.
  intros fs path ne r pu Hl. destruct (load_top_cases fs path ne) as [E|[_ E]]; rewrite E in Hl;
    eapply no_marker_survives; eauto.
Qed.

Lemma t_misplaced_rejected : forall fs, presets_plain fs -> forall path v ch m,
  fs_read fs path = RdOk v -> has_key K_extends v = true ->
  chain_of (norm_fs fs) (norm_alias v) (Some path) ch -> In (Mem m) ch -> valid (rm_ext m) = false ->
  forall rp, load_top fs path false <> Ok rp.
Proof.
  intros fs Hpre path v ch m Hrd Hk Hc Hin Hbad rp. rewrite (load_top_ext _ _ _ Hrd Hk).
  apply (top_misplaced_rejected (norm_fs fs) (presets_plain_norm fs Hpre) path (norm_alias v) ch m (norm_read _ _ _ Hrd));
    [rewrite has_key_norm; assumption | assumption | assumption | assumption].
Qed.

Lemma t_single_misplaced_rejected : forall fs path v ne,
  fs_read fs path = RdOk v -> (negb ne && has_key K_extends v) = false -> valid v = false ->
  forall rp, load_top fs path ne <> Ok rp.
Proof.
  intros fs path v ne Hrd Hm Hbad rp. rewrite (load_top_single _ _ _ _ Hrd Hm).
  eapply single_misplaced_rejected; eauto.
Qed.

(* a member (of the normalised chain) whose inheritance key is present but not a string *)
Lemma t_bad_key_rejected : forall fs, presets_plain fs -> forall path v ch m,
  fs_read fs path = RdOk v -> has_key K_extends v = true ->
  chain_of (norm_fs fs) (norm_alias v) (Some path) ch -> In (Mem m) ch -> bad_key m <> None ->
  forall rp, load_top fs path false <> Ok rp.
Proof.
  intros fs Hpre path v ch m Hrd Hk Hc Hin Hbad [r pu] Hl.
  destruct (t_left_fold fs Hpre _ _ _ _ Hrd Hk Hl) as [ch' [Hc' [_ Hall]]].
  assert (ch' = ch) by (eapply chain_functional; eauto). subst.
  rewrite Forall_forall in Hall. specialize (Hall _ Hin). cbn in Hall. destruct Hall. congruence.
Qed.

(* the leaf itself: the error names the key, extends first *)
Lemma not_a_string_has_key : forall k v, not_a_string k v = true -> has_key k v = true.
Proof. intros k v. unfold not_a_string, has_key. destruct (tv_get k v); [reflexivity|discriminate]. Qed.

Lemma t_bad_leaf : forall fs path v key k,
  fs_read fs path = RdOk v -> fs_canon fs path = Some key -> has_key K_extends v = true ->
  bad_key v = Some k -> load_top fs path false = Err (EBadKey k).
Proof.
  intros fs path v key k Hrd Hc Hk Hb. rewrite (load_top_ext _ _ _ Hrd Hk).
  unfold load_core. rewrite (norm_read _ _ _ Hrd). rewrite has_key_norm, Hk. cbn [negb andb].
  change (fs_canon (norm_fs fs) path) with (fs_canon fs path). rewrite Hc.
  assert (HF : FUEL = S (Nat.pred FUEL)) by (vm_compute; reflexivity). rewrite HF.
  rewrite resolve_unfold. rewrite bad_key_norm, Hb. reflexivity.
Qed.

Lemma t_names_chain : forall fs path v key,
  fs_read fs path = RdOk v -> fs_canon fs path = Some key ->
  (forall ch, load_top fs path false = Err (ECircular ch) ->
     exists suf k, ch = key :: suf ++ [k] /\ In k (key :: suf)) /\
  (forall dd ch, load_top fs path false = Err (ETooDeep dd ch) ->
     dd = MAX + 1 /\ exists suf, ch = key :: suf /\ N.of_nat (length ch) = MAX + 1).
Proof.
  intros fs path v key Hrd Hc.
  destruct (load_top_cases fs path false) as [E|[_ E]]; rewrite E.
  - eapply top_names_chain; eauto.
  - eapply (top_names_chain (norm_fs fs)); [apply norm_read; eassumption|exact Hc].
Qed.

Lemma t_no_extends_is_leaf : forall fs path,
  load_top fs path true =
  match fs_read fs path with
  | RdMissing => Err (EFileAccess path)
  | RdSyntax => Err (ESyntax path)
  | RdOk v => if has_any v then bind (finalize v) (fun r => Ok (r, None)) else Ok (v, None)
  end.
Proof.
  intros fs path. rewrite <- no_extends_is_leaf. unfold load_top.
  destruct (fs_read fs path); reflexivity.
Qed.

Lemma t_no_extends_local : forall fs fs' path,
  fs_read fs path = fs_read fs' path -> load_top fs path true = load_top fs' path true.
Proof. intros fs fs' path E. rewrite !t_no_extends_is_leaf, E. reflexivity. Qed.

Lemma t_result_has_no_extends : forall fs path r pu,
  load_top fs path false = Ok (r, pu) -> has_key K_extends r = false.
Proof.
  intros fs path r pu Hl. destruct (load_top_cases fs path false) as [E|[_ E]]; rewrite E in Hl;
    eapply result_has_no_extends; eauto.
Qed.

Lemma t_flatten_equivalent : forall fs path r pu,
  load_top fs path false = Ok (r, pu) ->
  forall fs' p' ne, fs_read fs' p' = RdOk r -> load_top fs' p' ne = Ok (r, None).
Proof.
  intros fs path r pu Hl fs' p' ne Hrd.
  assert (Hk : has_key K_extends r = false) by (eapply t_result_has_no_extends; eauto).
  rewrite (load_top_single _ _ _ ne Hrd) by (rewrite Hk; apply andb_false_r).
  destruct (load_top_cases fs path false) as [E|[_ E]]; rewrite E in Hl;
    eapply flatten_equivalent; eauto.
Qed.

(* every file / remote member of a chain that resolves is well-formed and carries string keys only *)
Lemma resolve_members_ok : forall fs, presets_plain fs -> forall fuel v bp vis d r pu,
  resolve_val fs fuel v bp vis d = Ok (r, pu) ->
  exists ch, chain_of fs v bp ch /\ Forall member_ok ch.
Proof.
  intros fs Hp fuel v bp vis d r pu Hr.
  destruct (resolve_ok fs Hp _ _ _ _ _ _ _ Hr) as [ch [Hc [_ [_ Hall]]]]. eauto.
Qed.
