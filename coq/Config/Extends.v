(* Config/Extends.v -- Gallina port of src/config/extends.rs (ExtendsResolver) and of the
   value-level half of FileConfigLoader::load_from_path / load_from_path_without_extends
   (src/config/loader.rs). Definitions only.

   The filesystem, the preset table and the remote fetch are data: [fsys]. A path is the
   string the resolver passes to the filesystem; [fs_canon] is FileSystem::canonicalize.
   The visited key of a file is its canonical path compared by exact equality: distinct files
   have distinct keys (fix D100, fixes/D100-visited-key-not-lossy.patch: the key used to be the
   lossy rendering of the path, which identified paths differing only in bytes that are not
   UTF-8; the CLI level of the check runs chains over such directories).
   Order of effects per local base, as in the code: read, parse, depth test, canonicalize,
   visited test, recurse. Per remote base: depth test, visited test (raw URL), fetch, parse,
   recurse with no base path. Presets are not resolved further and consume no depth.
   Every level: validate the marker positions of the member itself (fix D25,
   fixes/D25-validate-member-before-merge.patch: before that patch only the merged value was
   validated, after merge_arrays had consumed a leading marker), merge it over its resolved base,
   drop extends / extends_sha256 from the MERGED table, validate marker positions of the merged
   value, strip first-position markers.
   Since fixes D66 / D68 an inheritance key that is present but not a string (extends = [..],
   extends_sha256 = 12345) is a configuration error of the member that carries it, raised before
   anything else happens at that level ([bad_key]); before, such a key was dropped silently.
   Since fix D67 the keys that the typed configuration accepts under a second name (serde alias:
   structure.deny_file_patterns for structure.deny_files) are renamed to the canonical name in
   every file / remote member before it is merged ([norm_alias]; presets are not touched). The
   code does this at the top of process_config_value; the model does it where the member is READ
   ([norm_fs], and the leaf in [load_top]), which is the same thing because a member's value is used
   nowhere else. [load_core] is the loader over an already normalised file system. *)
From Coq Require Import NArith ZArith List Bool.
From SG Require Import Config.Toml Config.Merge.
Import ListNotations.
Open Scope N_scope.

Definition K_extends : str := [101;120;116;101;110;100;115].
Definition K_sha : str := [101;120;116;101;110;100;115;95;115;104;97;50;53;54].
Definition P_preset : str := [112;114;101;115;101;116;58].   (* preset: *)
Definition P_http : str := [104;116;116;112;58;47;47].
Definition P_https : str := [104;116;116;112;115;58;47;47].

Definition MAX : N := 10.                                     (* MAX_EXTENDS_DEPTH *)

Inductive rd := RdMissing | RdSyntax | RdOk (v : tv).
Inductive fetched := FErr (kind : N) | FSyntax | FOk (v : tv).

Record fsys := {
  fs_read : str -> rd;                          (* read_to_string + toml::from_str *)
  fs_canon : str -> option str;                 (* canonicalize *)
  fs_preset : str -> option tv;                 (* presets::load_preset *)
  fs_remote : str -> option str -> fetched      (* fetch_remote_config url expected_hash + parse *)
}.

Inductive err :=
| EFileAccess (p : str)
| ESyntax (p : str)
| ETooDeep (depth : N) (chain : list str)
| ECircular (chain : list str)
| EReset (path : str) (pos : N)
| EPreset (name : str)
| ERemote (kind : N)
| EResolution (p : str)
| EBadKey (k : str).            (* extends / extends_sha256 present but not a string *)

Inductive res (A : Type) := Ok (a : A) | Err (e : err) | OutOfFuel.
Arguments Ok {A} a.
Arguments Err {A} e.
Arguments OutOfFuel {A}.

Definition bind {A B : Type} (r : res A) (f : A -> res B) : res B :=
  match r with Ok a => f a | Err e => Err e | OutOfFuel => OutOfFuel end.

Definition is_remote (e : str) : bool := is_prefix P_http e || is_prefix P_https e.
Definition is_abs (e : str) : bool := match e with 47 :: _ => true | _ => false end.

(* Path::parent of the referring file joined with the reference:
   text before the last slash (the root slash itself when it is the only one) + / + reference *)
Fixpoint parent_rev (r : str) : option str :=   (* r = reversed path; drop up to and incl. the first slash *)
  match r with
  | [] => None
  | 47 :: t => Some t
  | _ :: t => parent_rev t
  end.

Definition join_parent (b e : str) : str :=
  match parent_rev (rev_append b []) with
  | None => e                                   (* no directory part *)
  | Some [] => 47 :: e                          (* /leaf.toml *)
  | Some d => rev_append d [] ++ 47 :: e
  end.

Fixpoint mem (k : str) (l : list str) : bool :=
  match l with [] => false | x :: t => str_eqb k x || mem k t end.

Definition rm_ext (v : tv) : tv :=
  match v with
  | TTab l => TTab (tab_remove K_sha (tab_remove K_extends l))
  | _ => v
  end.

Definition check_valid (v : tv) : res unit :=
  match validate v [] with Some (p, i) => Err (EReset p i) | None => Ok tt end.

(* the inheritance key of a member that is present but not a string: extends first, then the pin *)
Definition not_a_string (k : str) (v : tv) : bool :=
  match tv_get k v with
  | Some (TStr _) => false
  | Some _ => true
  | None => false
  end.

Definition bad_key (v : tv) : option str :=
  if not_a_string K_extends v then Some K_extends
  else if not_a_string K_sha v then Some K_sha
  else None.

(* tail of process_config_value *)
Definition finish (m : tv) : res tv :=
  let m' := rm_ext m in
  bind (check_valid m') (fun _ => Ok (strip m')).

Fixpoint resolve_val (fs : fsys) (fuel : nat) (v : tv) (base_path : option str)
         (visited : list str) (depth : N) {struct fuel} : res (tv * option str) :=
  match fuel with
  | O => OutOfFuel
  | S f =>
      match bad_key v with
      | Some k => Err (EBadKey k)
      | None =>
      match as_str (tv_get K_extends v) with
      | None => bind (finish v) (fun r => Ok (r, None))
      | Some e =>
          let sha := as_str (tv_get K_sha v) in
          let base :=
            if is_prefix P_preset e then
              let name := drop 7 e in
              match fs_preset fs name with
              | Some pv => Ok (pv, Some name)
              | None => Err (EPreset name)
              end
            else if is_remote e then
              if MAX <? depth + 1 then Err (ETooDeep (depth + 1) visited)
              else if mem e visited then Err (ECircular (visited ++ [e]))
              else match fs_remote fs e sha with
                   | FErr k => Err (ERemote k)
                   | FSyntax => Err (ESyntax e)
                   | FOk rv => resolve_val fs f rv None (visited ++ [e]) (depth + 1)
                   end
            else
              match (if is_abs e then Some e
                     else match base_path with Some b => Some (join_parent b e) | None => None end) with
              | None => Err (EResolution e)
              | Some p =>
                  match fs_read fs p with
                  | RdMissing => Err (EFileAccess p)
                  | RdSyntax => Err (ESyntax p)
                  | RdOk bv =>
                      if MAX <? depth + 1 then Err (ETooDeep (depth + 1) visited)
                      else match fs_canon fs p with
                           | None => Err (EFileAccess p)
                           | Some key =>
                               if mem key visited then Err (ECircular (visited ++ [key]))
                               else resolve_val fs f bv (Some p) (visited ++ [key]) (depth + 1)
                           end
                  end
              end
          in
          bind base (fun bp =>
            bind (check_valid v) (fun _ =>
              bind (finish (merge (fst bp) v)) (fun r => Ok (r, snd bp))))
      end
      end
  end.

Definition FUEL : nat := N.to_nat MAX + 2.

Definition has_key (k : str) (v : tv) : bool :=
  match tv_get k v with Some _ => true | None => false end.

(* finalize_value_to_config up to the typed re-parse: validate, strip *)
Definition finalize (m : tv) : res tv :=
  bind (check_valid m) (fun _ => Ok (strip m)).

(* load_from_path (no_extends = false) / load_from_path_without_extends (true), value level.
   Single-file mode without markers parses the original text: the value is returned as is. *)
Definition load_core (fs : fsys) (path : str) (no_extends : bool) : res (tv * option str) :=
  match fs_read fs path with
  | RdMissing => Err (EFileAccess path)
  | RdSyntax => Err (ESyntax path)
  | RdOk v =>
      if negb no_extends && has_key K_extends v then
        match fs_canon fs path with
        | None => Err (EFileAccess path)
        | Some key =>
            bind (resolve_val fs FUEL v (Some path) [key] 0) (fun mp =>
              bind (finalize (fst mp)) (fun r => Ok (r, snd mp)))
        end
      else if has_any v then bind (finalize v) (fun r => Ok (r, None))
      else Ok (v, None)
  end.

(* ---- alias keys (fix D67). KEY_ALIASES of extends.rs: (structure, deny_file_patterns, deny_files) *)
Definition K_structure : str := [115;116;114;117;99;116;117;114;101].
Definition K_deny_alias : str := [100;101;110;121;95;102;105;108;101;95;112;97;116;116;101;114;110;115].
Definition K_deny_files : str := [100;101;110;121;95;102;105;108;101;115].

(* inside the structure table: rename the alias unless the canonical key is there as well (a member
   that spells the setting both ways is left to the typed parse, which rejects it) *)
Definition norm_tab (l : list (str * tv)) : list (str * tv) :=
  match tab_get K_deny_files l with
  | Some _ => l
  | None =>
      match tab_get K_deny_alias l with
      | Some x => tab_set K_deny_files x (tab_remove K_deny_alias l)
      | None => l
      end
  end.

Definition norm_alias (v : tv) : tv :=
  match v with
  | TTab l =>
      match tab_get K_structure l with
      | Some (TTab s) => TTab (tab_set K_structure (TTab (norm_tab s)) l)
      | _ => v
      end
  | _ => v
  end.

Definition norm_rd (r : rd) : rd := match r with RdOk v => RdOk (norm_alias v) | x => x end.
Definition norm_fetched (r : fetched) : fetched := match r with FOk v => FOk (norm_alias v) | x => x end.

Definition norm_fs (fs : fsys) : fsys :=
  {| fs_read := fun p => norm_rd (fs_read fs p);
     fs_canon := fs_canon fs;
     fs_preset := fs_preset fs;
     fs_remote := fun u h => norm_fetched (fs_remote fs u h) |}.

(* load_from_path / load_from_path_without_extends: the chain is resolved over normalised members;
   a file loaded alone goes to the typed parse as it is (serde resolves the alias there) *)
Definition load_top (fs : fsys) (path : str) (no_extends : bool) : res (tv * option str) :=
  match fs_read fs path with
  | RdOk v =>
      if negb no_extends && has_key K_extends v then load_core (norm_fs fs) path false
      else load_core fs path no_extends
  | _ => load_core fs path no_extends
  end.
