(* Config/Extends.v -- Gallina port of src/config/extends.rs (ExtendsResolver) and of the
   value-level half of FileConfigLoader::load_from_path / load_from_path_without_extends
   (src/config/loader.rs). Definitions only.

   The filesystem, the preset table and the remote fetch are data: [fsys]. A path is the
   string the resolver passes to the filesystem; [fs_canon] is FileSystem::canonicalize.
   Order of effects per local base, as in the code: read, parse, depth test, canonicalize,
   visited test, recurse. Per remote base: depth test, visited test (raw URL), fetch, parse,
   recurse with no base path. Presets are not resolved further and consume no depth.
   Every level: validate the marker positions of the member itself (fix D25,
   fixes/D25-validate-member-before-merge.patch: before that patch only the merged value was
   validated, after merge_arrays had consumed a leading marker), merge it over its resolved base,
   drop extends / extends_sha256 from the MERGED table, validate marker positions of the merged
   value, strip first-position markers. *)
From Coq Require Import NArith ZArith List Bool.
From SG Require Import Config.Toml Config.Merge.
Import ListNotations.
Open Scope N_scope.

Definition K_extends : str := [101;120;116;101;110;100;115].
Definition K_sha : str := [101;120;116;101;110;100;115;95;115;104;97;50;53;54].
Definition P_preset : str := [112;114;101;115;101;116;58].   (* preset: *)
Definition P_http : str := [104;116;116;112;58;47;47].
Definition P_https : str := [104;116;116;112;115;58;47;47].

Definition MAX : N := 10.                                     (* MAX_EXTENDS_DEPTH *)

Inductive rd := RdMissing | RdSyntax | RdOk (v : tv).
Inductive fetched := FErr (kind : N) | FSyntax | FOk (v : tv).

Record fsys := {
  fs_read : str -> rd;                          (* read_to_string + toml::from_str *)
  fs_canon : str -> option str;                 (* canonicalize *)
  fs_preset : str -> option tv;                 (* presets::load_preset *)
  fs_remote : str -> option str -> fetched      (* fetch_remote_config url expected_hash + parse *)
}.

Inductive err :=
| EFileAccess (p : str)
| ESyntax (p : str)
| ETooDeep (depth : N) (chain : list str)
| ECircular (chain : list str)
| EReset (path : str) (pos : N)
| EPreset (name : str)
| ERemote (kind : N)
| EResolution (p : str).

Inductive res (A : Type) := Ok (a : A) | Err (e : err) | OutOfFuel.
Arguments Ok {A} a.
Arguments Err {A} e.
Arguments OutOfFuel {A}.

Definition bind {A B : Type} (r : res A) (f : A -> res B) : res B :=
  match r with Ok a => f a | Err e => Err e | OutOfFuel => OutOfFuel end.

Definition is_remote (e : str) : bool := is_prefix P_http e || is_prefix P_https e.
Definition is_abs (e : str) : bool := match e with 47 :: _ => true | _ => false end.

(* Path::parent of the referring file joined with the reference:
   text before the last slash (the root slash itself when it is the only one) + / + reference *)
Fixpoint parent_rev (r : str) : option str :=   (* r = reversed path; drop up to and incl. the first slash *)
  match r with
  | [] => None
  | 47 :: t => Some t
  | _ :: t => parent_rev t
  end.

Definition join_parent (b e : str) : str :=
  match parent_rev (rev_append b []) with
  | None => e                                   (* no directory part *)
  | Some [] => 47 :: e                          (* /leaf.toml *)
  | Some d => rev_append d [] ++ 47 :: e
  end.

Fixpoint mem (k : str) (l : list str) : bool :=
  match l with [] => false | x :: t => str_eqb k x || mem k t end.

Definition rm_ext (v : tv) : tv :=
  match v with
  | TTab l => TTab (tab_remove K_sha (tab_remove K_extends l))
  | _ => v
  end.

Definition check_valid (v : tv) : res unit :=
  match validate v [] with Some (p, i) => Err (EReset p i) | None => Ok tt end.

(* tail of process_config_value *)
Definition finish (m : tv) : res tv :=
  let m' := rm_ext m in
  bind (check_valid m') (fun _ => Ok (strip m')).

Fixpoint resolve_val (fs : fsys) (fuel : nat) (v : tv) (base_path : option str)
         (visited : list str) (depth : N) {struct fuel} : res (tv * option str) :=
  match fuel with
  | O => OutOfFuel
  | S f =>
      match as_str (tv_get K_extends v) with
      | None => bind (finish v) (fun r => Ok (r, None))
      | Some e =>
          let sha := as_str (tv_get K_sha v) in
          let base :=
            if is_prefix P_preset e then
              let name := drop 7 e in
              match fs_preset fs name with
              | Some pv => Ok (pv, Some name)
              | None => Err (EPreset name)
              end
            else if is_remote e then
              if MAX <? depth + 1 then Err (ETooDeep (depth + 1) visited)
              else if mem e visited then Err (ECircular (visited ++ [e]))
              else match fs_remote fs e sha with
                   | FErr k => Err (ERemote k)
                   | FSyntax => Err (ESyntax e)
                   | FOk rv => resolve_val fs f rv None (visited ++ [e]) (depth + 1)
                   end
            else
              match (if is_abs e then Some e
                     else match base_path with Some b => Some (join_parent b e) | None => None end) with
              | None => Err (EResolution e)
              | Some p =>
                  match fs_read fs p with
                  | RdMissing => Err (EFileAccess p)
                  | RdSyntax => Err (ESyntax p)
                  | RdOk bv =>
                      if MAX <? depth + 1 then Err (ETooDeep (depth + 1) visited)
                      else match fs_canon fs p with
                           | None => Err (EFileAccess p)
                           | Some key =>
                               if mem key visited then Err (ECircular (visited ++ [key]))
                               else resolve_val fs f bv (Some p) (visited ++ [key]) (depth + 1)
                           end
                  end
              end
          in
          bind base (fun bp =>
            bind (check_valid v) (fun _ =>
              bind (finish (merge (fst bp) v)) (fun r => Ok (r, snd bp))))
      end
  end.

Definition FUEL : nat := N.to_nat MAX + 2.

Definition has_key (k : str) (v : tv) : bool :=
  match tv_get k v with Some _ => true | None => false end.

(* finalize_value_to_config up to the typed re-parse: validate, strip *)
Definition finalize (m : tv) : res tv :=
  bind (check_valid m) (fun _ => Ok (strip m)).

(* load_from_path (no_extends = false) / load_from_path_without_extends (true), value level.
   Single-file mode without markers parses the original text: the value is returned as is. *)
Definition load_top (fs : fsys) (path : str) (no_extends : bool) : res (tv * option str) :=
  match fs_read fs path with
  | RdMissing => Err (EFileAccess path)
  | RdSyntax => Err (ESyntax path)
  | RdOk v =>
      if negb no_extends && has_key K_extends v then
        match fs_canon fs path with
        | None => Err (EFileAccess path)
        | Some key =>
            bind (resolve_val fs FUEL v (Some path) [key] 0) (fun mp =>
              bind (finalize (fst mp)) (fun r => Ok (r, snd mp)))
        end
      else if has_any v then bind (finalize v) (fun r => Ok (r, None))
      else Ok (v, None)
  end.
