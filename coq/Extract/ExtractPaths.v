From Coq Require Import NArith List.
From SG Require Import Paths.Model.
Require Extraction. Require Import ExtrOcamlBasic.
Extraction Language OCaml.
Extraction "../ocaml/gen/paths_ex.ml" norm key walked.
