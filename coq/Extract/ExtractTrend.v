(* Extraction of the trend / duration model. ExtrOcamlBasic only; N, Z, positive stay inductive.
   Decimal printing / parsing of N and Z uses the standard library's Decimal conversions. *)
From Coq Require Import NArith ZArith List DecimalN DecimalZ.
From SG Require Import Trend.Duration Trend.Trend.
Require Extraction. Require Import ExtrOcamlBasic.
Extraction Language OCaml.
Extraction "../ocaml/gen/trend_ex.ml"
  parse_duration should_add apply_retention snapshot_op trend_delta since_of_string is_significant
  step summary_totals snapshot_totals check_totals restricted_run k16_filter_mismatch
  select_entry compute_delta mkT mkE mkC mkF len
  N.to_uint N.of_uint Z.to_int.
