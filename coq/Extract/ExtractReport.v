(* Extraction of the report model (C20). ExtrOcamlBasic only; N, positive, nat stay inductive. *)
From Coq Require Import NArith List.
From SG Require Import Report.Summary Report.Stats Report.Escape Report.Uri Report.Roots.
Require Extraction. Require Import ExtrOcamlBasic.
Extraction Language OCaml.
Extraction "../ocaml/gen/report_ex.ml"
  summarize text_summary listed html_aggregate html_aggregate_v0 structure_result effective check_file run_check exit_code decorate
  project_totals by_language by_language_v0 by_directory by_directory_v0 dir_key permute
  language_of language_of_v0 html_escape html_escape_spec html_safe html_unescape uri_encode uri_decode uri_ok drop_covered run_files run_files_v0 roots_overlap.
