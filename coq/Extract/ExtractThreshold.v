(* Extraction of the threshold model. ExtrOcamlBasic only: bool, option, unit, list, prod,
   sumbool map to OCaml natives; N, Z, positive, nat stay inductive. No Extract Constant. *)
From Coq Require Import NArith List.
From SG Require Import Threshold.Float64 Threshold.Model.
Require Extraction. Require Import ExtrOcamlBasic.
Extraction Language OCaml.
Extraction "../ocaml/gen/threshold_ex.ml"
  pct_point new_checker with_warning_threshold check_checker explain_checker apply_cli_overrides
  limit_for warn_threshold_for warn_limit_with_source skip_settings_for should_process
  compute_effective_stats check process_for_check explain check_file explain_file verdict matches no_overrides validate_content.
