(* Extraction of the git model (C19). ExtrOcamlBasic only; N, positive stay inductive. *)
From Coq Require Import NArith List.
From SG Require Import Git.TreeDiff.
Require Extraction. Require Import ExtrOcamlBasic.
Extraction Language OCaml.
Extraction "../ocaml/gen/git_ex.ml" compare_trees_recursive get_changed_files_range get_staged_files
  parse_diff_range diff_files staged_files canon_of oid_eqb wfb blobs paths_with.
