(* Extraction of the state-file models (C13, C14). ExtrOcamlBasic only; N, positive, nat,
   ascii and string stay inductive. No Extract Constant. *)
From Coq Require Import NArith List String.
From SG Require Import State.Fs State.AtomicWrite State.Concurrency State.LockWait.
Require Extraction. Require Import ExtrOcamlBasic.
Extraction Language OCaml.
Extraction "../ocaml/gen/state_ex.ml" points crash crash_from after_crashes fs_init total_wait lock_poll_interval_ms target temp_of load_kind ser parse
  init_sys step exec event final_target finished
  cmd_snapshot cmd_snapshot_unlocked cmd_auto_snapshot cmd_stats_history cmd_update_baseline cmd_check_baseline cmd_check_cache
  names data read_name.
