(* Extraction of the cache model. ExtrOcamlBasic only; N, positive stay inductive. The three
   oracles (truth, csize, chash) are ordinary function arguments of the extracted functions. *)
From Coq Require Import NArith List DecimalN.
From SG Require Import Cache.Model.
Require Extraction. Require Import ExtrOcamlBasic.
Extraction Language OCaml.
Extraction "../ocaml/gen/cache_ex.ml"
  step exec world0 has_racy_write has_racy_rename has_forgery monotone_clock transparent racy_write racy_rename
  load_cache mkS mkCE mkFile mkW N.to_uint N.of_uint.
