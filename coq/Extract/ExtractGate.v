(* Extraction of the configuration-gate model (C17). ExtrOcamlBasic only; N, Z, positive stay inductive. *)
From Coq Require Import NArith ZArith List.
From SG Require Import Gate.Validate.
Require Extraction. Require Import ExtrOcamlBasic.
Extraction Language OCaml.
Extraction "../ocaml/gen/gate_ex.ml" gate_check gate_validate_cmd gate_show validate_semantics
  context_from_config apply_cli_overrides in_domain known17
  k_rule_warn_threshold k_expires k_cli_after_validation k_overflow k_dormant_glob k_lenient_date date_strict
  parse_duration date_valid unit_range retention_cutoff structure_enabled
  N.add N.mul Z.opp Z.of_N Build_behav Build_flags Build_config Build_content_rule Build_struct_rule.
