(* Extraction of the counter model. ExtrOcamlBasic only: bool, option, unit, list, prod,
   sumbool map to OCaml natives; N, positive, nat stay inductive. No Extract Constant. *)
From Coq Require Import NArith List.
From SG Require Import Counter.Lexer Counter.Sloc.
Require Extraction. Require Import ExtrOcamlBasic.
Extraction Language OCaml.
Extraction "../ocaml/gen/counter_ex.ml" count count_reader classes_of Build_syntax Build_mlc.
