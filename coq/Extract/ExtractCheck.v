(* Extraction of the check-pipeline tail (baseline, ratchet, fail-fast, exit code).
   ExtrOcamlBasic only; N, positive, nat stay inductive. No Extract Constant. *)
From Coq Require Import NArith List.
From SG Require Import Check.Results Check.ExitCode Check.BMap Check.Ratchet Check.Baseline Check.FailFast.
Require Extraction. Require Import ExtrOcamlBasic.
Extraction Language OCaml.
Extraction "../ocaml/gen/check_ex.ml"
  determine_exit_code apply_baseline_comparison check_baseline_ratchet tighten_baseline
  handle_baseline_ratchet update_baseline_from_results check_step restrict restrict_dirs
  evaluated_of retain_evaluated rekey norm_key ff_subb ff_seq ff_trigger lookup contains key_of mkResult mkFlags mkSel.
