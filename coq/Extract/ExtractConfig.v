(* Extraction of the configuration models (C16, C18). ExtrOcamlBasic only: bool, option, unit,
   list, prod, sumbool map to OCaml natives; N, Z, positive, nat stay inductive. No Extract Constant. *)
From Coq Require Import NArith ZArith List.
From SG Require Import Config.Toml Config.Merge Config.Extends Config.Remote Config.RemoteUrls.
Require Extraction. Require Import ExtrOcamlBasic.
Extraction Language OCaml.
Extraction "../ocaml/gen/config_ex.ml"
  merge merge_arrays is_reset_element has_reset_marker strip has_any validate valid
  rm_ext finish finalize resolve_val load_top join_parent Build_fsys FUEL MAX
  fetch run fetch_crash Build_step Build_centry TTL sorted_keys is_doc
  fetch_url run_urls Build_ustep dir_get.
