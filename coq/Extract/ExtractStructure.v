(* Extraction of the structure model (C06, C07). ExtrOcamlBasic only: bool, option, unit, list, prod,
   sumbool map to OCaml natives; Z, N, positive, nat stay inductive. No Extract Constant. *)
From Coq Require Import ZArith NArith List.
From SG Require Import Structure.Run.
Require Extraction. Require Import ExtrOcamlBasic.
Extraction Language OCaml.
Extraction "../ocaml/gen/structure_ex.ml" run_sx checkmap_sx pathfns_sx warnpoint_sx basedepth_sx stemfns_sx roots_sx.
