From Coq Require Import NArith List.
From SG Require Import Check.Results Check.BMap Check.ExitCode Check.Ratchet Check.Baseline Check.Pipeline.
Require Extraction. Require Import ExtrOcamlBasic.
Extraction Language OCaml.
Extraction "../ocaml/gen/pipeline_ex.ml" check_run mkFact mkFlags mkResult in_scope spec_status.
