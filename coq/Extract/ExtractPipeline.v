(* Extraction of the C01 pipeline: the fact-level run (check_run) and the composition with the threshold
   model (Check/Compose.v: check_command derives every per-file fact from the configuration, the CLI
   overrides and the match vectors). ExtrOcamlBasic only. *)
From Coq Require Import NArith List.
From SG Require Import Check.Results Check.BMap Check.ExitCode Check.Ratchet Check.Baseline Check.Pipeline Check.Compose.
From SG Require Threshold.Model.
Require Extraction. Require Import ExtrOcamlBasic.
Extraction Language OCaml.
Extraction "../ocaml/gen/pipeline_ex.ml" check_run mkFact mkFlags mkResult in_scope spec_status
  check_command config_rejected fact_of mkIn
  Threshold.Model.check_checker Threshold.Model.mk_config Threshold.Model.mk_rule Threshold.Model.mk_cli Threshold.Model.mk_stats.
