(* Trend/Trend.v: model of src/stats/trend.rs (TrendHistory, TrendDelta), of the snapshot paths
   (commands/snapshot.rs, commands/check/check_snapshot.rs + runner.rs step 11) and of the totals
   the three commands record / report. Model file: definitions only, no proofs. *)
From Coq Require Import NArith ZArith List Bool.
From SG Require Import Trend.Duration.
Import ListNotations.
Open Scope N_scope.

(* ---------------------------------------------------------------- entries, configuration *)
Record totals := mkT { t_files : N; t_lines : N; t_code : N; t_comment : N; t_blank : N }.

(* e_tag stands for the opaque rest of an entry (git_ref, git_branch) *)
Record entry := mkE { ts : N; e_tot : totals; e_tag : N }.

Record tcfg := mkC { max_entries : option N; max_age_days : option N; min_interval : option N;
                     min_code_delta : option N }.

Definition SECONDS_PER_DAY : N := 86400.
Definition DEFAULT_MIN_CODE_DELTA : N := 10.

Definition len {A} (l : list A) : N := N.of_nat (length l).

Definition latest (h : list entry) : option entry := last (map Some h) None.

(* should_add: saturating_sub is N.sub *)
Definition should_add (c : tcfg) (now : N) (h : list entry) : bool :=
  match min_interval c with
  | None => true
  | Some mi => match latest h with None => true | Some l => mi <=? (now - ts l) end
  end.

(* the age cutoff: current_time.saturating_sub(max_age_days.saturating_mul(SECONDS_PER_DAY)); second
   component = a u64 product overflowed (never, since the D17 repair) *)
Definition cutoff (days now : N) : N * bool := (now - sat_mul64 days SECONDS_PER_DAY, false).

(* apply_retention: age filter by retain (any position), then count by draining the front *)
Definition drop_front (m : N) (h : list entry) : list entry :=
  if m <? len h then skipn (N.to_nat (len h - m)) h else h.

Definition apply_retention (c : tcfg) (now : N) (h : list entry) : list entry * bool :=
  let '(h1, ov) := match max_age_days c with
                   | None => (h, false)
                   | Some d => let (cut, ov) := cutoff d now in (filter (fun e => cut <=? ts e) h, ov)
                   end in
  (match max_entries c with None => h1 | Some m => drop_front m h1 end, ov).

Definition mk_entry (now : N) (t : totals) (tag : N) : entry := mkE now t tag.

(* one snapshot attempt (snapshot command with/without --force; auto-snapshot = force false) *)
Inductive snap_result := Skipped | Saved (h : list entry) (overflow : bool).
Definition snapshot_op (c : tcfg) (force : bool) (now : N) (t : totals) (tag : N) (h : list entry) : snap_result :=
  if force || should_add c now h
  then let (h', ov) := apply_retention c now (h ++ [mk_entry now t tag]) in Saved h' ov
  else Skipped.

Definition history_after (r : snap_result) (h : list entry) : list entry :=
  match r with Skipped => h | Saved h' _ => h' end.

(* ---------------------------------------------------------------- deltas *)
Definition to_i64 (x : N) : Z := if x <? I63 then Z.of_N x else (Z.of_N x - Z.of_N U64)%Z.
Definition in_i64 (z : Z) : bool := ((- Z.of_N I63 <=? z) && (z <? Z.of_N I63))%Z.
Definition wrap_i64 (z : Z) : Z :=
  let m := (z mod Z.of_N U64)%Z in if (m <? Z.of_N I63)%Z then m else (m - Z.of_N U64)%Z.
(* `a as i64 - b as i64`: wrapped result, and whether the subtraction overflowed *)
Definition sub_i64 (a b : N) : Z * bool :=
  let d := (to_i64 a - to_i64 b)%Z in (wrap_i64 d, negb (in_i64 d)).

Record delta := mkD { d_files : Z; d_lines : Z; d_code : Z; d_comment : Z; d_blank : Z;
                      d_prev_ts : N; d_prev_tag : N }.

Definition compute_delta (prev : entry) (cur : totals) : delta * bool :=
  let p := e_tot prev in
  let '(f, o1) := sub_i64 (t_files cur) (t_files p) in
  let '(l, o2) := sub_i64 (t_lines cur) (t_lines p) in
  let '(c, o3) := sub_i64 (t_code cur) (t_code p) in
  let '(m, o4) := sub_i64 (t_comment cur) (t_comment p) in
  let '(b, o5) := sub_i64 (t_blank cur) (t_blank p) in
  (mkD f l c m b (ts prev) (e_tag prev), o1 || o2 || o3 || o4 || o5).

(* entries.iter().rev().find(|e| e.timestamp <= t) *)
Definition find_entry_at_or_before (t : N) (h : list entry) : option entry :=
  find (fun e => ts e <=? t) (rev h).

(* `stats trend`: without --since the latest entry; with --since D (parsed, seconds) the newest
   entry at or before now - D (saturating) *)
Definition select_entry (since : option N) (now : N) (h : list entry) : option entry :=
  match since with
  | None => latest h
  | Some d => find_entry_at_or_before (now - d) h
  end.

Definition trend_delta (since : option N) (now : N) (h : list entry) (cur : totals) : option (delta * bool) :=
  match select_entry since now h with None => None | Some p => Some (compute_delta p cur) end.

(* --since given as a string: an unparsable duration only warns and falls back to the latest entry *)
Definition since_of_string (s : option str) : option N * bool :=
  match s with
  | None => (None, false)
  | Some x => match parse_duration x with
              | DOk v => (Some v, false)
              | DErr _ => (None, false)
              | DOverflow w => (Some w, true)
              end
  end.

(* is_significant: files changed, or |code delta| (unsigned_abs) above the threshold *)
Definition is_significant (d : delta) (c : tcfg) : bool :=
  negb (Z.eqb (d_files d) 0) ||
  ((match min_code_delta c with Some t => t | None => DEFAULT_MIN_CODE_DELTA end) <? Z.abs_N (d_code d)).

(* ---------------------------------------------------------------- whole-project totals
   One project file as the three commands see it. [pf_ext_ok]: extension in content.extensions
   (or the list is empty); [pf_excluded]: matches content.exclude; [pf_rule]: matches some
   content rule; [pf_selected]: belongs to the file set of this check run (--files / --diff /
   --staged; true on unrestricted runs); [pf_dropped]: not processed because fail-fast had
   already seen a failure. [pf_counted]: the counter yields statistics (known language, no
   ignore-file directive). *)
Record pfile := mkF { pf_lines : N; pf_code : N; pf_comment : N; pf_blank : N;
                      pf_counted : bool; pf_ext_ok : bool; pf_excluded : bool; pf_rule : bool;
                      pf_selected : bool; pf_dropped : bool }.

Definition sum_totals (fs : list pfile) : totals :=
  fold_left (fun a f => mkT (t_files a + 1) (t_lines a + pf_lines f) (t_code a + pf_code f)
                            (t_comment a + pf_comment f) (t_blank a + pf_blank f))
            fs (mkT 0 0 0 0 0).

(* stats summary / stats trend (commands/stats/collection.rs): extension filter only *)
Definition summary_files (fs : list pfile) : list pfile := filter (fun f => pf_ext_ok f && pf_counted f) fs.
Definition summary_totals (fs : list pfile) : totals := sum_totals (summary_files fs).
(* snapshot (commands/snapshot.rs steps 5-8): its own copy of the same pipeline *)
Definition snapshot_files (fs : list pfile) : list pfile :=
  filter (fun f => pf_counted f) (filter (fun f => pf_ext_ok f) fs).
Definition snapshot_totals (fs : list pfile) : totals := sum_totals (snapshot_files fs).
(* check (runner.rs): the files of this run, filtered by ThresholdChecker::should_process
   (content.exclude first, then extension or rule match), minus fail-fast drops *)
Definition should_process (f : pfile) : bool := negb (pf_excluded f) && (pf_ext_ok f || pf_rule f).
Definition check_files (fs : list pfile) : list pfile :=
  filter (fun f => pf_selected f && should_process f && negb (pf_dropped f) && pf_counted f) fs.
Definition check_totals (fs : list pfile) : totals := sum_totals (check_files fs).

(* does this check run differ from an unrestricted one (what the D16 repair tests) *)
Definition restricted_run (fs : list pfile) : bool :=
  existsb (fun f => negb (pf_selected f) || pf_dropped f) fs.
(* residual class: content.exclude hides a file from check but not from stats, a rule match
   brings a file into check that the extension filter of stats rejects *)
Definition k16_filter_mismatch (fs : list pfile) : bool :=
  existsb (fun f => pf_counted f && negb (Bool.eqb (should_process f) (pf_ext_ok f))) fs.

(* auto-snapshot decision of `check` (runner.rs step 11): exit code 0, option enabled, and (D16
   repair) not a partial run *)
Definition auto_snapshot_totals (enabled passed partial : bool) (fs : list pfile) : option totals :=
  if enabled && passed && negb partial then Some (check_totals fs) else None.

(* ---------------------------------------------------------------- command level *)
Inductive cmd :=
| CSnapshot (force dry_run : bool)            (* snapshot [--force] [--dry-run] *)
| CCheck (auto passed partial : bool)         (* check; auto = trend.auto_snapshot_on_check; partial =
                                                 --files / --diff / --staged given or fail-fast tripped *)
| CStats.                                      (* stats summary | files | trend | history | report *)

(* effect of one command on the history; second component: u64 overflow met *)
Definition step (c : tcfg) (k : cmd) (now : N) (fs : list pfile) (tag : N) (h : list entry) : list entry * bool :=
  match k with
  | CSnapshot force dry =>
      if dry then (h, false) else
      match snapshot_op c force now (snapshot_totals fs) tag h with
      | Skipped => (h, false) | Saved h' ov => (h', ov) end
  | CCheck auto passed partial =>
      match auto_snapshot_totals auto passed partial fs with
      | None => (h, false)
      | Some t => match snapshot_op c false now t tag h with
                  | Skipped => (h, false) | Saved h' ov => (h', ov) end
      end
  | CStats => (h, false)
  end.
