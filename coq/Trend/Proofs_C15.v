(* Trend/Proofs_C15.v: lemmas behind Properties_C15.v. *)
From Coq Require Import NArith ZArith List Bool Lia.
From SG Require Import Trend.Duration Trend.Trend.
Import ListNotations.
Open Scope N_scope.

Arguments N.mul : simpl never.
Arguments N.add : simpl never.
Arguments N.sub : simpl never.
Arguments N.leb : simpl never.
Arguments N.ltb : simpl never.
Arguments N.eqb : simpl never.
Arguments N.modulo : simpl never.
Arguments Z.sub : simpl never.
Arguments Z.modulo : simpl never.
Arguments Z.of_N : simpl never.

(* ---------------------------------------------------------------- specification vocabulary *)
(* l1 is l2 with some elements removed: order and content of the survivors untouched *)
Inductive subseq {A : Type} : list A -> list A -> Prop :=
| ss_nil : subseq [] []
| ss_keep : forall x l1 l2, subseq l1 l2 -> subseq (x :: l1) (x :: l2)
| ss_drop : forall x l1 l2, subseq l1 l2 -> subseq l1 (x :: l2).

(* e is not older than d days at time now, in unbounded arithmetic: ts e >= now - d * 86400 *)
Definition young_enough (now d : N) (e : entry) : bool := now <=? ts e + d * 86400.
Definition age_filter (c : tcfg) (now : N) (h : list entry) : list entry :=
  match max_age_days c with None => h | Some d => filter (young_enough now d) h end.

Definition fits63 (t : totals) : Prop :=
  t_files t < I63 /\ t_lines t < I63 /\ t_code t < I63 /\ t_comment t < I63 /\ t_blank t < I63.

(* nondecreasing timestamps *)
Fixpoint sorted_from (lo : N) (h : list entry) : Prop :=
  match h with [] => True | e :: tl => lo <= ts e /\ sorted_from (ts e) tl end.
Definition sorted (h : list entry) : Prop := sorted_from 0 h.

(* ---------------------------------------------------------------- lists *)
Lemma subseq_refl : forall A (l : list A), subseq l l.
Proof. induction l; constructor; auto. Qed.

Lemma subseq_nil_l : forall A (l : list A), subseq [] l.
Proof. induction l; constructor; auto. Qed.

Lemma subseq_trans : forall A (a b c : list A), subseq a b -> subseq b c -> subseq a c.
Proof.
  intros A a b c Hab Hbc. revert a Hab.
  induction Hbc; intros a Hab.
  - exact Hab.
  - inversion Hab; subst.
    + constructor. auto.
    + apply ss_drop. auto.
  - apply ss_drop. auto.
Qed.

Lemma subseq_filter : forall A (f : A -> bool) l, subseq (filter f l) l.
Proof. induction l as [|x l IH]; cbn; [constructor|]. destruct (f x); constructor; auto. Qed.

Lemma subseq_skipn : forall A n (l : list A), subseq (skipn n l) l.
Proof.
  induction n; intros l; cbn; [apply subseq_refl|].
  destruct l; [constructor|]. apply ss_drop. auto.
Qed.

Lemma subseq_app_tail : forall A (a b t : list A), subseq a b -> subseq (a ++ t) (b ++ t).
Proof. induction 1; cbn; [apply subseq_refl| constructor; auto | apply ss_drop; auto]. Qed.

Lemma subseq_length : forall A (a b : list A), subseq a b -> (length a <= length b)%nat.
Proof. induction 1; cbn; lia. Qed.

Lemma subseq_In : forall A (a b : list A) x, subseq a b -> In x a -> In x b.
Proof. induction 1; cbn; intros; intuition. Qed.

Lemma last_map_some : forall (h : list entry) (e : entry), latest (h ++ [e]) = Some e.
Proof.
  unfold latest. intros h e. rewrite map_app. cbn. apply last_last.
Qed.

Lemma latest_nil : latest [] = None.
Proof. reflexivity. Qed.

Lemma latest_cases : forall h,
  (h = [] /\ latest h = None) \/ (exists h0 e, h = h0 ++ [e] /\ latest h = Some e).
Proof.
  intros h. induction h as [|e h0 _] using rev_ind.
  - left. split; reflexivity.
  - right. exists h0, e. split; [reflexivity|apply last_map_some].
Qed.

(* ---------------------------------------------------------------- retention *)
Definition stage1 (c : tcfg) (now : N) (h : list entry) : list entry :=
  match max_age_days c with
  | None => h
  | Some d => filter (fun e => fst (cutoff d now) <=? ts e) h
  end.
Definition stage2 (c : tcfg) (h1 : list entry) : list entry :=
  match max_entries c with None => h1 | Some m => drop_front m h1 end.

Lemma apply_retention_stages : forall c now h,
  apply_retention c now h = (stage2 c (stage1 c now h), false).
Proof.
  intros c now h. unfold apply_retention, stage1, stage2.
  destruct (max_age_days c) as [d|]; reflexivity.
Qed.

Lemma cutoff_sound : forall d now e,
  (fst (cutoff d now) <=? ts e) = true -> young_enough now d e = true.
Proof.
  intros d now e. unfold cutoff, sat_mul64, young_enough, SECONDS_PER_DAY, U64. cbn [fst].
  destruct (18446744073709551616 <=? d * 86400) eqn:E;
    [apply N.leb_le in E | apply N.leb_gt in E]; rewrite !N.leb_le; lia.
Qed.

Lemma cutoff_exact : forall d now e, now < U64 ->
  (fst (cutoff d now) <=? ts e) = young_enough now d e.
Proof.
  intros d now e. unfold cutoff, sat_mul64, young_enough, SECONDS_PER_DAY, U64. cbn [fst]. intros Hn.
  apply eq_true_iff_eq.
  destruct (18446744073709551616 <=? d * 86400) eqn:E;
    [apply N.leb_le in E | apply N.leb_gt in E]; rewrite !N.leb_le; lia.
Qed.

Lemma stage1_exact : forall c now h, now < U64 -> stage1 c now h = age_filter c now h.
Proof.
  intros c now h Hn. unfold stage1, age_filter. destruct (max_age_days c) as [d|]; [|reflexivity].
  apply filter_ext. intros e. now apply cutoff_exact.
Qed.

Lemma stage1_subseq : forall c now h, subseq (stage1 c now h) h.
Proof. intros. unfold stage1. destruct (max_age_days c); [apply subseq_filter|apply subseq_refl]. Qed.

Lemma stage1_young : forall c now h d e,
  max_age_days c = Some d -> In e (stage1 c now h) -> young_enough now d e = true.
Proof.
  intros c now h d e Hd Hin. unfold stage1 in Hin. rewrite Hd in Hin.
  apply filter_In in Hin. destruct Hin as [_ H]. now apply cutoff_sound.
Qed.

Lemma drop_front_suffix : forall m h, exists pre, h = pre ++ drop_front m h.
Proof.
  intros m h. unfold drop_front. destruct (m <? len h).
  - exists (firstn (N.to_nat (len h - m)) h). symmetry. apply firstn_skipn.
  - exists []. reflexivity.
Qed.

Lemma drop_front_subseq : forall m h, subseq (drop_front m h) h.
Proof. intros. unfold drop_front. destruct (m <? len h); [apply subseq_skipn|apply subseq_refl]. Qed.

Lemma drop_front_len : forall m h, len (drop_front m h) = N.min m (len h).
Proof.
  intros m h. unfold drop_front, len. destruct (m <? N.of_nat (length h)) eqn:E.
  - apply N.ltb_lt in E. rewrite skipn_length. lia.
  - apply N.ltb_ge in E. lia.
Qed.

Lemma stage2_subseq : forall c h, subseq (stage2 c h) h.
Proof. intros. unfold stage2. destruct (max_entries c); [apply drop_front_subseq|apply subseq_refl]. Qed.

Lemma stage2_suffix : forall c h, exists pre, h = pre ++ stage2 c h.
Proof.
  intros. unfold stage2. destruct (max_entries c); [apply drop_front_suffix|]. exists []. reflexivity.
Qed.

(* result of retention = subsequence of the input *)
Lemma retention_subseq : forall c now h h' ov, apply_retention c now h = (h', ov) -> subseq h' h.
Proof.
  intros c now h h' ov H. rewrite apply_retention_stages in H. inversion H; subst.
  eapply subseq_trans; [apply stage2_subseq|apply stage1_subseq].
Qed.

Lemma retention_bounds : forall c now h h' ov, apply_retention c now h = (h', ov) ->
  ov = false /\
  (forall m, max_entries c = Some m -> len h' <= m) /\
  (forall d e, max_age_days c = Some d -> In e h' -> now <= ts e + d * 86400).
Proof.
  intros c now h h' ov H. rewrite apply_retention_stages in H. inversion H; subst. clear H.
  split; [reflexivity|]. split.
  - intros m Hm. unfold stage2. rewrite Hm. rewrite drop_front_len. lia.
  - intros d e Hd Hin.
    assert (Hin1 : In e (stage1 c now h)) by (eapply subseq_In; [apply stage2_subseq|exact Hin]).
    pose proof (stage1_young _ _ _ _ _ Hd Hin1) as Hy. unfold young_enough in Hy. now apply N.leb_le in Hy.
Qed.

(* exact characterisation for clock values that fit in u64 *)
Lemma retention_exact : forall c now h, now < U64 ->
  apply_retention c now h = (stage2 c (age_filter c now h), false).
Proof. intros. rewrite apply_retention_stages, stage1_exact by assumption. reflexivity. Qed.

(* the entries dropped by the count limit are the oldest-recorded ones: the result is a suffix of
   the age-filtered list, of length min(max_entries, |filtered|) *)
Lemma retention_keeps_most_recent : forall c now h h' ov, now < U64 ->
  apply_retention c now h = (h', ov) ->
  (exists dropped, age_filter c now h = dropped ++ h') /\
  (forall m, max_entries c = Some m -> len h' = N.min m (len (age_filter c now h))) /\
  (max_entries c = None -> h' = age_filter c now h).
Proof.
  intros c now h h' ov Hn H. rewrite retention_exact in H by assumption. inversion H; subst. clear H.
  split; [apply stage2_suffix|]. split.
  - intros m Hm. unfold stage2. rewrite Hm. apply drop_front_len.
  - intros Hm. unfold stage2. now rewrite Hm.
Qed.

(* ---------------------------------------------------------------- snapshot_op *)
Lemma snapshot_saved : forall c force now t tag h h' ov,
  snapshot_op c force now t tag h = Saved h' ov ->
  apply_retention c now (h ++ [mk_entry now t tag]) = (h', ov).
Proof.
  intros c force now t tag h h' ov H. unfold snapshot_op in H.
  destruct (force || should_add c now h); [|discriminate].
  destruct (apply_retention c now (h ++ [mk_entry now t tag])) as [h1 o1]. now inversion H.
Qed.

Lemma snapshot_old_entries_untouched : forall c force now t tag h h' ov,
  snapshot_op c force now t tag h = Saved h' ov -> subseq h' (h ++ [mk_entry now t tag]).
Proof. intros. eapply retention_subseq. eapply snapshot_saved. eassumption. Qed.

Lemma skipn_app_le : forall A n (l1 l2 : list A), (n <= length l1)%nat -> skipn n (l1 ++ l2) = skipn n l1 ++ l2.
Proof.
  intros A n l1 l2 H. rewrite skipn_app. replace (n - length l1)%nat with 0%nat by lia. reflexivity.
Qed.

Lemma drop_front_snoc : forall m l e, 1 <= m -> drop_front m (l ++ [e]) = drop_front (m - 1) l ++ [e].
Proof.
  intros m l e Hm. unfold drop_front, len. rewrite app_length. cbn [length].
  destruct (m <? N.of_nat (length l + 1)) eqn:E1; destruct (m - 1 <? N.of_nat (length l)) eqn:E2;
    try apply N.ltb_lt in E1; try apply N.ltb_ge in E1; try apply N.ltb_lt in E2; try apply N.ltb_ge in E2; try lia.
  - rewrite skipn_app_le by lia. f_equal. f_equal. lia.
  - reflexivity.
Qed.

Lemma stage1_snoc_now : forall c now h t tag,
  stage1 c now (h ++ [mk_entry now t tag]) = stage1 c now h ++ [mk_entry now t tag].
Proof.
  intros c now h t tag. unfold stage1. destruct (max_age_days c) as [d|]; [|reflexivity].
  rewrite filter_app. cbn [filter mk_entry ts]. unfold cutoff. cbn [fst].
  replace (now - sat_mul64 d SECONDS_PER_DAY <=? now) with true; [reflexivity|].
  symmetry. apply N.leb_le. lia.
Qed.

(* exactly one entry is appended: unless max_entries = 0, the saved history ends with the new
   entry and the rest is a subsequence of the old history *)
Lemma snapshot_append_one : forall c force now t tag h h' ov,
  snapshot_op c force now t tag h = Saved h' ov -> max_entries c <> Some 0 ->
  exists h0, h' = h0 ++ [mk_entry now t tag] /\ subseq h0 h.
Proof.
  intros c force now t tag h h' ov H Hm. apply snapshot_saved in H.
  rewrite apply_retention_stages in H. inversion H; subst. clear H.
  rewrite stage1_snoc_now. unfold stage2. destruct (max_entries c) as [m|] eqn:Em.
  - rewrite drop_front_snoc by (destruct (N.eq_dec m 0); [subst; congruence|lia]).
    eexists. split; [reflexivity|]. eapply subseq_trans; [apply drop_front_subseq|apply stage1_subseq].
  - eexists. split; [reflexivity|]. apply stage1_subseq.
Qed.

Lemma snapshot_skip_iff : forall c force now t tag h,
  snapshot_op c force now t tag h = Skipped <->
  force = false /\ exists mi l, min_interval c = Some mi /\ latest h = Some l /\ now - ts l < mi.
Proof.
  intros c force now t tag h. unfold snapshot_op, should_add.
  destruct force; cbn [orb].
  - destruct (apply_retention c now (h ++ [mk_entry now t tag])). split; [discriminate|intros [H _]; discriminate].
  - destruct (min_interval c) as [mi|].
    + destruct (latest h) as [l|].
      * destruct (mi <=? now - ts l) eqn:E.
        -- destruct (apply_retention c now (h ++ [mk_entry now t tag])). split; [discriminate|].
           intros [_ (mi' & l' & Hmi & Hl & Hlt)]. inversion Hmi; inversion Hl; subst. apply N.leb_le in E. lia.
        -- split; [|reflexivity]. intros _. split; [reflexivity|]. exists mi, l. apply N.leb_gt in E. auto.
      * destruct (apply_retention c now (h ++ [mk_entry now t tag])). split; [discriminate|].
        intros [_ (mi' & l' & _ & Hl & _)]. discriminate.
    + destruct (apply_retention c now (h ++ [mk_entry now t tag])). split; [discriminate|].
      intros [_ (mi' & l' & Hmi & _)]. discriminate.
Qed.

(* ---------------------------------------------------------------- sortedness *)
Lemma sorted_from_weaken : forall h lo lo', lo <= lo' -> sorted_from lo' h -> sorted_from lo h.
Proof. destruct h; cbn; [auto|]. intros lo lo' H [H1 H2]. split; [lia|assumption]. Qed.

Lemma sorted_subseq : forall a b, subseq a b -> forall lo, sorted_from lo b -> sorted_from lo a.
Proof.
  induction 1; intros lo Hs; cbn in *.
  - exact I.
  - destruct Hs as [H1 H2]. split; auto.
  - destruct Hs as [H1 H2]. eapply sorted_from_weaken; [exact H1|]. auto.
Qed.

Lemma sorted_snoc : forall h lo e, sorted_from lo h -> lo <= ts e ->
  (forall l, latest h = Some l -> ts l <= ts e) -> sorted_from lo (h ++ [e]).
Proof.
  induction h as [|x tl IH]; intros lo e Hs Hlo Hl; cbn in *.
  - auto.
  - destruct Hs as [H1 H2]. split; [exact H1|].
    destruct tl as [|y tl'].
    + cbn. split; [|exact I]. apply Hl. reflexivity.
    + apply IH; [exact H2| |].
      * destruct (latest_cases (y :: tl')) as [[Hn _]|(h0 & l & Hh & Hlat)]; [discriminate|].
        assert (Hxl : latest (x :: y :: tl') = Some l).
        { rewrite Hh. change (x :: h0 ++ [l]) with ((x :: h0) ++ [l]). apply last_map_some. }
        specialize (Hl _ Hxl).
        assert (Hchain : forall h lo0 l0, sorted_from lo0 h -> latest h = Some l0 -> lo0 <= ts l0).
        { clear. induction h as [|a t IHt]; intros lo0 l0 Hs Hlat; [discriminate|].
          cbn in Hs. destruct Hs as [Ha Ht]. destruct t as [|b t'].
          - inversion Hlat; subst. exact Ha.
          - assert (latest (a :: b :: t') = latest (b :: t')) by reflexivity.
            rewrite H in Hlat. specialize (IHt _ _ Ht Hlat). lia. }
        specialize (Hchain _ _ _ H2 Hlat). lia.
      * intros l Hlat. apply Hl. exact Hlat.
Qed.

(* snapshots under a clock that is not behind the latest entry keep the history sorted *)
Lemma snapshot_sorted : forall c force now t tag h h' ov,
  sorted h -> (forall l, latest h = Some l -> ts l <= now) ->
  snapshot_op c force now t tag h = Saved h' ov -> sorted h'.
Proof.
  intros c force now t tag h h' ov Hs Hl H. unfold sorted in *.
  eapply sorted_subseq; [eapply snapshot_old_entries_untouched; exact H|].
  apply sorted_snoc; [exact Hs|cbn; lia|exact Hl].
Qed.

(* ---------------------------------------------------------------- selection *)
Lemma find_rev_spec : forall (f : entry -> bool) h,
  match find f (rev h) with
  | Some e => exists h1 h2, h = h1 ++ e :: h2 /\ f e = true /\ Forall (fun x => f x = false) h2
  | None => Forall (fun x => f x = false) h
  end.
Proof.
  intros f h. induction h as [|x h IH] using rev_ind.
  - cbn. constructor.
  - rewrite rev_app_distr. cbn [rev app find]. destruct (f x) eqn:Ex.
    + exists h, []. repeat split; auto.
    + destruct (find f (rev h)) as [e|].
      * destruct IH as (h1 & h2 & -> & He & Hall). exists h1, (h2 ++ [x]).
        rewrite <- app_assoc. cbn. repeat split; auto. apply Forall_app. split; auto.
      * apply Forall_app. split; auto.
Qed.

Lemma since_selects : forall d now h,
  match select_entry (Some d) now h with
  | Some e => exists h1 h2, h = h1 ++ e :: h2 /\ ts e <= now - d /\ Forall (fun x => now - d < ts x) h2
  | None => Forall (fun x => now - d < ts x) h
  end.
Proof.
  intros d now h. unfold select_entry, find_entry_at_or_before.
  pose proof (find_rev_spec (fun e => ts e <=? now - d) h) as H.
  destruct (find (fun e => ts e <=? now - d) (rev h)) as [e|].
  - destruct H as (h1 & h2 & Hh & He & Hall). exists h1, h2. repeat split; auto.
    + now apply N.leb_le in He.
    + eapply Forall_impl; [|exact Hall]. cbn. intros a Ha. now apply N.leb_gt in Ha.
  - eapply Forall_impl; [|exact H]. cbn. intros a Ha. now apply N.leb_gt in Ha.
Qed.

Lemma latest_selects : forall now h, select_entry None now h = latest h.
Proof. reflexivity. Qed.

(* ---------------------------------------------------------------- deltas *)
Lemma ZI63 : Z.of_N I63 = 9223372036854775808%Z. Proof. reflexivity. Qed.
Lemma ZU64 : Z.of_N U64 = 18446744073709551616%Z. Proof. reflexivity. Qed.

Lemma sub_i64_exact : forall a b, a < I63 -> b < I63 -> sub_i64 a b = ((Z.of_N a - Z.of_N b)%Z, false).
Proof.
  intros a b Ha Hb. unfold sub_i64, to_i64.
  apply N.ltb_lt in Ha as Ha'. apply N.ltb_lt in Hb as Hb'. rewrite Ha', Hb'.
  assert (HA : (0 <= Z.of_N a < 9223372036854775808)%Z) by (unfold I63 in Ha; lia).
  assert (HB : (0 <= Z.of_N b < 9223372036854775808)%Z) by (unfold I63 in Hb; lia).
  set (d := (Z.of_N a - Z.of_N b)%Z) in *.
  assert (Hd : (-9223372036854775808 < d < 9223372036854775808)%Z) by (subst d; lia).
  f_equal.
  - unfold wrap_i64. rewrite ZU64, ZI63.
    destruct (Z_lt_le_dec d 0) as [Hneg|Hpos].
    + assert (Hm : (d mod 18446744073709551616 = d + 18446744073709551616)%Z).
      { symmetry. apply Z.mod_unique with (q := (-1)%Z); lia. }
      rewrite Hm. destruct (d + 18446744073709551616 <? 9223372036854775808)%Z eqn:E;
        [apply Z.ltb_lt in E; lia | lia].
    + rewrite Z.mod_small by lia. destruct (d <? 9223372036854775808)%Z eqn:E;
        [reflexivity | apply Z.ltb_ge in E; lia].
  - unfold in_i64. rewrite ZI63.
    destruct (-9223372036854775808 <=? d)%Z eqn:E1; destruct (d <? 9223372036854775808)%Z eqn:E2; cbn; try reflexivity;
      try apply Z.leb_gt in E1; try apply Z.ltb_ge in E2; lia.
Qed.

Lemma delta_exact : forall prev cur, fits63 (e_tot prev) -> fits63 cur ->
  compute_delta prev cur =
  (mkD (Z.of_N (t_files cur) - Z.of_N (t_files (e_tot prev)))
       (Z.of_N (t_lines cur) - Z.of_N (t_lines (e_tot prev)))
       (Z.of_N (t_code cur) - Z.of_N (t_code (e_tot prev)))
       (Z.of_N (t_comment cur) - Z.of_N (t_comment (e_tot prev)))
       (Z.of_N (t_blank cur) - Z.of_N (t_blank (e_tot prev)))
       (ts prev) (e_tag prev), false)%Z.
Proof.
  intros prev cur (P1 & P2 & P3 & P4 & P5) (C1 & C2 & C3 & C4 & C5). unfold compute_delta.
  rewrite !sub_i64_exact by assumption. reflexivity.
Qed.

Lemma significant_iff : forall d c,
  is_significant d c = true <->
  d_files d <> 0%Z \/
  (match min_code_delta c with Some t => t | None => 10 end) < Z.abs_N (d_code d).
Proof.
  intros d c. unfold is_significant, DEFAULT_MIN_CODE_DELTA.
  rewrite orb_true_iff, negb_true_iff, Z.eqb_neq, N.ltb_lt. reflexivity.
Qed.

(* ---------------------------------------------------------------- whole-project totals *)
Lemma filter_filter : forall A (f g : A -> bool) l, filter f (filter g l) = filter (fun x => g x && f x) l.
Proof.
  induction l as [|x l IH]; cbn; [reflexivity|].
  destruct (g x); cbn; [destruct (f x); cbn; now rewrite IH|exact IH].
Qed.

Lemma snapshot_totals_eq_summary : forall fs, snapshot_totals fs = summary_totals fs.
Proof.
  intros fs. unfold snapshot_totals, summary_totals, snapshot_files, summary_files.
  now rewrite filter_filter.
Qed.

Lemma existsb_false_forall : forall A (p : A -> bool) l, existsb p l = false -> forall x, In x l -> p x = false.
Proof.
  induction l as [|a l IH]; cbn; intros H x Hin; [contradiction|].
  apply orb_false_iff in H. destruct H as [Ha Hl]. destruct Hin as [->|Hin]; auto.
Qed.

Lemma check_totals_eq_summary : forall fs,
  restricted_run fs = false -> k16_filter_mismatch fs = false -> check_totals fs = summary_totals fs.
Proof.
  intros fs Hr Hk. unfold check_totals, summary_totals, check_files, summary_files. f_equal.
  apply filter_ext_in. intros f Hin.
  pose proof (existsb_false_forall _ _ _ Hr f Hin) as H1. cbn in H1.
  pose proof (existsb_false_forall _ _ _ Hk f Hin) as H2. cbn in H2.
  apply orb_false_iff in H1. destruct H1 as [Hs Hd]. apply negb_false_iff in Hs. rewrite Hs, Hd. cbn.
  destruct (pf_counted f); cbn in *; [|now rewrite !andb_false_r].
  apply negb_false_iff in H2. apply eqb_prop in H2. rewrite H2. now rewrite !andb_true_r.
Qed.

(* ---------------------------------------------------------------- commands *)
Lemma step_stats_readonly : forall c now fs tag h, step c CStats now fs tag h = (h, false).
Proof. reflexivity. Qed.
Lemma step_dry_run_readonly : forall c force now fs tag h, step c (CSnapshot force true) now fs tag h = (h, false).
Proof. reflexivity. Qed.
Lemma step_check_readonly : forall c auto passed partial now fs tag h,
  auto = false \/ passed = false \/ partial = true ->
  step c (CCheck auto passed partial) now fs tag h = (h, false).
Proof.
  intros c auto passed partial now fs tag h H. unfold step, auto_snapshot_totals.
  destruct H as [->|[->| ->]]; cbn; [reflexivity| |]; rewrite ?andb_false_r; reflexivity.
Qed.

(* what a state-changing command records: the history is either untouched (interval not elapsed)
   or the retention of old ++ [entry with this clock value and these totals] *)
Lemma step_snapshot_records : forall c force now fs tag h h' ov,
  step c (CSnapshot force false) now fs tag h = (h', ov) ->
  h' = h \/ apply_retention c now (h ++ [mk_entry now (summary_totals fs) tag]) = (h', ov).
Proof.
  intros c force now fs tag h h' ov H. unfold step in H. rewrite snapshot_totals_eq_summary in H.
  destruct (snapshot_op c force now (summary_totals fs) tag h) as [|h1 o1] eqn:E.
  - inversion H. now left.
  - inversion H; subst. right. now apply snapshot_saved in E.
Qed.

Lemma step_check_records : forall c now fs tag h h' ov,
  step c (CCheck true true false) now fs tag h = (h', ov) ->
  h' = h \/ apply_retention c now (h ++ [mk_entry now (check_totals fs) tag]) = (h', ov).
Proof.
  intros c now fs tag h h' ov H. unfold step, auto_snapshot_totals in H. cbn in H.
  destruct (snapshot_op c false now (check_totals fs) tag h) as [|h1 o1] eqn:E.
  - inversion H. now left.
  - inversion H; subst. right. now apply snapshot_saved in E.
Qed.

(* ---------------------------------------------------------------- durations *)
Definition starts_nondigit (u : str) : Prop := match u with [] => True | c :: _ => is_digit c = false end.

Lemma span_digits_spec : forall s ds u, span_digits s = (ds, u) ->
  s = ds ++ u /\ forallb is_digit ds = true /\ starts_nondigit u.
Proof.
  induction s as [|c s IH]; intros ds u H; cbn in H.
  - inversion H. cbn. auto.
  - destruct (is_digit c) eqn:Ec.
    + destruct (span_digits s) as [d1 u1]. inversion H; subst.
      destruct (IH d1 u eq_refl) as (-> & Hd & Hu). cbn. rewrite Ec. auto.
    + inversion H; subst. cbn. auto.
Qed.

Lemma span_digits_unique : forall ds u, forallb is_digit ds = true -> starts_nondigit u ->
  span_digits (ds ++ u) = (ds, u).
Proof.
  induction ds as [|d ds IH]; intros u Hd Hu; cbn in *.
  - destruct u as [|c u]; [reflexivity|]. cbn in Hu. cbn. now rewrite Hu.
  - apply andb_true_iff in Hd. destruct Hd as [H1 H2]. rewrite H1, IH by assumption. reflexivity.
Qed.

Lemma unit_mult_pos : forall u m, unit_mult u = Some m -> 1 <= m.
Proof.
  intros u m. unfold unit_mult, unit_table. cbn [lookup_unit].
  repeat (match goal with |- context [if ?b then _ else _] => destruct b end);
    intros H; inversion H; subst; lia.
Qed.

(* the documented grammar: optional white space, one or more ASCII digits (value n, 0 < n),
   a unit name in any letter case, optional white space; the answer is n * multiplier and it
   fits in 64 bits *)
Definition dur_spec (s : str) (v : N) : Prop :=
  exists ds u m,
    trim s = ds ++ u /\ ds <> [] /\ forallb is_digit ds = true /\ u <> [] /\ starts_nondigit u /\
    unit_mult u = Some m /\ 0 < dec_value ds 0 /\ dec_value ds 0 * m < U64 /\ v = dec_value ds 0 * m.

Lemma parse_duration_ok : forall s v, parse_duration s = DOk v -> dur_spec s v.
Proof.
  intros s v H. unfold parse_duration in H.
  destruct (trim s) as [|c0 s0] eqn:Et; [discriminate|].
  destruct (span_digits (c0 :: s0)) as [ds u] eqn:Es.
  destruct u as [|uc u']; [discriminate|]. destruct ds as [|d0 ds']; [discriminate|].
  cbv zeta in H.
  destruct (U64 <=? dec_value (d0 :: ds') 0) eqn:E1; [discriminate|].
  destruct (N.eqb (dec_value (d0 :: ds') 0) 0) eqn:E2; [discriminate|].
  destruct (unit_mult (uc :: u')) as [m|] eqn:Eu; [|discriminate].
  unfold checked_mul64 in H. destruct (U64 <=? dec_value (d0 :: ds') 0 * m) eqn:E3; [discriminate|].
  inversion H; subst. clear H.
  apply span_digits_spec in Es. destruct Es as (Hs & Hd & Hu).
  exists (d0 :: ds'), (uc :: u'), m. apply N.eqb_neq in E2. apply N.leb_gt in E3.
  split; [rewrite Et; exact Hs|]. split; [discriminate|]. split; [exact Hd|]. split; [discriminate|].
  split; [exact Hu|]. split; [exact Eu|]. split; [lia|]. split; [exact E3|reflexivity].
Qed.

Lemma parse_duration_complete : forall s v, dur_spec s v -> parse_duration s = DOk v.
Proof.
  intros s v (ds & u & m & Ht & Hne & Hd & Hune & Hu & Hm & Hpos & Hfit & ->).
  unfold parse_duration. rewrite Ht.
  pose proof (span_digits_unique ds u Hd Hu) as Hs.
  destruct ds as [|d0 ds']; [contradiction|]. destruct u as [|uc u']; [contradiction|].
  cbn [app] in *. rewrite Hs. cbv zeta.
  pose proof (unit_mult_pos _ _ Hm) as Hm1.
  assert (Hv : dec_value (d0 :: ds') 0 < U64) by nia.
  apply N.leb_gt in Hv as Hv'. rewrite Hv'.
  assert (E2 : N.eqb (dec_value (d0 :: ds') 0) 0 = false) by (apply N.eqb_neq; lia). rewrite E2.
  rewrite Hm. unfold checked_mul64. apply N.leb_gt in Hfit. now rewrite Hfit.
Qed.

Lemma parse_duration_no_overflow : forall s w, parse_duration s <> DOverflow w.
Proof.
  intros s w H. unfold parse_duration in H.
  destruct (trim s) as [|c0 s0]; [discriminate|]. destruct (span_digits (c0 :: s0)) as [ds u].
  destruct u; [discriminate|]. destruct ds; [discriminate|]. cbv zeta in H.
  destruct (U64 <=? _); [discriminate|]. destruct (N.eqb _ 0); [discriminate|].
  destruct (unit_mult _); [|discriminate]. destruct (checked_mul64 _ _); discriminate.
Qed.

(* an out-of-range product is a configuration error, identically in both build profiles *)
Lemma parse_duration_too_large : forall s,
  (exists ds u m, trim s = ds ++ u /\ ds <> [] /\ forallb is_digit ds = true /\ u <> [] /\ starts_nondigit u /\
     unit_mult u = Some m /\ 0 < dec_value ds 0 < U64 /\ U64 <= dec_value ds 0 * m) ->
  parse_duration s = DErr ETooLarge.
Proof.
  intros s (ds & u & m & Ht & Hne & Hd & Hune & Hu & Hm & [Hpos Hv] & Hbig).
  unfold parse_duration. rewrite Ht.
  pose proof (span_digits_unique ds u Hd Hu) as Hs.
  destruct ds as [|d0 ds']; [contradiction|]. destruct u as [|uc u']; [contradiction|].
  cbn [app] in *. rewrite Hs. cbv zeta.
  apply N.leb_gt in Hv as Hv'. rewrite Hv'.
  assert (E2 : N.eqb (dec_value (d0 :: ds') 0) 0 = false) by (apply N.eqb_neq; lia). rewrite E2.
  rewrite Hm. unfold checked_mul64. apply N.leb_le in Hbig. now rewrite Hbig.
Qed.

Lemma since_of_string_no_overflow : forall s, snd (since_of_string s) = false.
Proof.
  intros [x|]; [|reflexivity]. unfold since_of_string.
  destruct (parse_duration x) eqn:E; try reflexivity. exfalso. eapply parse_duration_no_overflow. exact E.
Qed.

Lemma parse_duration_spec : forall s v, parse_duration s = DOk v <-> dur_spec s v.
Proof. split; [apply parse_duration_ok|apply parse_duration_complete]. Qed.
