(* Properties_C15.v -- C15: trend history: append-only, whole-project, retention-bounded, exact
   deltas. Property theorems only; each is closed by [exact <lemma>] and followed by Print
   Assumptions. Model: Trend/Trend.v (src/stats/trend.rs, commands/snapshot.rs, check_snapshot.rs,
   runner.rs step 11) and Trend/Duration.v (src/stats/duration.rs), for EVERY history (sorted or
   not: equal, far-apart and backwards clocks), every retention configuration, every clock value
   and every duration string. The model is the code AFTER the repairs D17 (checked / saturating
   products) and D16 (no auto-snapshot on a partial check run); the remaining refuted part of the
   statement is the filter mismatch between check and stats (K16_filter_mismatch). *)
From Coq Require Import NArith ZArith List Bool.
From SG Require Import Trend.Duration Trend.Trend Trend.Proofs_C15.
Import ListNotations.
Open Scope N_scope.

(* a recorded snapshot appends exactly one entry, the one carrying this clock value and these
   totals (unless max_entries = 0 keeps nothing at all) *)
Theorem C15_append_one : forall c force now t tag h h' ov,
  snapshot_op c force now t tag h = Saved h' ov -> max_entries c <> Some 0 ->
  exists h0, h' = h0 ++ [mk_entry now t tag] /\ subseq h0 h.
Proof. exact snapshot_append_one. Qed.
Print Assumptions C15_append_one.

(* earlier entries are never rewritten or reordered: the saved history is a subsequence of
   old ++ [new] *)
Theorem C15_old_entries_untouched : forall c force now t tag h h' ov,
  snapshot_op c force now t tag h = Saved h' ov -> subseq h' (h ++ [mk_entry now t tag]).
Proof. exact snapshot_old_entries_untouched. Qed.
Print Assumptions C15_old_entries_untouched.

(* at most max_entries entries, none older than max_age_days (unbounded arithmetic:
   ts e >= now - d * 86400), and no u64 overflow on the way, for every configuration value *)
Theorem C15_retention_bounds : forall c now h h' ov, apply_retention c now h = (h', ov) ->
  ov = false /\
  (forall m, max_entries c = Some m -> len h' <= m) /\
  (forall d e, max_age_days c = Some d -> In e h' -> now <= ts e + d * 86400).
Proof. exact retention_bounds. Qed.
Print Assumptions C15_retention_bounds.

(* nothing else is dropped, and the count limit drops the oldest-recorded entries: the result
   is the suffix of length min(max_entries, .) of the entries that are young enough *)
Theorem C15_keeps_most_recent : forall c now h h' ov, now < U64 ->
  apply_retention c now h = (h', ov) ->
  (exists dropped, age_filter c now h = dropped ++ h') /\
  (forall m, max_entries c = Some m -> len h' = N.min m (len (age_filter c now h))) /\
  (max_entries c = None -> h' = age_filter c now h).
Proof. exact retention_keeps_most_recent. Qed.
Print Assumptions C15_keeps_most_recent.

(* under a clock that is not behind the latest entry the history stays sorted, so most-recently-recorded
   and newest-by-timestamp coincide *)
Theorem C15_sorted_preserved : forall c force now t tag h h' ov,
  sorted h -> (forall l, latest h = Some l -> ts l <= now) ->
  snapshot_op c force now t tag h = Saved h' ov -> sorted h'.
Proof. exact snapshot_sorted. Qed.
Print Assumptions C15_sorted_preserved.

(* skipped iff not forced and the (saturating) distance to the latest entry is below
   min_interval_secs *)
Theorem C15_min_interval : forall c force now t tag h,
  snapshot_op c force now t tag h = Skipped <->
  force = false /\ exists mi l, min_interval c = Some mi /\ latest h = Some l /\ now - ts l < mi.
Proof. exact snapshot_skip_iff. Qed.
Print Assumptions C15_min_interval.

(* --since D selects the most recently recorded entry at or before now - D (saturating) *)
Theorem C15_since_selects : forall d now h,
  match select_entry (Some d) now h with
  | Some e => exists h1 h2, h = h1 ++ e :: h2 /\ ts e <= now - d /\ Forall (fun x => now - d < ts x) h2
  | None => Forall (fun x => now - d < ts x) h
  end.
Proof. exact since_selects. Qed.
Print Assumptions C15_since_selects.

Theorem C15_latest_selects : forall now h, select_entry None now h = latest h.
Proof. exact latest_selects. Qed.
Print Assumptions C15_latest_selects.

(* the delta is current minus selected, exactly, without overflow, for all values below 2^63 *)
Theorem C15_delta_exact : forall prev cur, fits63 (e_tot prev) -> fits63 cur ->
  compute_delta prev cur =
  (mkD (Z.of_N (t_files cur) - Z.of_N (t_files (e_tot prev)))
       (Z.of_N (t_lines cur) - Z.of_N (t_lines (e_tot prev)))
       (Z.of_N (t_code cur) - Z.of_N (t_code (e_tot prev)))
       (Z.of_N (t_comment cur) - Z.of_N (t_comment (e_tot prev)))
       (Z.of_N (t_blank cur) - Z.of_N (t_blank (e_tot prev)))
       (ts prev) (e_tag prev), false)%Z.
Proof. exact delta_exact. Qed.
Print Assumptions C15_delta_exact.

Theorem C15_significant_iff : forall d c,
  is_significant d c = true <->
  d_files d <> 0%Z \/
  (match min_code_delta c with Some t => t | None => 10 end) < Z.abs_N (d_code d).
Proof. exact significant_iff. Qed.
Print Assumptions C15_significant_iff.

(* duration strings: accepted exactly when they follow the grammar and the product fits *)
Theorem C15_duration_spec : forall s v, parse_duration s = DOk v <-> dur_spec s v.
Proof. exact parse_duration_spec. Qed.
Print Assumptions C15_duration_spec.

(* no unchecked product is left (D17 repaired): never the Overflow outcome, a too large product
   is a configuration error *)
Theorem C15_no_overflow : forall s w, parse_duration s <> DOverflow w.
Proof. exact parse_duration_no_overflow. Qed.
Print Assumptions C15_no_overflow.

Theorem C15_duration_too_large_is_error : forall s,
  (exists ds u m, trim s = ds ++ u /\ ds <> [] /\ forallb is_digit ds = true /\ u <> [] /\ starts_nondigit u /\
     unit_mult u = Some m /\ 0 < dec_value ds 0 < U64 /\ U64 <= dec_value ds 0 * m) ->
  parse_duration s = DErr ETooLarge.
Proof. exact parse_duration_too_large. Qed.
Print Assumptions C15_duration_too_large_is_error.

(* whole-project totals. `snapshot` records what `stats summary` reports ... *)
Theorem C15_whole_project_totals_snapshot : forall fs, snapshot_totals fs = summary_totals fs.
Proof. exact snapshot_totals_eq_summary. Qed.
Print Assumptions C15_whole_project_totals_snapshot.

(* ... the auto-snapshot of `check` does not in general: refuted by one file under content.exclude
   on an unrestricted run (the rest of D16) ... *)
Theorem C15_whole_project_totals_auto_refuted :
  exists fs, restricted_run fs = false /\ check_totals fs <> summary_totals fs.
Proof.
  exists [mkF 3 2 1 0 true true true false true false]. split; [reflexivity|].
  vm_compute. discriminate.
Qed.
Print Assumptions C15_whole_project_totals_auto_refuted.

(* ... and holds for every run outside that class *)
Theorem C15_whole_project_totals_auto_modulo_known : forall fs,
  restricted_run fs = false -> k16_filter_mismatch fs = false -> check_totals fs = summary_totals fs.
Proof. exact check_totals_eq_summary. Qed.
Print Assumptions C15_whole_project_totals_auto_modulo_known.

(* what the two writing commands put in the history file *)
Theorem C15_snapshot_records : forall c force now fs tag h h' ov,
  step c (CSnapshot force false) now fs tag h = (h', ov) ->
  h' = h \/ apply_retention c now (h ++ [mk_entry now (summary_totals fs) tag]) = (h', ov).
Proof. exact step_snapshot_records. Qed.
Print Assumptions C15_snapshot_records.

Theorem C15_auto_snapshot_records : forall c now fs tag h h' ov,
  step c (CCheck true true false) now fs tag h = (h', ov) ->
  h' = h \/ apply_retention c now (h ++ [mk_entry now (check_totals fs) tag]) = (h', ov).
Proof. exact step_check_records. Qed.
Print Assumptions C15_auto_snapshot_records.

(* read-only commands: stats (summary, files, trend, history, report), snapshot --dry-run, check
   without auto-snapshot, a failing check and (D16 repaired) a partial check run leave the
   history untouched *)
Theorem C15_readonly_stats : forall c now fs tag h, step c CStats now fs tag h = (h, false).
Proof. exact step_stats_readonly. Qed.
Print Assumptions C15_readonly_stats.

Theorem C15_readonly_dry_run : forall c force now fs tag h, step c (CSnapshot force true) now fs tag h = (h, false).
Proof. exact step_dry_run_readonly. Qed.
Print Assumptions C15_readonly_dry_run.

Theorem C15_readonly_check : forall c auto passed partial now fs tag h,
  auto = false \/ passed = false \/ partial = true ->
  step c (CCheck auto passed partial) now fs tag h = (h, false).
Proof. exact step_check_readonly. Qed.
Print Assumptions C15_readonly_check.

(* ---- non-vacuity and boundary examples (vm_compute) *)
(* retention at the exact age boundary: the entry exactly max_age_days old is kept, one second
   older is dropped; the count limit then drops the front *)
Example C15_nonvacuous_retention :
  apply_retention (mkC (Some 2) (Some 1) None None) 200000
    [mkE 113599 (mkT 1 1 1 0 0) 0; mkE 113600 (mkT 2 2 2 0 0) 0; mkE 150000 (mkT 3 3 3 0 0) 0; mkE 200000 (mkT 4 4 4 0 0) 0]
  = ([mkE 150000 (mkT 3 3 3 0 0) 0; mkE 200000 (mkT 4 4 4 0 0) 0], false).
Proof. vm_compute. reflexivity. Qed.
Print Assumptions C15_nonvacuous_retention.

(* backwards clock: the snapshot is recorded after a newer-stamped entry, both survive *)
Example C15_nonvacuous_backwards_clock :
  snapshot_op (mkC (Some 5) None (Some 60) None) false 100 (mkT 1 2 2 0 0) 0 [mkE 500 (mkT 1 1 1 0 0) 0]
  = Skipped /\
  snapshot_op (mkC (Some 5) None (Some 60) None) true 100 (mkT 1 2 2 0 0) 0 [mkE 500 (mkT 1 1 1 0 0) 0]
  = Saved [mkE 500 (mkT 1 1 1 0 0) 0; mkE 100 (mkT 1 2 2 0 0) 0] false.
Proof. vm_compute. split; reflexivity. Qed.
Print Assumptions C15_nonvacuous_backwards_clock.

(* the former D17 witnesses: a configuration error / nothing expires, no Overflow outcome *)
Example C15_former_D17_witness :
  parse_duration [52;48;48;48;48;48;48;48;48;48;48;48;48;48;48;119] = DErr ETooLarge /\
  apply_retention (mkC None (Some 999999999999999999) None None) 100 [mkE 1 (mkT 1 1 1 0 0) 0]
  = ([mkE 1 (mkT 1 1 1 0 0) 0], false).
Proof. vm_compute. split; reflexivity. Qed.
Print Assumptions C15_former_D17_witness.

(* a duration the grammar accepts, in mixed case with the KELVIN SIGN and white space *)
Example C15_nonvacuous_duration : parse_duration [32;52;87;8490;115;9] = DOk 2419200.
Proof. vm_compute. reflexivity. Qed.
Print Assumptions C15_nonvacuous_duration.
