(* Trend/Duration.v: model of src/stats/duration.rs (parse_duration) and the u64 / i64 helpers the
   trend model needs. Model file: definitions only, no proofs.
   Strings are lists of Unicode scalar values. *)
From Coq Require Import NArith ZArith List Bool.
Import ListNotations.
Open Scope N_scope.

Definition str := list N.

Definition U64 : N := 18446744073709551616.          (* 2^64 *)
Definition I63 : N := 9223372036854775808.           (* 2^63 *)

(* u64 product as the two build profiles see it: the wrapped value and whether it overflowed
   (debug: panic, release: wrap) *)
Definition mul64 (a b : N) : N * bool := let p := a * b in (p mod U64, U64 <=? p).
(* checked_mul *)
Definition checked_mul64 (a b : N) : option N := let p := a * b in if U64 <=? p then None else Some p.
(* saturating_mul *)
Definition sat_mul64 (a b : N) : N := let p := a * b in if U64 <=? p then U64 - 1 else p.

(* char::is_whitespace = Unicode White_Space *)
Definition is_ws (c : N) : bool :=
  ((9 <=? c) && (c <=? 13)) || N.eqb c 32 || N.eqb c 133 || N.eqb c 160 || N.eqb c 5760 ||
  ((8192 <=? c) && (c <=? 8202)) || N.eqb c 8232 || N.eqb c 8233 || N.eqb c 8239 || N.eqb c 8287 || N.eqb c 12288.
Definition is_digit (c : N) : bool := (48 <=? c) && (c <=? 57).

Fixpoint trim_start (s : str) : str :=
  match s with c :: tl => if is_ws c then trim_start tl else s | [] => [] end.
Definition trim (s : str) : str := rev (trim_start (rev (trim_start s))).

(* input.find(|c| !c.is_ascii_digit()) + split_at: the maximal digit prefix and the rest *)
Fixpoint span_digits (s : str) : str * str :=
  match s with
  | c :: tl => if is_digit c then let (d, u) := span_digits tl in (c :: d, u) else ([], s)
  | [] => ([], [])
  end.

Fixpoint dec_value (ds : str) (acc : N) : N :=
  match ds with [] => acc | c :: tl => dec_value tl (acc * 10 + (c - 48)) end.

(* str::to_lowercase restricted to what can matter for the unit match: the only scalar values whose
   lowercase mapping consists of ASCII letters are A-Z and U+212A KELVIN SIGN (k). Every other
   non-ASCII scalar keeps at least one non-ASCII scalar in its mapping (U+0130 maps to i U+0307),
   so it can never make the unit equal to one of the ASCII unit names; identity is enough. *)
Definition lower (c : N) : N :=
  if (65 <=? c) && (c <=? 90) then c + 32 else if N.eqb c 8490 then 107 else c.

Fixpoint str_eqb (a b : str) : bool :=
  match a, b with
  | [], [] => true
  | x :: a', y :: b' => N.eqb x y && str_eqb a' b'
  | _, _ => false
  end.

(* unit names, as code points *)
Definition U_S : list str := [[115]; [115;101;99]; [115;101;99;115]; [115;101;99;111;110;100]; [115;101;99;111;110;100;115]].
Definition U_M : list str := [[109]; [109;105;110]; [109;105;110;115]; [109;105;110;117;116;101]; [109;105;110;117;116;101;115]].
Definition U_H : list str := [[104]; [104;114]; [104;114;115]; [104;111;117;114]; [104;111;117;114;115]].
Definition U_D : list str := [[100]; [100;97;121]; [100;97;121;115]].
Definition U_W : list str := [[119]; [119;107]; [119;107;115]; [119;101;101;107]; [119;101;101;107;115]].
Definition unit_table : list (list str * N) := [(U_S, 1); (U_M, 60); (U_H, 3600); (U_D, 86400); (U_W, 604800)].

Fixpoint lookup_unit (tbl : list (list str * N)) (u : str) : option N :=
  match tbl with
  | [] => None
  | (names, m) :: tl => if existsb (str_eqb u) names then Some m else lookup_unit tl u
  end.
Definition unit_mult (u : str) : option N := lookup_unit unit_table (map lower u).

Inductive dur_err := EEmpty | EMissingUnit | EMissingNumber | EBadNumber | EZero | EBadUnit | ETooLarge.
(* DOverflow w: an unchecked u64 product overflowed; w is the wrapped value the release profile
   returns, the debug profile panics. Since the D17 repair (value.checked_mul(multiplier) -> Config
   error) parse_duration never produces it: theorem C15_no_overflow. The constructor stays so that
   the statement can be made and the harness keeps comparing both build profiles. *)
Inductive dur_result := DOk (v : N) | DErr (e : dur_err) | DOverflow (w : N).

Definition parse_duration (input : str) : dur_result :=
  let s := trim input in
  match s with
  | [] => DErr EEmpty
  | _ =>
    let (ds, u) := span_digits s in
    match u with
    | [] => DErr EMissingUnit
    | _ =>
      match ds with
      | [] => DErr EMissingNumber
      | _ =>
        let v := dec_value ds 0 in
        if U64 <=? v then DErr EBadNumber else
        if N.eqb v 0 then DErr EZero else
        match unit_mult u with
        | None => DErr EBadUnit
        | Some m => match checked_mul64 v m with Some w => DOk w | None => DErr ETooLarge end
        end
      end
    end
  end.
