"""Generators, wire helpers and independent spec oracles for C15 (trend history)."""
import os
import re
from vlib import *  # noqa

U64 = 1 << 64
I63 = 1 << 63
DAY = 86400
WS = [9, 10, 11, 12, 13, 32, 133, 160, 5760] + list(range(8192, 8203)) + [8232, 8233, 8239, 8287, 12288]
UNITS = {1: ["s", "sec", "secs", "second", "seconds"], 60: ["m", "min", "mins", "minute", "minutes"],
         3600: ["h", "hr", "hrs", "hour", "hours"], 86400: ["d", "day", "days"],
         604800: ["w", "wk", "wks", "week", "weeks"]}
UNIT_OF = {n: m for m, ns in UNITS.items() for n in ns}


def enc(s):
    return ",".join(str(ord(c)) for c in s) if s else "-"


# ------------------------------------------------------------------ wire formats
def w_opt(x):
    return "-" if x is None else str(x)


def w_cfg(c):
    return ",".join(w_opt(c.get(k)) for k in ("max_entries", "max_age_days", "min_interval_secs", "min_code_delta"))


def w_tot(t):
    return ":".join(str(x) for x in t)


def w_entries(h):
    return ";".join("%d:%s:%d" % (e[0], w_tot(e[1]), e[2]) for e in h) if h else "-"


def p_entries(s):
    if s == "-":
        return []
    out = []
    for e in s.split(";"):
        f = [int(x) for x in e.split(":")]
        out.append((f[0], tuple(f[1:6]), f[6]))
    return out


# ------------------------------------------------------------------ independent specs (unbounded ints)
def spec_duration(s):
    """('OK', v) | ('ERR', kind) | ('TOOBIG', v) following the documented grammar."""
    i, j = 0, len(s)
    while i < j and ord(s[i]) in WS:
        i += 1
    while j > i and ord(s[j - 1]) in WS:
        j -= 1
    s = s[i:j]
    if not s:
        return ("ERR", "EMPTY")
    m = re.match(r"[0-9]*", s)
    ds, unit = s[:m.end()], s[m.end():]
    if not unit:
        return ("ERR", "NOUNIT")
    if not ds:
        return ("ERR", "NONUM")
    v = int(ds)
    if v >= U64:
        return ("ERR", "BADNUM")
    if v == 0:
        return ("ERR", "ZERO")
    u = unit.lower()      # python: full Unicode lower-casing, like str::to_lowercase
    if u not in UNIT_OF:
        return ("ERR", "BADUNIT")
    r = v * UNIT_OF[u]
    return ("OK", r) if r < U64 else ("TOOBIG", r)


def spec_should_add(c, now, h):
    mi = c.get("min_interval_secs")
    if mi is None or not h:
        return True
    return max(now - h[-1][0], 0) >= mi


def spec_retention(c, now, h):
    d = c.get("max_age_days")
    if d is not None:
        cut = now - d * DAY            # may be negative: nothing is too old
        h = [e for e in h if e[0] >= cut]
    m = c.get("max_entries")
    if m is not None and len(h) > m:
        h = h[len(h) - m:]
    return h


def spec_snapshot(c, force, now, tot, tag, h):
    if not (force or spec_should_add(c, now, h)):
        return None
    return spec_retention(c, now, h + [(now, tuple(tot), tag)])


def spec_select(since, now, h):
    if since is None:
        return h[-1] if h else None
    t = max(now - since, 0)
    for e in reversed(h):
        if e[0] <= t:
            return e
    return None


def spec_delta(c, since, now, cur, h):
    e = spec_select(since, now, h)
    if e is None:
        return None
    d = [a - b for a, b in zip(cur, e[1])]
    thr = c.get("min_code_delta")
    thr = 10 if thr is None else thr
    sig = d[0] != 0 or abs(d[2]) > thr
    return d, e[0], e[2], sig


def fits_i64(cur, h):
    return all(x < I63 for x in cur) and all(x < I63 for e in h for x in e[1])


# ------------------------------------------------------------------ generators
def rand_ws(rng):
    return "".join(chr(rng.choice(WS)) for _ in range(rng.choice([0, 0, 0, 1, 2])))


def rand_case(rng, u):
    out = ""
    for ch in u:
        r = rng.random()
        if ch == "k" and r < 0.15:
            out += "K"          # KELVIN SIGN lower-cases to k
        elif ch == "i" and r < 0.05:
            out += "İ"          # lower-cases to i + U+0307: never a unit
        elif ch == "s" and r < 0.05:
            out += "ſ"          # long s: already lower case, never a unit
        else:
            out += ch.upper() if r < 0.4 else ch
    return out


def rand_duration(rng):
    """Mostly valid strings (boundary-directed numbers) plus a malformed stream. Returns (string, tag)."""
    r = rng.random()
    if r < 0.12:
        return rng.choice(["", " ", "\t\n", "d", "5", "007", "+5d", "-5d", "5.5d", "d5", "5 d", "5d d", "5dd", "٣d", "5 d",
                           "0d", "00w", "0", "5x", "5 ", " 5", "١٢h", "1e3s", "0x10s", "5_0s", "18446744073709551616s",
                           "18446744073709551615s", "99999999999999999999999999d", "5µ", "5ｄ", "5\x1cd", "\x1c5d", "5d\x85",
                           "​5d", "5d​"]), "malformed"
    mult = rng.choice(list(UNITS))
    unit = rand_case(rng, rng.choice(UNITS[mult]))
    edge = (U64 - 1) // mult
    k = rng.random()
    if k < 0.35:
        v, tag = rng.choice([1, 2, 7, 30, 59, 60, 61, 365, 1000, rng.randrange(1, 100000)]), "valid-small"
    elif k < 0.50:
        v, tag = rng.randrange(1, 1 << rng.choice([20, 31, 32, 33, 40, 47])), "valid-medium"
    elif k < 0.80:
        v, tag = max(1, edge + rng.choice([-2, -1, 0, 0, 1, 1, 2, 1000, -1000])), "product-boundary"
    elif k < 0.90:
        v, tag = rng.choice([U64 - 1, U64 - 2, U64, U64 + 1, I63, I63 - 1, I63 + 1, 40000000000000, (1 << 62)]), "huge"
    else:
        v, tag = rng.randrange(1, U64 * 4), "huge"
    ds = str(v)
    if rng.random() < 0.1:
        ds = "0" * rng.randint(1, 3) + ds
    if rng.random() < 0.08:
        unit = rng.choice(["x", "ms", "y", "mo", "dayz", "s s", "", "Ṡ", "h.", "K", "wKs"])
        tag = "bad-unit"
    return rand_ws(rng) + ds + unit + rand_ws(rng), tag


def rand_totals(rng, big=False):
    if big:
        return tuple(rng.choice([0, 1, I63 - 1, I63, I63 + 1, U64 - 1, rng.randrange(U64)]) for _ in range(5))
    f = rng.choice([0, 1, 2, 3, 5, 10, rng.randrange(0, 500)])
    c, m, b = (rng.choice([0, 1, 5, 9, 10, 11, 12, 20, 21, rng.randrange(0, 5000)]) for _ in range(3))
    return (f, c + m + b, c, m, b)


def rand_cfg(rng, now, h, huge=0.15):
    c = {}
    r = rng.random()
    if r < 0.6:
        n = len(h)
        c["max_entries"] = rng.choice([0, 1, 2, 3, max(0, n - 1), n, n + 1, n + 2, 1000, U64 - 1])
    if rng.random() < 0.6:
        if rng.random() < huge:
            edge = (U64 - 1) // DAY
            c["max_age_days"] = rng.choice([edge, edge + 1, edge - 1, 999999999999999999, U64 - 1, (U64 // DAY) * 2 + 3,
                                            U64 // 2, now // DAY + 1])
        else:
            # put the cut-off next to an entry
            ds = [max(0, (now - e[0])) // DAY for e in h] or [0]
            c["max_age_days"] = max(0, rng.choice(ds) + rng.choice([-1, 0, 0, 1])) if rng.random() < 0.7 else rng.choice([0, 1, 7, 30, 365])
    if rng.random() < 0.6:
        base = max(0, now - h[-1][0]) if h else 0
        c["min_interval_secs"] = rng.choice([0, 1, base, base + 1, max(0, base - 1), 60, 3600, U64 - 1])
    if rng.random() < 0.5:
        c["min_code_delta"] = rng.choice([0, 1, 9, 10, 11, 100, U64 - 1, I63, I63 - 1])
    return {k: min(v, U64 - 1) for k, v in c.items()}


def rand_history(rng, now, big=False):
    """Entry list: mostly chronological, sometimes with equal / backwards timestamps and boundary ages."""
    n = rng.choice([0, 1, 1, 2, 3, 4, 5, 6, 8, 12])
    mode = rng.choice(["chrono", "chrono", "chrono", "equal", "backwards", "random", "future"])
    tss = []
    t = max(0, now - rng.choice([0, 1, 100, DAY, DAY * 3, DAY * 40, now]))
    for _ in range(n):
        if mode == "chrono":
            t += rng.choice([0, 1, 60, 3600, DAY - 1, DAY, DAY + 1, DAY * 7])
        elif mode == "equal":
            t += rng.choice([0, 0, 0, 1])
        elif mode == "future":               # the clock stepped back: the newest entries are ahead of now
            t = min(U64 - 1, now + rng.choice([0, 1, 60, 3600, DAY, DAY * 7]) + (len(tss) * rng.choice([1, 60, DAY])))
        elif mode == "backwards":
            t = max(0, t + rng.choice([-DAY, -1, 0, 1, DAY, -DAY * 5, 3600]))
        else:
            t = rng.randrange(0, max(1, now * 2 + 10))
        t = min(t, U64 - 1)
        tss.append(t)
    if rng.random() < 0.3 and n:
        # whole-day ages, so that a max_age_days cut-off lands exactly on / next to an entry
        k = rng.randrange(n)
        tss[k] = min(U64 - 1, max(0, now - DAY * rng.choice([0, 1, 2, 7, 30]) + rng.choice([-1, 0, 0, 1])))
    if rng.random() < 0.05 and n:
        tss[rng.randrange(n)] = rng.choice([U64 - 1, I63, min(U64 - 1, now + DAY), 0])
    return [(ts, rand_totals(rng, big and rng.random() < 0.5), rng.choice([0, 0, 1, 2, 77])) for ts in tss]


def rand_now(rng):
    return rng.choice([0, 1, 1000, DAY, DAY * 30 + 5, 1700000000, 1790000000, rng.randrange(0, 2000000000), U64 - 1, I63])


def lib_cases(rng, n):
    """Library-level cases: list of dict(wire=..., mode=..., tag=..., plus the decoded fields)."""
    out = []
    for _ in range(n):
        r = rng.random()
        now = rand_now(rng)
        big = rng.random() < 0.06
        h = rand_history(rng, now, big)
        c = rand_cfg(rng, now, h)
        if r < 0.30:
            s, tag = rand_duration(rng)
            out.append(dict(mode="dur", s=s, tag="dur:" + tag, wire="dur\t" + enc(s)))
        elif r < 0.40:
            out.append(dict(mode="add", c=c, now=now, h=h, tag="should_add", wire="add\t%s\t%d\t%s" % (w_cfg(c), now, w_entries(h))))
        elif r < 0.60:
            out.append(dict(mode="ret", c=c, now=now, h=h, tag="retention" + ("-hugeage" if (c.get("max_age_days") or 0) * DAY >= U64 else ""),
                            wire="ret\t%s\t%d\t%s" % (w_cfg(c), now, w_entries(h))))
        elif r < 0.75:
            force = rng.random() < 0.25
            tot, tg = rand_totals(rng), rng.choice([0, 3])
            out.append(dict(mode="snap", c=c, now=now, h=h, force=force, tot=tot, tg=tg, tag="snapshot_op",
                            wire="snap\t%s\t%d\t%d\t%s\t%d\t%s" % (w_cfg(c), int(force), now, w_tot(tot), tg, w_entries(h))))
        elif r < 0.90:
            cur = rand_totals(rng, big)
            if h and rng.random() < 0.5:
                # current totals next to the selected entry: significance boundary
                base = rng.choice(h)[1]
                thr = c.get("min_code_delta", 10)
                thr = thr if thr < 1 << 40 else 10
                dc = rng.choice([0, thr, thr + 1, -thr, -thr - 1, max(0, thr - 1)])
                if all(x < I63 for x in base) and base[2] + dc >= 0:
                    cur = (base[0] + rng.choice([0, 0, 0, 1]), base[1] + max(0, dc), base[2] + dc, base[3], base[4])
            since = None
            if rng.random() < 0.6:
                since = rng.choice([0, 1, 60, DAY, now, now + 1, U64 - 1] + [max(0, now - e[0]) + d for e in h for d in (-1, 0, 1) if now - e[0] + d >= 0] +
                                   ([max(0, h[-1][0] - e[0]) for e in h] if h else []))     # distances measured from the latest entry
                since = min(since, U64 - 1)
            out.append(dict(mode="delta", c=c, now=now, h=h, cur=cur, since=since, tag="delta" + ("-since" if since is not None else "") + ("-big" if not fits_i64(cur, h) else ""),
                            wire="delta\t%s\t%s\t%d\t%s\t%s" % (w_cfg(c), w_opt(since), now, w_tot(cur), w_entries(h))))
        else:
            cur = rand_totals(rng)
            s, tag = rand_duration(rng)
            out.append(dict(mode="since", c=c, now=now, h=h, cur=cur, s=s, tag="since-string:" + tag,
                            wire="since\t%s\t%s\t%d\t%s\t%s" % (w_cfg(c), enc(s), now, w_tot(cur), w_entries(h))))
    return out


def fmt_spec_delta(sd):
    if sd is None:
        return "NONE"
    d, pts, ptag, sig = sd
    return "D %d %d %d %d %d %d %d SIG%d" % (d[0], d[1], d[2], d[3], d[4], pts, ptag, int(sig))


def spec_answer(c):
    """What the property demands of the library call, as the string the harness would print;
    None when the property does not pin the answer (values outside i64 for deltas)."""
    m = c["mode"]
    if m == "dur":
        k, v = spec_duration(c["s"])
        return "OK %d" % v if k == "OK" else ("ERR " + ("TOOLARGE" if k == "TOOBIG" else v))
    if m == "add":
        return "OK %d" % int(spec_should_add(c["c"], c["now"], c["h"]))
    if m == "ret":
        r = spec_retention(c["c"], c["now"], c["h"])
        return "OK %d %s" % (len(c["h"]) - len(r), w_entries(r))
    if m == "snap":
        r = spec_snapshot(c["c"], c["force"], c["now"], c["tot"], c["tg"], c["h"])
        return "SKIP" if r is None else "SAVED " + w_entries(r)
    if m == "delta":
        if not fits_i64(c["cur"], c["h"]):
            return None
        return fmt_spec_delta(spec_delta(c["c"], c["since"], c["now"], c["cur"], c["h"]))
    if m == "since":
        if not fits_i64(c["cur"], c["h"]):
            return None
        k, v = spec_duration(c["s"])
        since = v if k == "OK" else None     # unparsable or too large: warn, fall back to the latest entry
        return fmt_spec_delta(spec_delta(c["c"], since, c["now"], c["cur"], c["h"]))
    return None
