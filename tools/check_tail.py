"""Shared phases of the C09 / C10 / C11 checks: library-level correspondence, CLI history replay,
fail-fast trace validation. Each phase returns plain data; the cXX.py modules decide the verdicts."""
import concurrent.futures as cf
import itertools
import json
import os
import shutil
import subprocess
import time
from gen_check import *  # noqa

# fixes/D12-*.patch is applied to /repo: the fail-fast flag is set only for failures the loaded
# baseline does not contain; the model relation is ff_sub <loaded baseline> (Check/FailFast.v).


def fixed_set(ctx):
    return {f.get("defect") for f in ctx.kf.get("fixed", []) if f.get("defect")}


# ------------------------------------------------------------------ library level

def lib_phase(ctx, bins, model, n, only=None):
    """Differential run of the re-exported functions against the extracted model.
    Returns dict(cases, mismatches, oracle_failures, dist, errs)."""
    hd = HashDir()
    try:
        cases = lib_cases(ctx, hd, n)
        if only:
            cases = [c for c in cases if c["cmd"] in only]
        lines = [c["line"] for c in cases]
        outs, errs = run_sharded_cwd(bins["sgv-check"], lines, hd.cwd, args=[hd.state], timeout=900)
        mouts, merrs = run_sharded(model, lines, timeout=900)
        if merrs:
            raise CheckBroken("model driver failed: %s" % merrs[:1])
        mism, fails, dist, nontrivial = [], [], {}, set()
        for c, o, m in zip(cases, outs, mouts):
            dist[c["cmd"]] = dist.get(c["cmd"], 0) + 1
            if o != m:
                mism.append({"case": c["line"], "impl": o, "model": m})
            # property oracles on the implementation's own answer
            if c["cmd"] == "exit":
                fl = c["fl"]
                want = exit_spec(c["rs"], fl[0] == "1", fl[1] == "1", fl[2] == "1")
                if o != str(want):
                    fails.append({"prop": "C01", "what": "exit %s, exit_spec %d" % (o, want), "case": c["line"]})
                if any(r["status"] in "FW" for r in c["rs"]):
                    nontrivial.add(c["line"])
            elif c["cmd"] == "apply":
                b = view(c["bl"])
                want = "".join(("G" if (r["status"] == "F" and key_of(r["path"]) in b) else r["status"]) for r in c["rs"]) or "_"
                if o != want:
                    fails.append({"prop": "C09", "what": "apply: statuses %s, spec %s" % (o, want), "case": c["line"]})
                if "G" in want and "F" in want:
                    nontrivial.add(c["line"])
            elif c["cmd"] == "ratchet":
                b = view(c["bl"])
                cur = {key_of(r["path"]) for r in c["rs"] if r["status"] in "FG"}      # None for a path without a key
                want = w_keys([k for k in b if k not in cur])
                if o != want:
                    fails.append({"prop": "C10", "what": "ratchet: stale %s, documented rule gives %s" % (o, want), "case": c["line"]})
                if want != "_" and cur & set(b):
                    nontrivial.add(c["line"])
            elif c["cmd"] == "tighten":
                want = w_bl({k: e for k, e in view(c["bl"]).items() if k not in set(c["ks"])})
                if o != want:
                    fails.append({"prop": "C10", "what": "tighten: %s, spec %s" % (o, want), "case": c["line"]})
                if set(c["ks"]) & set(view(c["bl"])):
                    nontrivial.add(c["line"])
            elif c["cmd"] == "update":
                if o.startswith("ERR") or o in ("SKIPPED", "PANIC", "<NOANSWER>"):
                    fails.append({"prop": "C09", "what": "update: " + o, "case": c["line"]})
                else:
                    got = p_bl(o)
                    ex = view(c["bl"]) or {}
                    fk = {key_of(r["path"]) for r in c["rs"] if r["status"] in "FG"}
                    stray = [k for k in got if k not in fk and k not in ex]
                    if stray:
                        fails.append({"prop": "C09", "what": "update wrote key %s without a violating result" % stray[0], "case": c["line"]})
                    if c["mode"] == "n" and any(got.get(k) != e for k, e in ex.items()):
                        fails.append({"prop": "C09", "what": "update new dropped or rewrote an entry of the existing baseline", "case": c["line"]})
                    if got and c["bl"]:
                        nontrivial.add(c["line"])
        return {"cases": len(cases), "mismatches": mism, "oracle_failures": fails, "dist": dist, "errs": errs,
                "nontrivial": len(nontrivial), "sample": [{"case": c["line"], "impl": o, "model": m} for c, o, m in list(zip(cases, outs, mouts))[:2]]}
    finally:
        hd.close()


def xcheck_model(ctx, model, k):
    """Extraction vs vm_compute on a sub-sample of step / update lines (inside Coq)."""
    hd = HashDir()
    try:
        rng = ctx.rng
        lines, exprs = [], []
        for _ in range(k):
            rs = rand_results(rng, hd, 5)
            b = rand_baseline(rng, rs) if rng.random() < 0.8 else None
            fl = {"b": rng.random() < 0.8, "u": rng.choice([None, None, "a", "c", "s", "n"]), "rc": rng.choice([None, "w", "a", "s"]),
                  "rg": rng.choice([None, None, "a"]), "wo": rng.random() < 0.1, "wae": rng.random() < 0.3, "ff": False}
            lines.append("step\t%s\t%s\t_\t%s" % (w_flags(fl), w_results(rs), w_bl(b)))
            exprs.append("xc_out (check_step %s %s [] %s)" % (coq_flags(fl), coq_results(rs), coq_obl(b)))
        mouts, _ = run_sharded(model, lines)
        defs = ("From Coq Require Import NArith List.\nFrom SG Require Import Check.Results Check.ExitCode Check.BMap Check.Ratchet Check.Baseline.\n"
                "Import ListNotations. Open Scope N_scope.\n"
                "Definition st_n (r : result) : N := match r_status r with Passed => 0 | Warning => 1 | Failed => 2 | Grandfathered => 3 end.\n"
                "Definition ent_n (p : key * entry) : list N := match snd p with EContent l h => [1000; N.of_nat (length (fst p)); 1; l; N.of_nat (length h)] "
                "| EStructure Files c => [1000; N.of_nat (length (fst p)); 2; c; 0] | EStructure Dirs c => [1000; N.of_nat (length (fst p)); 3; c; 0] end.\n"
                "Definition dedup (b : baseline) : baseline := fold_right (fun p acc => p :: remove (fst p) acc) [] b.\n"
                "Definition xc_out (o : outcome) : list N := map st_n (o_results o) ++ [77; o_exit o; 77] ++ "
                "match o_disk o with None => [78] | Some b => [N.of_nat (length (dedup b))] end.\n")
        res = coq_eval(defs, exprs)
        bad = []
        for line, mo, r in zip(lines, mouts, res):
            nums = [int(x) for x in re.findall(r"\d+", r)]
            f = mo.split("\t")
            st = [] if f[0] == "_" else ["PWFG".index(c) for c in f[0]]
            d = p_bl(f[2])
            exp = st + [77, int(f[1]), 77] + ([78] if d is None else [len(d)])
            if nums != exp:
                bad.append({"line": line, "extracted": mo, "vm_compute": r})
        ctx.cov["extraction_crosscheck"] = {"cases": len(lines), "disagreements": len(bad)}
        if bad or len(res) != len(lines):
            raise CheckBroken("extracted OCaml and vm_compute disagree: %s" % bad[:1])
    finally:
        hd.close()


def coq_str(s):
    return "[" + ";".join(str(ord(c)) for c in s) + "]"


def coq_kind(k):
    if k in ("c", "n", "nS"):
        return "Content"
    return {"sF": "(Structure FileCount)", "sD": "(Structure DirCount)", "sM": "(Structure MaxDepth)"}.get(k) or "(Structure (Placement %s))" % k[2:]


def coq_results(rs):
    st = {"P": "Passed", "W": "Warning", "F": "Failed", "G": "Grandfathered"}
    return "[" + ";".join("mkResult %s %s %s %d %d %s" % (coq_str(r["path"]), coq_kind(r["kind"]), st[r["status"]], r["code"], r["limit"], coq_str(r.get("hash", ""))) for r in rs) + "]"


def coq_obl(b):
    if b is None:
        return "None"
    items = []
    for k, e in sorted(b.items()):
        if e[0] == "C":
            items.append("(%s, EContent %d %s)" % (coq_str(k), e[1], coq_str(e[2])))
        else:
            items.append("(%s, EStructure %s %d)" % (coq_str(k), "Files" if e[1] == "f" else "Dirs", e[2]))
    return "(Some [" + ";".join(items) + "])"


def coq_flags(fl):
    um = {"a": "UAll", "c": "UContent", "s": "UStructure", "n": "UNew"}
    rm = {"w": "RWarn", "a": "RAuto", "s": "RStrict"}
    def o(x, m):
        return "(Some %s)" % m[x] if x else "None"
    def bb(x):
        return "true" if x else "false"
    return "(mkFlags %s %s %s %s %s %s %s)" % (bb(fl.get("b")), o(fl.get("u"), um), o(fl.get("rc"), rm), o(fl.get("rg"), rm),
                                                 bb(fl.get("wo")), bb(fl.get("wae") or fl.get("wae_cfg")), bb(fl.get("ff") or fl.get("ff_cfg")))


# ------------------------------------------------------------------ CLI histories

def history_phase(ctx, bins, model, hists, depth_flags=None, depth_every=5):
    """Replays the histories on the real CLI, runs the model on every observed step and the
    spec oracles on the observations. Returns a dict."""
    fixed = fixed_set(ctx)
    t0 = time.time()
    if depth_flags is None:
        depth_flags = [bool(depth_every and i % depth_every == depth_every - 1) for i in range(len(hists))]
    runs, spawns = run_histories(bins["sgcli"], hists, depth0_of=lambda i: depth_flags[i])
    recs_all = [(hi, ri, rec) for hi, (h, recs) in enumerate(runs) for ri, rec in enumerate(recs)]
    lines = [model_line(rec) for _, _, rec in recs_all]
    mouts, merrs = run_sharded(model, lines, timeout=900)
    if merrs:
        raise CheckBroken("model driver failed: %s" % merrs[:1])
    mism, struct = [], []
    fflines, ffidx = [], []
    for idx, ((hi, ri, rec), mo) in enumerate(zip(recs_all, mouts)):
        rec["model"] = mo
        for s in oracle_correspondence(rec, fixed):
            struct.append({"history": hists[hi], "step": slim(rec), "what": s})
        if rec["exit"] == 2:
            f = mo.split("\t")
            if f[1] != "2" or f[2] != w_bl(rec["disk1"]):
                mism.append({"history": hists[hi], "step": slim(rec), "model": mo, "what": "exit 2 not predicted"})
            continue
        if not rec["parsed"]:
            continue
        st, ex, d1 = model_expect(rec)
        f = mo.split("\t")
        if len(f) < 4 or (f[0], f[1], f[2]) != (st, ex, d1):
            mism.append({"history": hists[hi], "step": slim(rec), "model": mo, "impl": [st, ex, d1]})
        elif rec["stale_reported"] is not None and (rec["flags"].get("rc") or rec["flags"].get("rg")) in ("w", "s") \
                and w_keys(rec["stale_reported"]) != f[3]:
            mism.append({"history": hists[hi], "step": slim(rec), "model": mo, "what": "stale paths reported %s" % rec["stale_reported"]})
        if is_ff(rec["flags"]):
            ob = w_bl(view(rec["disk0"]) if rec["flags"].get("b") else None)   # the loaded (re-keyed) baseline
            fflines.append("ffsub\t%s\t%s\t%s" % (w_results(rec["rsel"]), w_results(rec["rp"]), ob))
            ffidx.append(idx)
    ffbad = []
    if fflines:
        ffo, _ = run_sharded(model, fflines)
        for i, o in zip(ffidx, ffo):
            hi, ri, rec = recs_all[i]
            # full scans with several threads keep list order too (ordered collect); rsel is the probe order
            if o != "1":
                ffbad.append({"history": hists[hi], "step": slim(rec), "what": "observed fail-fast result list is not ff_sub of the full list", "rsel": [r["path"] for r in rec["rsel"]]})
    findings = []
    for hi, (h, recs) in enumerate(runs):
        for (prop, klass, text, ri) in classify_history(recs, fixed):
            findings.append({"prop": prop, "class": klass, "what": text, "history": h, "depth0": bool(recs[ri]["depth0"]), "step": slim(recs[ri]), "upto": recs[ri]["op_index"]})
    # the residue of the killed updates (op noise): what the implementation left, and that the baseline file survived
    residues = {}
    for hi, (h, recs) in enumerate(runs):
        for res in (recs[-1]["residues"] if recs else []):
            for nm in res["left"]:
                shape = re.sub(r"(\.tmp)[.\d]+$", r"\1.<numbers>", nm)
                residues[shape] = residues.get(shape, 0) + 1
            if not res["baseline_intact"]:
                struct.append({"history": h, "what": "a `check --update-baseline` killed at aw:after_create_temp changed the baseline file"})
    nontriv = 0
    for h, recs in runs:
        if any(o["op"] == "update" or (o["op"] == "check" and o["flags"].get("u")) for o in h) and sum(1 for o in h if o["op"] == "edit") >= 1 \
                and any(r["disk0"] for r in recs):
            nontriv += 1
    return {"histories": len(hists), "steps": len(recs_all), "spawns": spawns, "mismatches": mism, "structural": struct, "ff_bad": ffbad,
            "ff_traces": len(fflines), "findings": findings, "nontrivial": nontriv, "wall": round(time.time() - t0, 1), "killed_update_residues": residues,
            "sample": [{"history": runs[i][0], "steps": [dict(slim(r), model=r.get("model")) for r in runs[i][1]][:4]} for i in range(min(2, len(runs)))]}


def minimise_history(bins, hist, depth0, pred):
    """Greedy removal of ops while pred(findings) stays true."""
    cur = list(hist)
    changed = True
    while changed and len(cur) > 1:
        changed = False
        for i in range(len(cur)):
            cand = cur[:i] + cur[i + 1:]
            if not any(o["op"] != "edit" for o in cand):
                continue
            recs, _ = replay_history(bins["sgcli"], cand, depth0)
            if pred(classify_history(recs, set())):
                cur = cand
                changed = True
                break
    return cur


# ------------------------------------------------------------------ C11 traces

class BigProject:
    """n entries src/fNN.rs with given size classes; no structure violations. Class 'e' is an entry
    that cannot be read (a directory with that name): listed in --files it yields an I/O error,
    which is a warning on stderr and no result. Classes 'y' / 'r' are byte-identical files of 12 lines
    starting with '#': comments in Python (src/fNN.py, 0 code lines, passes), code in Rust (src/fNN.rs, fails).
    Class 'N' is an over-long Rust file whose name breaks the naming rule of src (src/FNNBad.rs): a directory
    scan reports a naming_convention violation at the same path, which a content entry grandfathers too.
    Classes 'g' / 'k' are over-long files whose size differs from the one the baseline records: 'g' has GROWN since the
    baseline was written (15 lines now, 12 recorded), 'k' has shrunk (12 now, 15 recorded); recorded is recorded: both are
    known debt when their index is in the baseline, plain over-long files otherwise.
    Class 'l' is a second name of an over-long file: the symlink legacy/fNN.rs -> ../src/fMM.rs (MM = the first over-long
    regular file of the project; a plain 3-line file when there is none). Files below legacy/ have a content rule of their
    own (max_lines = 1000), so the alias passes while the real name fails: one file, two mentions, two verdicts.
    Class 'm' is an over-long file (12 lines) at a path the baseline does NOT record, while the baseline records the path
    src/wasNN.rs - which no longer exists - with exactly this file's line count and SHA-256 (the file was renamed, or a copy of
    a deleted file was added): an entry is the entry of its PATH, so the file is an unrecorded violation. A project with an 'm'
    file always has a baseline (baseline index None is read as the empty list).
    Every file gets an old mtime (not racy-clean), so the in-memory SLOC cache is really used."""
    TWIN = "# generated line\n" * 12
    OLD = 1577836800
    NOW_REC = {"g": ("O", "o"), "k": ("o", "O")}     # class -> (size now, size recorded in the baseline)

    def __init__(self, exe, sizes, baseline_idx, ff_cfg=False, wae=False, ghosts=0):
        self.exe = exe
        self.sb = Sandbox(prefix="sgv-c11-")
        self.n = len(sizes)
        self.paths = [("./src/f%02d.py" % i) if c == "y" else (("./src/F%02dBad.rs" % i) if c == "N" else (("./legacy/f%02d.rs" % i) if c == "l" else "./src/f%02d.rs" % i))
                      for i, c in enumerate(sizes)]
        self.ff_cfg = ff_cfg
        cfg = ['version = "2"', "[scanner]", 'exclude = [".sloc-guard*"]', "[content]", "max_lines = 10", "warn_threshold = 0.8", 'extensions = ["rs", "py"]']
        if "l" in sizes:
            cfg += ["[[content.rules]]", 'pattern = "legacy/**"', "max_lines = 1000"]
        if "N" in sizes:
            cfg += ["[[structure.rules]]", 'scope = "src"', 'file_naming_pattern = "^[a-z0-9_]+\\\\.(rs|py)$"']
        if ff_cfg:
            cfg += ["[check]", "fail_fast = true"]
        self.cfg_ff = "\n".join(cfg) + "\n"
        self.cfg_noff = "\n".join(c for c in cfg if c not in ("[check]", "fail_fast = true")) + "\n"
        self.sb.write(".sloc-guard.toml", self.cfg_ff)
        self.res = {}
        self.sizes = list(sizes)
        for p, ch in zip(self.paths, sizes):
            if ch == "e":
                os.makedirs(os.path.join(self.sb.proj, p))
                continue
            if ch != "l":
                self.resize(p, ch)
        targets = [i for i, c in enumerate(sizes) if c in "oOgkNm"]
        for i, (p, ch) in enumerate(zip(self.paths, sizes)):
            if ch != "l":
                continue
            fp = os.path.join(self.sb.proj, p)
            os.makedirs(os.path.dirname(fp), exist_ok=True)
            if targets:
                tp = self.paths[targets[0]]
                os.symlink("../" + tp[2:], fp)
                self.res[p] = dict(self.res[tp], path=p, status="P", limit=1000)
            else:
                self.resize(p, "u")
                self.res[p]["limit"] = 1000
        self.bl = None
        if baseline_idx is None and "m" in sizes:
            baseline_idx = []
        if baseline_idx is not None:
            self.bl = {}
            for i in baseline_idx:
                p = self.paths[i]
                if sizes[i] in self.NOW_REC:        # recorded with the size the file had when the baseline was written
                    n = SIZE[self.NOW_REC[sizes[i]][1]]
                    self.bl[p] = ("C", n, hashlib.sha256(body(p, n).encode()).hexdigest())
                else:
                    self.bl[p] = ("C", self.res[p]["code"], self.res[p]["hash"])
            # entries of files that have been deleted since the baseline was written: a directory scan sees them gone
            for g in range(ghosts):
                self.bl["src/gone%02d.rs" % g] = ("C", 30, "")
            write_disk(self.sb.proj, self.bl)
        self.ghost_keys = ["src/gone%02d.rs" % g for g in range(ghosts)] if baseline_idx is not None else []
        for i, ch in enumerate(sizes):
            if ch == "m":       # the recorded path is gone; its entry carries the figures of the file now at paths[i]
                self.bl["src/was%02d.rs" % i] = ("C", self.res[self.paths[i]]["code"], self.res[self.paths[i]]["hash"])
                self.ghost_keys.append("src/was%02d.rs" % i)
        if self.bl is not None and "m" in sizes:
            write_disk(self.sb.proj, self.bl)
        self.last_disk = None
        self.spawns = 0

    def resize(self, p, ch):
        if ch in "yr":
            text, n = self.TWIN, (0 if ch == "y" else 12)
        else:
            n = SIZE["o" if ch in "Nm" else (self.NOW_REC[ch][0] if ch in self.NOW_REC else ch)]
            text = body(p, n)
        fp = self.sb.write(p, text)
        os.utime(fp, (self.OLD, self.OLD))
        self.res[p] = {"path": p, "kind": "n", "status": "F" if n > 10 else ("W" if n >= 8 else "P"), "code": n, "limit": 10,
                       "hash": hashlib.sha256(text.encode()).hexdigest()}

    def check(self, fl, files=None, threads=1):
        """a run with arbitrary flags (ratchet phases); returns (exit, observed results, stderr)"""
        self.sb.write(".sloc-guard.toml", self.cfg_ff if (fl.get("ff_cfg")) else self.cfg_noff)
        self.spawns += 1
        rc, out, err = self.sb.run(self.exe, cli_args(fl, files), env={"RAYON_NUM_THREADS": str(threads)})
        try:
            obs, _ = parse_json_results(out)
        except Exception:
            obs = []
        for r in obs:
            r["hash"] = self.res.get(r["path"], {}).get("hash", "")
        return rc, obs, err

    def run(self, ff, files=None, threads=1, wae=False, wo=False, ratchet=None, update=None, nob=False):
        """[nob]: the default baseline file lies in the project but the run is NOT given --baseline (ratchet by flag, or by
        [baseline] ratchet when the mode is upper case): nothing is loaded, nothing is grandfathered, the file is not touched"""
        fl = {"b": self.bl is not None and not nob, "ff": ff and not self.ff_cfg, "wae": wae, "wo": wo}
        rcfg = None
        if ratchet and self.bl is not None:
            if ratchet.isupper():
                rcfg = ratchet.lower()
            else:
                fl["rc"] = ratchet
        if update:
            fl["u"] = update
        if update or (ratchet and self.bl is not None):
            write_disk(self.sb.proj, self.bl)      # the previous run may have rewritten the file: every run starts from the same one
        self.sb.write(".sloc-guard.toml", (self.cfg_ff if ff else self.cfg_noff) + ('[baseline]\nratchet = "%s"\n' % RM[rcfg] if rcfg else ""))
        self.spawns += 1
        rc, out, err = self.sb.run(self.exe, cli_args(fl, files), env={"RAYON_NUM_THREADS": str(threads)})
        self.last_disk = read_disk(self.sb.proj)
        obs, _ = parse_json_results(out)
        for r in obs:
            r["hash"] = self.res.get(r["path"], {}).get("hash", "")
        return rc, obs, out

    def spec(self, files, nob, wae, wo):
        """the verdict of a run without ratchet-strict effects, from the independent evaluation of the files and the KEYS of the
        loaded baseline: (statuses by path, exit). An entry grandfathers the file at its path and no other."""
        loaded = None if (self.bl is None or nob) else {norm_key(k) for k in self.bl}
        st = {}
        for p in (files if files is not None else self.paths):
            if p in self.res and not (files is None and os.path.islink(os.path.join(self.sb.proj, p))):
                s0 = self.res[p]["status"]
                st[p] = "G" if (s0 == "F" and loaded is not None and norm_key(p) in loaded) else s0
        ex = 0 if wo else (1 if ("F" in st.values() or (wae and "W" in st.values())) else 0)
        return {"status": st, "exit": ex}

    def close(self):
        self.sb.close()


def placements(k, rng=None, limit=None):
    """size class per file x subset of the failing files in the baseline (None = no baseline)"""
    out = []
    for sizes in itertools.product("uwo", repeat=k):
        fails = [i for i, c in enumerate(sizes) if c == "o"]
        subs = [None]
        for r in range(0, len(fails) + 1):
            subs += [list(c) for c in itertools.combinations(fails, r)]
        for s in subs:
            out.append(("".join(sizes), s))
    if rng is not None and limit is not None and len(out) > limit:
        # keep the interesting ones: at least one failure
        inter = [p for p in out if "o" in p[0]]
        rng.shuffle(inter)
        out = inter[:limit]
    return out


def trace_case(exe, sizes, bl_idx, orders, threads_list, reps, ff_cfg, wae, wo, full_scan=False, ratchet=None, ghosts=0, update=None, nob=False):
    """One project, several fail-fast runs. Returns list of trace dicts. [ratchet] = --ratchet mode of every run
    (w / a / s), [ghosts] = number of baseline entries whose file no longer exists, [update] = --update-baseline mode of every run."""
    pj = BigProject(exe, sizes, bl_idx, ff_cfg=ff_cfg, ghosts=ghosts)
    out = []
    try:
        for order in orders:
            files = None if full_scan else [pj.paths[i] for i in order]
            rc0, obs0, raw0 = pj.run(False, files, 1, wae, wo, ratchet, update, nob)
            disk_noff = pj.last_disk
            R = [pre(r) for r in obs0]
            # independent evaluation of every listed file: the run without fail-fast must agree with it
            # whatever the order (byte-identical files in two languages must not share counts)
            want = sorted((p, pj.res[p]["status"], pj.res[p]["code"]) for p in (files if files is not None else pj.paths) if p in pj.res)
            got = sorted((r["path"], r["status"], r["code"]) for r in R if r["kind"] in ("n", "c"))
            eval_ok = (want == got)
            eval_diff = {"reported but not expected": [x for x in got if x not in want][:2], "expected but not reported": [x for x in want if x not in got][:2]}
            for th in threads_list:
                for _ in range(reps):
                    rc, obs, raw = pj.run(True, files, th, wae, wo, ratchet, update, nob)
                    out.append({"sizes": sizes, "baseline": bl_idx, "order": list(order) if order is not None else None, "threads": th, "ff_cfg": ff_cfg,
                                "wae": wae, "wo": wo, "R": R, "Rp": [pre(r) for r in obs], "obs": obs, "exit": rc, "exit_noff": rc0,
                                "disk": pj.bl, "full_scan": full_scan, "eval_ok": eval_ok, "eval_diff": eval_diff,
                                "ratchet": ratchet if pj.bl is not None else None, "ghosts": ghosts, "ghost_keys": list(pj.ghost_keys),
                                "disk1": pj.last_disk, "disk1_noff": disk_noff, "update": update, "nob": nob, "obs0": obs0,
                                "spec": pj.spec(files, nob, wae, wo)})
        return out, pj.spawns
    finally:
        pj.close()


def validate_traces(model, traces):
    """Model side of the trace validation. Fills t['ffsub'], t['seq_ok'], t['model_exit']."""
    l1, l2, l3 = [], [], []
    for t in traces:
        ob = w_bl(None if t.get("nob") else view(t["disk"]))   # ff_sub / ff_seq take the loaded (re-keyed) baseline, check_step the file
        l1.append("ffsub\t%s\t%s\t%s" % (w_results(t["R"]), w_results(t["Rp"]), ob))
        # the loop runs over the files only; structure results are appended afterwards (C11_structure_results_appended)
        l2.append("ffseq\t%s\t%s" % (w_results([r for r in t["R"] if r["kind"] in ("n", "c")]), ob))
        rt = t.get("ratchet")
        fl = {"b": t["disk"] is not None and not t.get("nob"), "wae": t["wae"], "wo": t["wo"], "ff": True, "rc": rt if (rt and rt.islower()) else None,
              "rg": rt.lower() if (rt and rt.isupper()) else None, "u": t.get("update")}
        # a directory scan sees that the files of the ghost entries are gone (EvaluatedPaths::covers); a --files run does not
        gone = t.get("ghost_keys") if t.get("full_scan") else None
        l3.append("step\t%s\t%s\t%s\t%s" % (w_flags(fl), w_results(t["Rp"]), w_keys(gone) if gone else "_", w_bl(t["disk"])))
    o1, e1 = run_sharded(model, l1)
    o2, e2 = run_sharded(model, l2)
    o3, e3 = run_sharded(model, l3)
    if e1 or e2 or e3:
        raise CheckBroken("model driver failed on traces")
    for t, a, b, c in zip(traces, o1, o2, o3):
        t["ffsub"] = (a == "1")
        t["seq_len"] = int(b) if b.isdigit() else -1
        if t.get("update"):      # an updating run ignores fail-fast (fix D56): its one-worker schedule is the whole list
            t["seq_len"] = sum(1 for r in t["R"] if r["kind"] in ("n", "c"))
        f = c.split("\t")
        t["model_exit"] = int(f[1]) if len(f) > 1 else -1
        t["model_statuses"] = f[0]
        t["model_disk1"] = f[2] if len(f) > 2 else None
    return traces


# ------------------------------------------------------------------ common driver for the three checks

def load_corpus_histories():
    p = os.path.join(CORPUS, "check.jsonl")
    out = []
    if os.path.exists(p):
        for line in open(p):
            if line.strip():
                out.append(json.loads(line))
    return out


def run_corpus(bins):
    """Corpus histories are replayed one by one (they carry their own depth0 flag)."""
    items = load_corpus_histories()
    runs = []
    for it in items:
        recs, _ = replay_history(bins["sgcli"], it["history"], bool(it.get("depth0")))
        runs.append((it, recs))
    return runs


def report_findings(ctx, prop, findings, what_key="history"):
    """Known classes -> ctx.known; anything else -> violation with the history as replay."""
    nviol = 0
    seen = set()
    for f in findings:
        if f["prop"] != prop:
            continue
        if f["class"] and ctx.known(f["class"], f["what"]):
            continue
        sig = (f["class"], f["what"].split(":")[0])
        if sig in seen or nviol >= 5:
            continue
        seen.add(sig)
        nviol += 1
        ctx.violation({"kind": "property-oracle", "what": f["what"], "class": f["class"], "history": f.get("history"), "depth0": f.get("depth0", False),
                       "trace": f.get("trace"), "step": f.get("step"),
                       "replay_cmd": "python3 tools/vp.py check %s --replay <this file>" % prop})
    return nviol


def report_tie(ctx, prop, relation, mism, proofs_ok, errs=None):
    if mism:
        ctx.violation({"kind": "correspondence-broken", "relation": relation, "first_mismatch": mism[0], "mismatches": len(mism),
                       "note": "the model no longer describes the code, so the %s theorems no longer transfer; no input violating %s itself was found" % (prop, prop)},
                      no_input=True)
    elif not proofs_ok:
        ctx.violation({"kind": "proof-broken", "details": getattr(ctx, "proof_broken", None)}, no_input=True)
    elif errs:
        ctx.violation({"kind": "harness-died", "details": errs[:2]}, no_input=False)


def replay_file(ctx, path, prop):
    j = json.load(open(path))
    bins, model = prepare_check(ctx)
    if j.get("history"):
        recs, _ = replay_history(bins["sgcli"], j["history"], bool(j.get("depth0")))
        lines = [model_line(r) for r in recs]
        mo, _, _ = run_lines(model, lines)
        for r, m in zip(recs, mo):
            print("step", json.dumps(slim(r)))
            print("  model:", m)
        for f in classify_history(recs, set()):
            print("ORACLE", f[:3])
    elif j.get("trace") and j["trace"].get("marker"):
        t = j["trace"]
        recs, fs, _ = subdir_ratchet_case(bins["sgcli"], ctx.rng, t["marker"], t["root_baseline"], t["ratchet_by_config"], t["threads"], spec=t)
        for r in recs:
            print("step", r["note"], "cwd", r["cwd"], r["flags"], "exit", r["exit"], "pkg/base.json", sorted(r["disk0"] or {}), "->", sorted(r["disk1"] or {}),
                  "stale", r["stale_reported"], "other files changed:", r["other_files_changed"])
        for f in fs:
            print("ORACLE", f["prop"], f["what"])
    elif j.get("trace") and "src/\\xff.rs" in (j["trace"].get("files") or {}):
        t = j["trace"]
        recs, fs = nonutf8_case(bins["sgcli"], t["files"]["src/\\xfe.rs"] > 10, t["threads"])
        for r in recs:
            print("step", r["note"], "exit", r["exit"], [x["shown"] + ":%d:" % x["code"] + x["status"] for x in r["obs"]], "file", sorted(r["disk0"] or {}), "->", sorted(r["disk1"] or {}), "stale", r["stale_reported"])
        for f in fs:
            print("ORACLE", f["prop"], f["what"])
    elif j.get("trace") and j["trace"].get("new_file"):
        r = backslash_phase(ctx, bins, model)
        for f in r["findings"] + r["mismatches"]:
            print("ORACLE", f.get("prop"), f["what"], f.get("trace"))
    elif j.get("trace") and j["trace"].get("route"):
        t = j["trace"]
        recs, fs, _ = sibling_ratchet_case(bins["sgcli"], t["route"], {v: k for k, v in RM.items()}[t["ratchet"]], t["sibling_severity"], t["threads"], t["ratchet_by_config"])
        for r in recs:
            print("step", r["note"], r["flags"], "exit", r["exit"], [x["path"] + ":" + x["kind"] + ":" + x["status"] for x in r["obs"]], "entries", sorted(r["disk0"] or {}), "->", sorted(r["disk1"] or {}), "stale", r["stale_reported"])
        for f in fs:
            print("ORACLE", f["prop"], f["what"])
    elif j.get("trace") and j["trace"].get("shape"):
        t = j["trace"]
        recs, fs, _ = big_ratchet_case(bins["sgcli"], ctx.rng, t["n"], t.get("threads", 4), t["fixed_idx"])
        for r in recs:
            print("step", r["note"], r["flags"], "exit", r["exit"], "entries", len(r["disk0"] or {}), "->", len(r["disk1"] or {}), "stale listed", len(r["stale_reported"] or []))
        for f in fs:
            print("ORACLE", f["prop"], f["what"])
    elif j.get("trace"):
        t = j["trace"]
        tr, _ = trace_case(bins["sgcli"], t["sizes"], t["baseline"], [t["order"]], [t["threads"]], 3, t["ff_cfg"], t["wae"], t["wo"], t.get("full_scan", False),
                           t.get("ratchet"), t.get("ghosts", 0), t.get("update"))
        for x in validate_traces(model, tr):
            print("trace", {k: x[k] for k in ("order", "threads", "ratchet", "update", "exit", "exit_noff", "ffsub", "model_exit")}, [r["path"] + ":" + r["status"] for r in x["obs"]],
                  "entries after:", sorted(x["disk1"] or {}), "without fail-fast:", sorted(x["disk1_noff"] or {}))
    elif j.get("first_mismatch") and j["first_mismatch"].get("case"):
        line = j["first_mismatch"]["case"]
        hd = HashDir()
        try:
            o, _, _ = _run_lines_cwd(bins["sgv-check"], [line], hd.cwd, [hd.state])
        finally:
            hd.close()
        m, _, _ = run_lines(model, [line])
        print("impl :", o)
        print("model:", m)
    else:
        print(json.dumps(j, indent=1)[:3000])
    return 0


# ------------------------------------------------------------------ many entries resolved at once (C10)

def big_ratchet_case(exe, rng, n, threads=4, fixed=None):
    """n files over the limit, update all, most of them fixed at once, then ratchet runs.
    Returns a list of step records (flags, rp, dirs, disk0, disk1, exit, stale) and findings."""
    pj = BigProject(exe, "o" * n, None)
    recs, findings = [], []
    try:
        def step(fl, files=None, note=""):
            d0 = read_disk(pj.sb.proj)
            rc, obs, err = pj.check(fl, files, threads)
            d1 = read_disk(pj.sb.proj)
            rec = {"flags": dict(fl), "files": files, "obs": obs, "rp": [pre(r) for r in obs], "disk0": d0, "disk1": d1, "exit": rc,
                   "stale_reported": parse_stale(err), "note": note, "n": n,
                   "dirs": []}   # no [structure] section: no directory is counted, no path is absent
            recs.append(rec)
            return rec
        step({"u": "a"}, note="update all")
        if fixed is None:
            fixed = rng.sample(range(n), rng.randint(max(21, n // 2), n - 1))
        for i in fixed:
            pj.resize(pj.paths[i], rng.choice("uw"))
        mode_src = "rc"
        s1 = step({"b": True, "rc": "s"}, note="strict before tightening")
        a1 = step({"b": True, mode_src: "a"}, note="auto")
        a2 = step({"b": True, mode_src: "a"}, note="auto again")
        s2 = step({"b": True, "rc": "s"}, note="strict after tightening")
        want_stale = {norm_key(pj.paths[i]) for i in fixed}
        removed = set(view(a1["disk0"]) or {}) - set(view(a1["disk1"]) or {})
        hist = {"n": n, "fixed": len(fixed), "fixed_idx": sorted(fixed), "threads": threads, "shape": "n files over, update all, `fixed` of them brought under the limit, --ratchet strict / auto / auto / strict"}
        if s1["exit"] != 1:
            findings.append({"prop": "C10", "class": None, "what": "strict: exit %d with %d resolved entries" % (s1["exit"], len(fixed)), "trace": hist})
        if removed != want_stale:
            findings.append({"prop": "C10", "class": None, "what": "auto removed %d entries, %d were evaluated and resolved" % (len(removed), len(want_stale)), "trace": hist})
        if (a2["disk1"] or {}) != (a2["disk0"] or {}):
            findings.append({"prop": "C10", "class": None, "what": "auto_fixpoint: a rerun after an auto tightening removed %d more entries" % (len(a2["disk0"]) - len(a2["disk1"] or {})), "trace": hist})
        if s2["exit"] != (1 if any(r["status"] == "F" for r in s2["obs"]) else 0) or s2["stale_reported"]:
            findings.append({"prop": "C10", "class": None, "what": "auto_fixpoint: strict run right after auto reports %s stale, exit %d" % (s2["stale_reported"], s2["exit"]), "trace": hist})
        return recs, findings, pj.spawns
    finally:
        pj.close()


def big_ratchet_phase(ctx, bins, model, k):
    """k large projects; every step also goes through check_step."""
    rng = ctx.rng
    allrecs, findings, spawns = [], [], 0
    for _ in range(k):
        n = rng.choice([40, 48, 60])
        recs, fs, sp = big_ratchet_case(bins["sgcli"], rng, n, rng.choice([1, 4, 16]))
        allrecs += recs
        findings += fs
        spawns += sp
    lines = []
    for rec in allrecs:
        d = rec["dirs"]
        lines.append("step\t%s\t%s\t%s\t%s" % (w_flags(rec["flags"]), w_results(rec["rp"]), w_keys(d) if d else "_", w_bl(rec["disk0"])))
    mouts, merrs = run_sharded(model, lines)
    if merrs:
        raise CheckBroken("model driver failed: %s" % merrs[:1])
    mism = []
    for rec, mo in zip(allrecs, mouts):
        st = "".join(r["status"] for r in rec["obs"]) or "_"
        f = mo.split("\t")
        if len(f) < 4 or (f[0], f[1], f[2]) != (st, str(rec["exit"]), w_bl(rec["disk1"])):
            mism.append({"what": "large project, step '%s' (n=%d): exit %s, %d entries afterwards; model exit %s, %d entries" % (
                rec["note"], rec["n"], rec["exit"], len(rec["disk1"] or {}), f[1] if len(f) > 1 else "?", len(p_bl(f[2]) or {}) if len(f) > 2 else -1)})
        elif rec["stale_reported"] is not None and rec["flags"].get("rc") == "s" and w_keys(rec["stale_reported"]) != f[3]:
            mism.append({"what": "large project, step '%s': %d stale paths listed, model %d" % (rec["note"], len(rec["stale_reported"]), len(p_keys(f[3])))})
    return {"steps": len(allrecs), "findings": findings, "mismatches": mism, "spawns": spawns}


# ------------------------------------------------------------------ unreadable entries under fail-fast (C09 non-masking)

def error_entry_phase(ctx, bins, model, quick=True):
    """--files lists that contain an entry that cannot be read (I/O error, no result) next to recorded and
    unrecorded violations, every order, fail-fast by flag and by config: an unrecorded violation must still
    fail the run and be reported Failed when it was evaluated."""
    exe = bins["sgcli"]
    # (g: a recorded file that has grown since the baseline was written - still known debt, never a reason to stop)
    cases = [("eo", None), ("eoo", [1]), ("oeo", [0]), ("euo", None), ("go", [0]), ("geo", [0]), ("gko", [0, 1])] + ([] if quick else [("eoow", [1, 2]), ("eeo", None), ("woe", None), ("eoou", [2])])
    traces, spawns, findings = [], 0, []
    for i, (sizes, bl) in enumerate(cases):
        perms = list(itertools.permutations(range(len(sizes))))
        tr, sp = trace_case(exe, sizes, bl, perms, [1, 4], 1, i % 2 == 1, False, False, False)
        traces += tr
        spawns += sp
    validate_traces(model, traces)
    tie = []
    for t in traces:
        slimt = {k2: t[k2] for k2 in ("sizes", "baseline", "order", "threads", "ff_cfg", "wae", "wo", "full_scan", "exit", "exit_noff")}
        slimt["observed"] = [r["path"] + ":" + r["status"] for r in t["obs"]]
        loaded = view(t["disk"])
        unrec = [r for r in t["R"] if r["status"] == "F" and (loaded is None or norm_key(r["path"]) not in loaded)]
        if unrec and t["exit"] != 1:
            findings.append({"prop": "C09", "class": None, "trace": slimt,
                             "what": "unrecorded_always_fails: exit %d under fail-fast although %s is over the limit and not in the baseline (an unreadable entry precedes it)" % (t["exit"], unrec[0]["path"])})
        if not t["ffsub"] or t["exit"] != t["model_exit"]:
            tie.append({"what": "fail-fast run with an unreadable entry: not ff_sub of the full run, or exit differs from the model", "trace": slimt})
    return {"traces": len(traces), "findings": findings, "mismatches": tie, "spawns": spawns}


# ------------------------------------------------------------------ a recorded file renamed / copied: the entry stays with its path (C09 non-masking)

def moved_file_phase(ctx, bins, model, quick=True):
    """The baseline records src/wasNN.rs, which no longer exists; a file with exactly the recorded bytes (same SHA-256, same line
    count) fails at ANOTHER path. That path is not recorded: the violation is reported failed and the run exits 1, in a --files run
    and in a directory scan, with and without fail-fast, next to genuinely grandfathered files (class m of BigProject)."""
    exe = bins["sgcli"]
    cases = [("m", None, False), ("mu", [], True), ("om", [0], False), ("gmw", [0], True), ("mo", [1], False)] + ([] if quick else [("mm", None, True), ("uomo", [1, 3], False), ("kmu", [0], True)])
    traces, spawns, findings, tie = [], 0, [], []
    for i, (sizes, bl, full) in enumerate(cases):
        orders = [None] if full else list(itertools.permutations(range(len(sizes))))
        tr, sp = trace_case(exe, sizes, bl, orders, [1, 4], 1, i % 2 == 1, False, False, full)
        traces += tr
        spawns += sp
    validate_traces(model, traces)
    for t in traces:
        slimt = {k2: t[k2] for k2 in ("sizes", "baseline", "order", "threads", "ff_cfg", "wae", "wo", "full_scan", "exit", "exit_noff")}
        slimt["observed"] = [r["path"] + ":" + r["status"] for r in t["obs"]]
        slimt["observed_without_fail_fast"] = [r["path"] + ":" + r["status"] for r in t["obs0"]]
        slimt["baseline_entries"] = {k: list(e) for k, e in (t["disk"] or {}).items()}
        sp_ = t["spec"]
        for label, obs, rc in (("without fail-fast", t["obs0"], t["exit_noff"]), ("with fail-fast", t["obs"], t["exit"])):
            bad = [r for r in obs if r["kind"] in ("n", "c") and sp_["status"].get(r["path"]) == "F" and r["status"] != "F"]
            if bad:
                findings.append({"prop": "C09", "class": None, "trace": slimt,
                                 "what": "unrecorded_always_fails: %s (not a key of the baseline; the entry with its hash belongs to a path that is gone) reported %s %s" % (bad[0]["path"], bad[0]["status"], label)})
                break
            if sp_["exit"] == 1 and rc != 1:
                findings.append({"prop": "C09", "class": None, "trace": slimt, "what": "unrecorded_always_fails: exit %d %s although an unrecorded violation exists" % (rc, label)})
                break
        if not t["ffsub"] or t["exit"] != t["model_exit"]:
            tie.append({"what": "renamed recorded file: fail-fast run not ff_sub of the full run, or exit differs from the model", "trace": slimt})
    return {"traces": len(traces), "findings": findings, "mismatches": tie, "spawns": spawns}


# ------------------------------------------------------------------ runs from a sub-directory of the project (C10)

def _tree(base, skip=()):
    """path -> sha256 of every regular file below base (relative paths), without the ones in skip"""
    out = {}
    for dp, dn, fn in os.walk(base):
        for f in fn:
            p = os.path.join(dp, f)
            rel = os.path.relpath(p, base)
            if rel in skip:
                continue
            try:
                out[rel] = hashlib.sha256(open(p, "rb").read()).hexdigest()
            except OSError:
                out[rel] = "?"
    return out


def _read_bl(path):
    if not os.path.exists(path):
        return None
    j = json.load(open(path))
    out = {}
    for k, e in j["files"].items():
        out[k] = ("C", e["lines"], e["hash"]) if e["type"] == "content" else ("S", "f" if e["violation_type"] == "files" else "d", e["count"])
    return out


def subdir_ratchet_case(exe, rng, marker, root_baseline, by_cfg, threads, spec=None):
    """A project whose root carries the marker (.sloc-guard.toml or .git) and a package directory pkg/ below it that keeps
    its own baseline pkg/base.json (keys relative to pkg/). Every run has cwd = pkg and names the file by the RELATIVE
    path `--baseline base.json`; a file of the same name may exist at the project root. Returns (records, findings, spawns)."""
    sb = Sandbox(prefix="sgv-sub-")
    recs, findings, spawns = [], [], 0
    try:
        cfg = ['version = "2"', "[content]", "max_lines = 10", "warn_threshold = 0.8", 'extensions = ["rs"]']
        if by_cfg:
            cfg += ["[baseline]", 'ratchet = "auto"']
        if marker == "toml":
            cfgname = ".sloc-guard.toml"
        else:
            cfgname = "cfg.toml"
            os.makedirs(os.path.join(sb.proj, ".git"))
        sb.write(cfgname, "\n".join(cfg) + "\n")
        if spec:
            sizes = dict(spec["files"])
            names = sorted(sizes)
        else:
            n = rng.randint(3, 6)
            names = ["x%d.rs" % i for i in range(n)]
            sizes = {f: rng.choice("ooou") for f in names}
            sizes[names[0]] = "o"
        texts = {}

        def put(f, ch):
            texts[f] = body("pkg/" + f, SIZE[ch])
            sb.write("pkg/" + f, texts[f])
        for f in names:
            put(f, sizes[f])
        sb.write("other/legacy.rs", body("other/legacy.rs", 12))
        pkg = os.path.join(sb.proj, "pkg")
        blp = os.path.join(pkg, "base.json")
        rootbl = os.path.join(sb.proj, "base.json")

        def run(fl, cwd, note):
            nonlocal spawns
            a = ["check", "--config", os.path.join(sb.proj, cfgname) if cwd == sb.proj else "../" + cfgname,
                 "--format", "json", "--color", "never", "--no-sloc-cache", "--baseline", "base.json"]
            if fl.get("u"):
                a += ["--update-baseline", UM[fl["u"]]]
            if fl.get("rc"):
                a += ["--ratchet", RM[fl["rc"]]]
            a.append(".")
            before_tree = _tree(sb.base, skip=(os.path.relpath(blp, sb.base),) if cwd == pkg else (os.path.relpath(rootbl, sb.base),))
            d0 = _read_bl(blp)
            spawns += 1
            rc, out, err = sb.run(exe, a, cwd=cwd, env={"RAYON_NUM_THREADS": str(threads)})
            d1 = _read_bl(blp)
            after_tree = _tree(sb.base, skip=(os.path.relpath(blp, sb.base),) if cwd == pkg else (os.path.relpath(rootbl, sb.base),))
            try:
                obs, _ = parse_json_results(out)
            except Exception:
                obs = []
            for r in obs:
                f = norm_key(r["path"])
                r["hash"] = hashlib.sha256(texts[f].encode()).hexdigest() if f in texts and os.path.exists(os.path.join(pkg, f)) else ""
            changed = sorted(k for k in set(before_tree) | set(after_tree) if before_tree.get(k) != after_tree.get(k))
            return {"note": note, "flags": dict(fl, b=True), "cwd": os.path.relpath(cwd, sb.proj), "obs": obs, "rp": [pre(r) for r in obs], "disk0": d0, "disk1": d1, "exit": rc,
                    "stale_reported": parse_stale(err), "other_files_changed": changed, "stderr": err[-600:]}
        shape = {"marker": marker, "root_baseline": root_baseline, "ratchet_by_config": by_cfg, "threads": threads, "files": dict(sizes),
                 "shape": "cwd = <project>/pkg, `check --config ../<cfg> --baseline base.json [--ratchet m] .`: update all; some files fixed or deleted; strict / auto / auto / strict"}
        r0 = run({"u": "a"}, pkg, "update all from pkg/")
        if root_baseline:
            run({"u": "a"}, sb.proj, "update all from the project root (root/base.json)")
        # resolve some violations: shrink or delete
        over = [f for f in names if sizes[f] == "o"]
        if spec:
            after = dict(spec["after"])
        else:
            after = {f: ("-" if rng.random() < 0.3 else rng.choice("uw")) for f in rng.sample(over, rng.randint(1, len(over)))}
        fixed, gone = sorted(after), sorted(f for f in after if after[f] == "-")
        for f in fixed:
            if after[f] == "-":
                os.remove(os.path.join(pkg, f))
            else:
                put(f, after[f])
        shape["after"] = after
        auto_fl = {} if by_cfg else {"rc": "a"}
        steps = [run({"rc": "s"}, pkg, "strict before tightening"), run(dict(auto_fl), pkg, "auto"), run(dict(auto_fl), pkg, "auto again"),
                 run({"rc": "s"}, pkg, "strict after tightening")]
        for st in steps:
            st["dirs"] = sorted(gone)          # a directory scan sees the deleted files gone
            st["flags"] = dict(st["flags"], **({"rg": "a"} if by_cfg else {}))
            if st["other_files_changed"]:
                findings.append({"prop": "C10", "class": None, "trace": shape,
                                 "what": "no_add_without_update: step '%s' run from pkg/ with the relative `--baseline base.json` created or changed %s (only pkg/base.json is the baseline of this run)" % (
                                     st["note"], st["other_files_changed"])})
        s1, a1, a2, s2 = steps
        want = set(fixed)
        removed = set(view(a1["disk0"]) or {}) - set(view(a1["disk1"]) or {})
        if s1["exit"] != 1:
            findings.append({"prop": "C10", "class": None, "trace": shape, "what": "strict from pkg/: exit %d with resolved entries %s" % (s1["exit"], sorted(want))})
        if removed != want:
            findings.append({"prop": "C10", "class": None, "trace": shape,
                             "what": "stale_only_if_evaluated_and_resolved: auto run from pkg/ removed %s from the file named by --baseline (pkg/base.json); evaluated and resolved: %s" % (sorted(removed), sorted(want))})
        if (a2["disk1"] or {}) != (a2["disk0"] or {}) or (view(a2["disk0"]) or {}) != {k2: e for k2, e in (view(a1["disk0"]) or {}).items() if k2 not in want}:
            findings.append({"prop": "C10", "class": None, "trace": shape, "what": "auto_fixpoint: the rerun from pkg/ after the auto tightening found the file %s" % sorted(a2["disk0"] or {})})
        if s2["exit"] != 0 or s2["stale_reported"]:
            findings.append({"prop": "C10", "class": None, "trace": shape,
                             "what": "auto_fixpoint: strict run right after the auto tightening (cwd pkg/) exits %d, stale %s" % (s2["exit"], s2["stale_reported"])})
        recs = [r0] + steps
        r0["dirs"] = []
        if by_cfg:
            r0["flags"]["rg"] = "a"
        for r in recs:
            r["shape"] = shape
        return recs, findings, spawns
    finally:
        sb.close()


def subdir_ratchet_phase(ctx, bins, model, k):
    rng = ctx.rng
    allrecs, findings, spawns = [], [], 0
    for i in range(k):
        recs, fs, sp = subdir_ratchet_case(bins["sgcli"], rng, "toml" if i % 2 == 0 else "git", i % 3 != 2, i % 4 == 3, rng.choice([1, 4]))
        allrecs += recs
        findings += fs
        spawns += sp
    lines = ["step\t%s\t%s\t%s\t%s" % (w_flags(r["flags"]), w_results(r["rp"]), w_keys(r["dirs"]) if r["dirs"] else "_", w_bl(r["disk0"])) for r in allrecs]
    mouts, merrs = run_sharded(model, lines)
    if merrs:
        raise CheckBroken("model driver failed: %s" % merrs[:1])
    mism = []
    for r, mo in zip(allrecs, mouts):
        st = "".join(x["status"] for x in r["obs"]) or "_"
        f = mo.split("\t")
        if len(f) < 4 or (f[0], f[1], f[2]) != (st, str(r["exit"]), w_bl(r["disk1"])):
            mism.append({"what": "run from a sub-directory, step '%s': statuses %s exit %s file %s; model %s" % (r["note"], st, r["exit"], sorted(r["disk1"] or {}), mo), "trace": r["shape"]})
    return {"steps": len(allrecs), "findings": findings, "mismatches": mism, "spawns": spawns}


# ------------------------------------------------------------------ a custom-named baseline file inside the scanned tree (C09, known finding D86)

def custom_baseline_phase(ctx, bins, model):
    """[structure] max_files = 2; the root holds .sloc-guard.toml and main.rs (at the limit). `check --baseline bl.json
    --update-baseline` writes bl.json INTO the root; only the default file name is hidden from the scan
    (state::is_own_state_entry), so the next `check --baseline bl.json` counts 3 files. The same with the default name
    (.sloc-guard-baseline.json) and with bl.json outside the scanned tree must round-trip: these are oracle legs, not known."""
    findings, mism, steps = [], [], 0

    def leg(name, where):
        nonlocal steps
        sb = Sandbox(prefix="sgv-cbl-")
        try:
            sb.write(".sloc-guard.toml", 'version = "2"\n[content]\nmax_lines = 100\nextensions = ["rs"]\n[structure]\nmax_files = 2\n')
            sb.write("main.rs", "fn main() {}\n")
            blp = os.path.join(sb.proj if where == "in" else sb.base, name)
            arg = name if where == "in" else blp
            base = ["check", "--format", "json", "--color", "never", "--no-sloc-cache", "--baseline", arg]
            out = []
            for extra in (["--update-baseline"], [], ["--update-baseline"], []):
                rc, so, err = sb.run(bins["sgcli"], base + extra)
                steps += 1
                try:
                    obs, _ = parse_json_results(so)
                except Exception:
                    obs = []
                out.append({"args": " ".join(base[:1] + base[6:] + extra), "exit": rc, "failed": [r["path"] + ":" + r["kind"] + ":%d" % r["code"] for r in obs if r["status"] == "F"],
                            "file": sorted((_read_bl(blp) or {}).items())})
            return out
        finally:
            sb.close()
    for name, where, known in (("bl.json", "in", True), (BASELINE_FILE, "in", False), ("bl.json", "out", False)):
        o = leg(name, where)
        shape = {"config": "[structure] max_files = 2; root = {.sloc-guard.toml, main.rs}", "baseline_file": name, "baseline_inside_the_scanned_tree": where == "in", "runs": o}
        u1, c1, u2, c2 = o
        bad = []
        if u1["exit"] == 0 and (c1["exit"] != 0 or c1["failed"]):
            bad.append("roundtrip: `check --baseline %s` right after `--update-baseline` (exit 0, nothing to record) exits %d with %s failed" % (name, c1["exit"], c1["failed"]))
        if u2["file"] != u1["file"]:
            bad.append("update_idempotent: updating again without project changes: %s -> %s" % (u1["file"], u2["file"]))
        for b in bad:
            findings.append({"prop": "C09", "class": "K09_custom_baseline_in_tree" if known else None, "trace": shape, "what": b})
        if known and not bad:
            # the witness of the known finding no longer reproduces: say so (the entry must go)
            mism.append({"what": "known finding K09_custom_baseline_in_tree no longer reproduces: %s" % o})
    return {"steps": steps, "findings": findings, "mismatches": mism, "spawns": steps}


# ------------------------------------------------------------------ a recorded file below a directory the run cannot read (C10, fix D140)

def unreadable_dir_phase(ctx, bins, model):
    """Entries for src/secret/a.rs and src/b.rs (both still over the limit); `chmod 000 src/secret`; the run has no privilege to
    look inside (as root it drops to uid 65534 with setpriv). The scan cannot evaluate src/secret/a.rs and cannot tell whether it
    exists: its entry must not be reported stale (strict: exit 0) nor removed (auto). An entry whose file really is gone
    (src/gone.rs) is still stale in the same run."""
    findings, mism, steps = [], [], 0
    if os.geteuid() == 0 and not shutil.which("setpriv"):
        return {"steps": 0, "findings": [], "mismatches": [], "spawns": 0, "skipped": "root without setpriv"}
    drop = ["setpriv", "--reuid=65534", "--regid=65534", "--clear-groups"] if os.geteuid() == 0 else []
    for mode, with_gone, threads in (("s", False, 1), ("a", False, 4), ("a", True, 1), ("s", True, 1), ("w", True, 1)):
        sb = Sandbox(prefix="sgv-unr-")
        secret = os.path.join(sb.proj, "src", "secret")
        try:
            exe = os.path.join(sb.base, "sgcli")
            shutil.copy2(bins["sgcli"], exe)
            sb.write(".sloc-guard.toml", 'version = "2"\n[scanner]\nexclude = [".sloc-guard*"]\n[content]\nmax_lines = 10\nextensions = ["rs"]\n')
            texts = {"src/secret/a.rs": body("src/secret/a.rs", 12), "src/b.rs": body("src/b.rs", 12), "src/c.rs": body("src/c.rs", 3)}
            for f, t in texts.items():
                sb.write(f, t)
            if with_gone:
                sb.write("src/gone.rs", body("src/gone.rs", 13))
            sb.run(bins["sgcli"], cli_args({"u": "a"}))
            if with_gone:
                os.remove(os.path.join(sb.proj, "src/gone.rs"))
            for dp, dn, fn in os.walk(sb.base):
                os.chmod(dp, 0o777)
                for f in fn:
                    os.chmod(os.path.join(dp, f), 0o777 if f == "sgcli" else 0o666)
            d0 = read_disk(sb.proj)
            os.chmod(secret, 0)
            fl = {"b": True, "rc": mode}
            a = drop + [exe] + cli_args(fl) + ["."]
            rc, out, err = sb.run(a[0], a[1:], env={"RAYON_NUM_THREADS": str(threads)})
            steps += 1
            os.chmod(secret, 0o755)
            d1 = read_disk(sb.proj)
            try:
                obs, _ = parse_json_results(out)
            except Exception:
                obs = []
            for r in obs:
                r["hash"] = hashlib.sha256(texts[norm_key(r["path"])].encode()).hexdigest() if norm_key(r["path"]) in texts else ""
            stale = parse_stale(err) or []
            shape = {"unreadable_dir": "src/secret (mode 000, run as uid 65534)" if drop else "src/secret (mode 000)", "ratchet": RM[mode], "threads": threads,
                     "entries_before": sorted(d0 or {}), "entries_after": sorted(d1 or {}), "stale_reported": stale, "exit": rc,
                     "results": [r["path"] + ":" + r["status"] for r in obs], "deleted_recorded_file": "src/gone.rs" if with_gone else None}
            seen = any(norm_key(r["path"]) == "src/secret/a.rs" for r in obs)
            if seen:
                mism.append({"what": "unreadable directory: src/secret/a.rs was evaluated (the privilege drop did not work?)", "trace": shape})
                continue
            removed = sorted(set(d0 or {}) - set(d1 or {}))
            if "src/secret/a.rs" in stale or "src/secret/a.rs" in removed:
                findings.append({"prop": "C10", "class": None, "trace": shape,
                                 "what": "stale_only_if_evaluated_and_resolved: src/secret/a.rs %s although the run could not look into src/secret (the file exists, has 12 lines, limit 10)" % (
                                     "removed from the baseline" if "src/secret/a.rs" in removed else "reported stale")})
            want_stale = ["src/gone.rs"] if with_gone else []
            if (removed if mode == "a" else stale) != want_stale or (mode != "a" and removed):
                if not ("src/secret/a.rs" in stale or "src/secret/a.rs" in removed):
                    findings.append({"prop": "C10", "class": None, "trace": shape, "what": "unreadable directory: stale/removed %s, expected %s" % (removed if mode == "a" else stale, want_stale)})
            want_exit = 1 if (mode == "s" and with_gone) else 0
            if rc != want_exit and not ("src/secret/a.rs" in stale):
                findings.append({"prop": "C10", "class": None, "trace": shape, "what": "strict_fails_only_for_resolved: exit %d, expected %d" % (rc, want_exit)})
            mo, _, _ = run_lines(model, ["step\t%s\t%s\t%s\t%s" % (w_flags(fl), w_results([pre(r) for r in obs]), w_keys(want_stale) if want_stale else "_", w_bl(d0))])
            f = mo[0].split("\t")
            if (f[1], f[2]) != (str(rc), w_bl(d1)):
                mism.append({"what": "unreadable directory: exit %d entries %s; model %s" % (rc, sorted(d1 or {}), mo[0][:200]), "trace": shape})
        finally:
            try:
                os.chmod(secret, 0o755)
            except OSError:
                pass
            sb.close()
    return {"steps": steps, "findings": findings, "mismatches": mism, "spawns": steps * 2}


# ------------------------------------------------------------------ two overlapping runs on one baseline file (C10, known finding D87)

def overlapping_runs_phase(ctx, bins, model):
    """Run A (`--ratchet auto`, no --update-baseline) loads the baseline {a.rs, b.rs} and is held just before its save
    (hook SGV_SYNC_DIR at aw:start); run B (`--update-baseline new`) records the new violator c.rs and finishes; A is released
    and writes its tightened copy {b.rs}: the entry of c.rs, which still violates and which A itself reported failed, is gone.
    The load - tighten - save cycle of the baseline has no update lock (the history file has one: state::lock_for_update).
    The sequential order of the same two runs (B then A, and A then B) is the oracle leg and must keep c.rs."""
    findings, mism, steps = [], [], 0

    def leg(overlap, a_first=False):
        nonlocal steps
        sb = Sandbox(prefix="sgv-ovl-")
        try:
            sb.write(".sloc-guard.toml", 'version = "2"\n[content]\nmax_lines = 10\nextensions = ["rs"]\n')
            for f, n in (("a.rs", 12), ("b.rs", 12), ("c.rs", 3)):
                sb.write(f, body(f, n))
            sb.run(bins["sgcli"], cli_args({"u": "a"}))
            d_start = read_disk(sb.proj)
            sb.write("a.rs", body("a.rs", 3))        # resolved
            sb.write("c.rs", body("c.rs", 14))       # new violator
            sync = os.path.join(sb.base, "sync")
            os.makedirs(sync)
            a_args, b_args = cli_args({"b": True, "rc": "a"}), cli_args({"b": True, "u": "n"})
            steps += 3
            if overlap:
                env = dict(sb.env, SGV_SYNC_DIR=sync, SGV_TAG="A", SGV_SYNC_POINTS="aw:start", RAYON_NUM_THREADS="1")
                pa = subprocess.Popen([bins["sgcli"], *a_args], cwd=sb.proj, env=env, stdout=subprocess.DEVNULL, stderr=subprocess.DEVNULL)
                t0 = time.time()
                while not any(x.endswith(".at") for x in os.listdir(sync)) and time.time() - t0 < 20 and pa.poll() is None:
                    time.sleep(0.01)
                held = any(x.endswith(".at") for x in os.listdir(sync))
                sb.run(bins["sgcli"], b_args)
                d_mid = read_disk(sb.proj)
                for x in os.listdir(sync):
                    if x.endswith(".at"):
                        open(os.path.join(sync, ".".join(x.split(".")[:2]) + ".go"), "w").close()
                try:
                    pa.wait(timeout=30)
                except subprocess.TimeoutExpired:
                    pa.kill()
                    held = False
            else:
                held = True
                for args in ((a_args, b_args) if a_first else (b_args, a_args)):
                    sb.run(bins["sgcli"], args)
                d_mid = None
            d_end = read_disk(sb.proj)
            rc, out, _ = sb.run(bins["sgcli"], cli_args({"b": True}))
            return {"held": held, "start": sorted(d_start or {}), "after_B": sorted(d_mid or {}) if d_mid is not None else None, "end": sorted(d_end or {}), "check_exit": rc}
        finally:
            sb.close()
    shape = {"shape": "baseline {a.rs, b.rs}; a.rs fixed, c.rs grows over the limit; A = `check --baseline F --ratchet auto`, B = `check --baseline F --update-baseline new`"}
    for overlap, a_first, known in ((True, False, True), (False, False, False), (False, True, False)):
        o = leg(overlap, a_first)
        tr = dict(shape, schedule="A loads; B runs to completion; A saves" if overlap else ("A; B" if a_first else "B; A"), observed=o)
        if overlap and not o["held"]:
            mism.append({"what": "overlapping runs: run A never reached aw:start (hook missing?)", "trace": tr})
            continue
        lost = "c.rs" not in o["end"]
        if lost:
            findings.append({"prop": "C10", "class": "K10_overlapping_runs_lost_update" if known else None, "trace": tr,
                             "what": "stale_only_if_evaluated_and_resolved: the entry of c.rs (recorded by run B, still over the limit) is gone after the auto-ratchet run A (%s): %s -> %s" % (
                                 tr["schedule"], o["after_B"] or o["start"], o["end"])})
        elif known:
            mism.append({"what": "known finding K10_overlapping_runs_lost_update no longer reproduces", "trace": tr})
        if not overlap and (o["end"] != ["b.rs", "c.rs"] or o["check_exit"] != 0):
            findings.append({"prop": "C10", "class": None, "trace": tr, "what": "subset: sequential runs %s leave %s (expected b.rs, c.rs), check exit %d" % (tr["schedule"], o["end"], o["check_exit"])})
    return {"steps": steps, "findings": findings, "mismatches": mism, "spawns": steps}


# ------------------------------------------------------------------ structure results at the path of a file that was not content-checked (C10)

def _git(sb, *a):
    return subprocess.run(["git", *a], cwd=sb.proj, env=dict(sb.env), stdout=subprocess.PIPE, stderr=subprocess.PIPE, timeout=60)


def sibling_ratchet_case(exe, route, mode, severity, threads, by_cfg=False):
    """Recorded over-long files src/*_rec.rs that lack the sibling a [[structure.rules]] siblings rule asks for (severity warn
    or error): a directory scan reports a missing_sibling result AT THE PATH OF EACH SUCH FILE, also in a run whose file loop
    did not evaluate the file's line count:
      route 'ff'   : new, unrecorded violators stop the fail-fast loop (one worker; they are first and last in creation order
                     and in the middle by name, so whatever the scan order some recorded file comes after the first of them);
      route 'diff' : `--diff HEAD~1` with only src/c.rs changed since that commit.
    An entry whose file was not content-checked in this run was not evaluated: the ratchet must leave it alone.
    Returns (records, findings, spawns)."""
    sb = Sandbox(prefix="sgv-sib-")
    recs, findings, spawns = [], [], 0
    try:
        cfg = ['version = "2"', "[scanner]", 'exclude = [".sloc-guard*"]', "[content]", "max_lines = 10", "warn_threshold = 0.8", 'extensions = ["rs"]',
               "[[structure.rules]]", 'scope = "src"', 'siblings = [{ match = "*_rec.rs", require = "{stem}_tests.rs", severity = "%s" }]' % severity]
        if by_cfg:
            cfg += ["[baseline]", 'ratchet = "%s"' % RM[mode]]
        sb.write(".sloc-guard.toml", "\n".join(cfg) + "\n")
        texts = {}

        def put(rel, n):
            texts[rel] = body(rel, n)
            sb.write(rel, texts[rel])
        news = ["src/b5_new.rs", "src/y5_new.rs"]
        recd = ["src/a0_rec.rs", "src/a1_rec.rs", "src/z0_rec.rs", "src/z1_rec.rs"]
        put(news[0], 3)
        for f in recd:
            put(f, 12)
        put("src/c.rs", 3)
        put(news[1], 3)
        shape = {"route": route, "ratchet": RM[mode], "ratchet_by_config": by_cfg, "sibling_severity": severity, "threads": threads,
                 "shape": "src/{a0,a1,z0,z1}_rec.rs (12 lines, limit 10) recorded and lacking the sibling {stem}_tests.rs a siblings rule (severity %s) asks for; " % severity +
                          ("src/b5_new.rs and src/y5_new.rs grow to 14 lines (not recorded); `check --baseline --ratchet %s --fail-fast .`, one worker" % RM[mode] if route == "ff" else
                           "git: commit; only src/c.rs changes; commit; `check --baseline --ratchet %s --diff HEAD~1 .`" % RM[mode])}

        def run(fl, extra, note):
            nonlocal spawns
            d0 = read_disk(sb.proj)
            spawns += 1
            rc, out, err = sb.run(exe, cli_args(fl) + extra + ["."], env={"RAYON_NUM_THREADS": str(threads)})
            d1 = read_disk(sb.proj)
            try:
                obs, _ = parse_json_results(out)
            except Exception:
                obs = []
            for r in obs:
                f = norm_key(r["path"])
                r["hash"] = hashlib.sha256(texts[f].encode()).hexdigest() if (f in texts and r["kind"] in ("n", "c")) else ""
            rec = {"note": note, "flags": dict(fl, **({"rg": mode} if by_cfg and fl.get("b") else {})), "obs": obs, "rp": [pre(r) for r in obs], "disk0": d0, "disk1": d1, "exit": rc,
                   "stale_reported": parse_stale(err), "dirs": ["src", "."], "shape": shape, "stderr": err[-400:]}
            recs.append(rec)
            return rec
        u = run({"u": "a"}, [], "update all")
        if set(view(u["disk1"]) or {}) != set(recd):
            findings.append({"prop": "C10", "class": None, "trace": shape, "what": "sibling set-up: --update-baseline all recorded %s" % sorted(u["disk1"] or {}), "tie": True})
            return recs, findings, spawns
        rfl = {"b": True} if by_cfg else {"b": True, "rc": mode}
        if route == "ff":
            for f in news:
                put(f, 14)
            r = run(dict(rfl, ff=True), [], "fail-fast ratchet run")
        else:
            _git(sb, "init", "-q", ".")
            _git(sb, "add", "-A")
            _git(sb, "commit", "-q", "-m", "one")
            put("src/c.rs", 4)
            _git(sb, "add", "-A")
            g = _git(sb, "commit", "-q", "-m", "two")
            if g.returncode != 0:
                findings.append({"prop": "C10", "class": None, "trace": shape, "what": "sibling set-up: git commit failed: %s" % g.stderr.decode()[-200:], "tie": True})
                return recs, findings, spawns
            r = run(dict(rfl), ["--diff", "HEAD~1"], "--diff HEAD~1 ratchet run")
        # the content results of this run say which files had their lines counted
        counted = {norm_key(x["path"]) for x in r["obs"] if x["kind"] in ("n", "c")}
        still = {norm_key(x["path"]) for x in r["obs"] if x["status"] in "FG"}
        d0, d1 = view(r["disk0"]) or {}, view(r["disk1"]) or {}
        removed = sorted(set(d0) - set(d1))
        reported = removed if mode == "a" else (r["stale_reported"] or [])
        notev = [k for k in reported if k not in counted]
        if notev:
            findings.append({"prop": "C10", "class": None, "trace": shape,
                             "what": "stale_only_if_evaluated_and_resolved: %s %s although the run did not count its lines (results at that path: %s) and it still has %d lines" % (
                                 notev[0], "removed from the baseline" if mode == "a" else "reported stale", [x["kind"] + ":" + x["status"] for x in r["obs"] if norm_key(x["path"]) == notev[0]], 12)})
        if mode != "a" and removed:
            findings.append({"prop": "C10", "class": None, "trace": shape, "what": "subset: entries %s removed under ratchet %s" % (removed, RM[mode])})
        fail = any(x["status"] == "F" for x in r["obs"])
        genuine = [k for k in d0 if k in counted and k not in still]
        if mode == "s" and r["exit"] == 1 and not fail and not genuine:
            findings.append({"prop": "C10", "class": None, "trace": shape,
                             "what": "strict_fails_only_for_resolved: exit 1 with no failed result and no entry that was evaluated and is resolved (stale reported: %s)" % r["stale_reported"]})
        # the consequence: with the new violators gone a full check must still grandfather every recorded file
        if route == "ff":
            for f in news:
                put(f, 3)
        c = run({"b": True}, [], "full check afterwards")
        lost = [x["path"] for x in c["obs"] if x["status"] == "F" and norm_key(x["path"]) in d0 and x["kind"] in ("n", "c")]
        if lost:
            findings.append({"prop": "C10", "class": None, "trace": shape,
                             "what": "stale_only_if_evaluated_and_resolved: after the ratchet run the full check fails on %s, which was recorded before it and has not changed" % lost[0]})
        return recs, findings, spawns
    finally:
        sb.close()


def sibling_ratchet_phase(ctx, bins, model, quick=True):
    allrecs, findings, spawns = [], [], 0
    combos = [("ff", "a", "warn", 1, False), ("diff", "a", "warn", 1, False), ("ff", "s", "warn", 1, False), ("diff", "s", "warn", 4, True),
              ("ff", "a", "error", 1, True), ("diff", "a", "error", 2, False), ("ff", "w", "warn", 1, False), ("diff", "w", "warn", 1, False)]
    if not quick:
        combos += [(r, m, sv, th, bc) for r in ("ff", "diff") for m in "aws" for sv in ("warn", "error") for th in (1, 4) for bc in (False, True)]
    with cf.ThreadPoolExecutor(max_workers=8) as ex:
        for recs, fs, sp in ex.map(lambda c: sibling_ratchet_case(bins["sgcli"], *c), combos):
            allrecs += recs
            findings += fs
            spawns += sp
    tie = [{"what": f["what"], "trace": f["trace"]} for f in findings if f.get("tie")]
    findings = [f for f in findings if not f.get("tie")]
    lines = ["step\t%s\t%s\t%s\t%s" % (w_flags(r["flags"]), w_results(r["rp"]), w_keys(r["dirs"]), w_bl(r["disk0"])) for r in allrecs]
    mouts, merrs = run_sharded(model, lines)
    if merrs:
        raise CheckBroken("model driver failed: %s" % merrs[:1])
    for r, mo in zip(allrecs, mouts):
        st = "".join(x["status"] for x in r["obs"]) or "_"
        f = mo.split("\t")
        if len(f) < 4 or (f[0], f[1], f[2]) != (st, str(r["exit"]), w_bl(r["disk1"])):
            tie.append({"what": "siblings rule, step '%s': statuses %s exit %s file %s; model %s" % (r["note"], st, r["exit"], sorted(r["disk1"] or {}), mo), "trace": r["shape"]})
    return {"steps": len(allrecs), "findings": findings, "mismatches": tie, "spawns": spawns}


# ------------------------------------------------------------------ paths that are not valid UTF-8 (C09 non-masking, C10)

FF, FE, LOSSY = "src/\udcff.rs", "src/\udcfe.rs", "src/\ufffd.rs"


def nonutf8_case(exe, fe_over, threads):
    """src/<ff>.rs (12 lines, over), src/<fe>.rs (3 or 15 lines), src/ok.rs (13 lines, over): the two names that are not
    valid UTF-8 have the same lossy form. Returns (records with raw-unit paths, findings)."""
    sb = Sandbox(prefix="sgv-nu8-")
    recs, findings = [], []
    try:
        sb.write(".sloc-guard.toml", 'version = "2"\n[content]\nmax_lines = 10\nwarn_threshold = 0.8\nextensions = ["rs"]\n')
        lines = {FF: 12, FE: 15 if fe_over else 3, "src/ok.rs": 13}
        texts = {p: ("let v = %d;\n" % i) * n for i, (p, n) in enumerate(lines.items())}
        for p, t in texts.items():
            sb.write(p, t)
        bycode = {n: p for p, n in lines.items()}
        shape = {"files": {"src/\\xff.rs": 12, "src/\\xfe.rs": lines[FE], "src/ok.rs": 13}, "threads": threads}

        def run(fl, files, note):
            d0 = read_disk(sb.proj)
            rc, out, err = sb.run(exe, cli_args(fl, files), env={"RAYON_NUM_THREADS": str(threads)})
            d1 = read_disk(sb.proj)
            try:
                obs, _ = parse_json_results(out)
            except Exception:
                obs = []
            for r in obs:      # the report shows the lossy form; the line count identifies the file
                real = bycode.get(r["code"])
                r["shown"] = r["path"]
                if real:
                    r["path"] = "./" + real
                    r["hash"] = hashlib.sha256(texts[real].encode()).hexdigest()
            rec = {"note": note, "flags": dict(fl), "files": files, "obs": obs, "rp": [pre(r) for r in obs], "disk0": d0, "disk1": d1, "exit": rc,
                   "stale_reported": parse_stale(err), "dirs": [], "shape": shape}
            recs.append(rec)
            return rec

        def status_of(rec, p):
            return [r["status"] for r in rec["obs"] if r["path"] == "./" + p]
        u = run({"u": "a"}, None, "update all")
        if set(view(u["disk1"]) or {}) != {"src/ok.rs"}:
            findings.append({"prop": "C09", "class": None, "trace": dict(shape, step=u["note"]),
                             "what": "history_inv: --update-baseline all wrote the keys %s; only src/ok.rs has a key (the lossy key of a non-UTF-8 path is the key of another file)" % sorted(u["disk1"] or {})})
        c = run({"b": True}, None, "check --baseline")
        if status_of(c, FF) != ["F"] or c["exit"] != 1 or (fe_over and status_of(c, FE) != ["F"]):
            findings.append({"prop": "C09", "class": None, "trace": dict(shape, step=c["note"]),
                             "what": "unrecorded_always_fails: exit %d, src/\\xff.rs %s, src/\\xfe.rs %s (no entry can record either path)" % (c["exit"], status_of(c, FF), status_of(c, FE))})
        # the file as the code before fix D55 wrote it: the lossy key of src/<ff>.rs
        legacy = dict(view(u["disk1"]) or {})
        legacy[LOSSY] = ("C", 12, "")
        write_disk(sb.proj, legacy)
        c2 = run({"b": True}, None, "check --baseline, file holds the lossy key")
        if status_of(c2, FF) != ["F"] or c2["exit"] != 1 or (fe_over and status_of(c2, FE) != ["F"]):
            findings.append({"prop": "C09", "class": None, "trace": dict(shape, step=c2["note"]),
                             "what": "unrecorded_always_fails: with the entry src/<U+FFFD>.rs in the file: exit %d, src/\\xff.rs %s, src/\\xfe.rs %s; neither path is that entry's" % (
                                 c2["exit"], status_of(c2, FF), status_of(c2, FE))})
        for mode in ("s", "a"):
            write_disk(sb.proj, legacy)
            r = run({"b": True, "rc": mode}, [FE], "--files src/<fe>.rs --ratchet %s" % RM[mode])
            want_exit = 1 if fe_over else 0
            if r["exit"] != want_exit or r["stale_reported"] or (view(r["disk1"]) or {}) != legacy:
                findings.append({"prop": "C10", "class": None, "trace": dict(shape, step=r["note"]),
                                 "what": "stale_only_if_evaluated_and_resolved: a run that evaluated src/\\xfe.rs only: exit %d (expected %d), stale %s, entries afterwards %s; the entry src/<U+FFFD>.rs is not that path's" % (
                                     r["exit"], want_exit, r["stale_reported"], sorted(r["disk1"] or {}))})
        return recs, findings
    finally:
        sb.close()


def nonutf8_phase(ctx, bins, model):
    allrecs, findings = [], []
    for fe_over, th in ((False, 1), (True, 1), (True, 4)):
        recs, fs = nonutf8_case(bins["sgcli"], fe_over, th)
        allrecs += recs
        findings += fs
    lines = ["step\t%s\t%s\t_\t%s" % (w_flags(r["flags"]), w_results(r["rp"]), w_bl(r["disk0"])) for r in allrecs]
    mouts, merrs = run_sharded(model, lines)
    if merrs:
        raise CheckBroken("model driver failed: %s" % merrs[:1])
    mism = []
    for r, mo in zip(allrecs, mouts):
        st = "".join(x["status"] for x in r["obs"]) or "_"
        f = mo.split("\t")
        if len(f) < 4 or (f[0], f[1], f[2]) != (st, str(r["exit"]), w_bl(r["disk1"])):
            mism.append({"what": "paths that are not valid UTF-8, step '%s': statuses %s exit %s file %s; model %s" % (r["note"], st, r["exit"], sorted(r["disk1"] or {}), mo), "trace": r["shape"]})
    return {"steps": len(allrecs), "findings": findings, "mismatches": mism, "spawns": len(allrecs)}


# ------------------------------------------------------------------ a backslash in a file name (C09, known finding D54)

def backslash_phase(ctx, bins, model):
    """src/a/b.rs recorded; a file literally named `a\\b.rs` appears in src, over the limit. path_key reads the backslash as
    a separator on every platform, so both files have the key src/a/b.rs."""
    sb = Sandbox(prefix="sgv-bsl-")
    findings, mism = [], []
    try:
        sb.write(".sloc-guard.toml", 'version = "2"\n[content]\nmax_lines = 10\nextensions = ["rs"]\n')
        sb.write("src/a/b.rs", body("src/a/b.rs", 12))
        rc0, _, _ = sb.run(bins["sgcli"], cli_args({"u": "a"}))
        d0 = read_disk(sb.proj)
        sb.write("src/a\\b.rs", body("src/a_b.rs", 15))
        rc, out, err = sb.run(bins["sgcli"], cli_args({"b": True}))
        obs, _ = parse_json_results(out)
        new = [r for r in obs if r["code"] == 15]       # the report spells both paths src/a/b.rs; the line count tells them apart
        for r in new:
            r["path"] = "./src/a\\b.rs"
        shape = {"recorded": sorted(d0 or {}), "new_file": "src/a\\b.rs (15 lines, limit 10)", "reported": [r["path"] + ":" + r["status"] for r in obs], "exit": rc}
        if len(new) != 1:
            mism.append({"what": "backslash file name: expected one result for src/a\\b.rs, got %s" % shape["reported"]})
        elif new[0]["status"] != "F" or rc != 1:
            findings.append({"prop": "C09", "class": "K09_backslash_name", "trace": shape,
                             "what": "unrecorded_always_fails: src/a\\b.rs (not recorded; the file recorded is src/a/b.rs) reported %s, exit %d" % (new[0]["status"], rc)})
        mo, _, _ = run_lines(model, ["step\t%s\t%s\t_\t%s" % (w_flags({"b": True}), w_results([pre(r) for r in obs]), w_bl(d0))])
        f = mo[0].split("\t")
        if (f[0], f[1]) != ("".join(r["status"] for r in obs) or "_", str(rc)):
            mism.append({"what": "backslash file name: statuses/exit %s %d, model %s" % (shape["reported"], rc, mo[0])})
        return {"steps": 2, "findings": findings, "mismatches": mism, "spawns": 2}
    finally:
        sb.close()
