"""C15, CLI level: SGV_NOW-driven sequences of snapshot / check / stats on a real project in a Sandbox.

After every step the history file is compared with (a) the extracted model's history (driver mode
`step`) and (b) the independent spec of gen_trend; read-only commands must leave its bytes unchanged;
`stats trend` / `stats history` outputs are compared with the model (`delta` / `since`) and the spec."""
import concurrent.futures as cf
import hashlib
import json
import random
from gen_trend import *  # noqa

DAY = 86400
FILES = {  # path -> (ext, comment marker)
    "src/a.rs": "//", "src/b.rs": "//", "lib/c.py": "#", "gen/d.rs": "//", "gen/e.py": "#", "scripts/run.sh": "#", "src/new1.rs": "//", "lib/new2.py": "#"}
INITIAL = ["src/a.rs", "src/b.rs", "lib/c.py", "gen/d.rs", "scripts/run.sh"]


def file_text(spec, marker):
    code, comment, blank = spec
    return "".join("x = %d;\n" % i for i in range(code)) + "".join("%s c%d\n" % (marker, i) for i in range(comment)) + "\n" * blank


def config_text(c):
    t = '[content]\nextensions = ["rs", "py"]\nmax_lines = %d\n' % c.get("max_lines", 50)
    if c.get("exclude"):
        t += 'exclude = ["**/gen/**"]\n'
    if c.get("fail_fast"):
        t += "[check]\nfail_fast = true\n"
    if c.get("rule"):
        t += '\n[[content.rules]]\npattern = "**/*.sh"\nmax_lines = 100\n'
    t += "\n[trend]\n"
    for k in ("max_entries", "max_age_days", "min_interval_secs", "min_code_delta"):
        if c.get(k) is not None:
            t += "%s = %d\n" % (k, c[k])
    if c.get("auto"):
        t += "auto_snapshot_on_check = true\n"
    return t


def rand_project_cfg(rng, huge):
    c = {}
    if rng.random() < 0.7:
        c["max_entries"] = rng.choice([0, 1, 2, 3, 4, 100])
    if rng.random() < 0.6:
        c["max_age_days"] = rng.choice([0, 1, 2, 7, 30, 365])
        if huge:
            c["max_age_days"] = rng.choice([213503982334601, 213503982334602, 999999999999999999, (1 << 63) - 1])
    if rng.random() < 0.6:
        c["min_interval_secs"] = rng.choice([0, 1, 60, 3600, DAY])
    c["auto"] = rng.random() < 0.8
    c["exclude"] = rng.random() < 0.3
    c["rule"] = rng.random() < 0.3
    c["max_lines"] = rng.choice([50, 50, 50, 6])
    c["fail_fast"] = rng.random() < 0.15
    return c


def rand_steps(rng, cfg, git):
    now = rng.choice([0, 1000, 1_700_000_000, 1_790_000_000])
    steps = []
    n = rng.randint(5, 10)
    for _ in range(n):
        r = rng.random()
        mi = cfg.get("min_interval_secs") or 60
        now = max(0, now + rng.choice([0, 0, 1, mi - 1, mi, mi + 1, 3600, DAY - 1, DAY, DAY + 1, DAY * 2, DAY * 40, -1, -mi, -DAY, -DAY * 3]))
        edit = None
        if rng.random() < 0.45:
            edit = rng.choice(["append", "append", "append-many", "add", "delete", "comment"])
        if r < 0.30:
            k = ("snapshot", rng.random() < 0.2, rng.random() < 0.15)
        elif r < 0.62:
            mode = rng.choice(["full", "full", "full", "files", "files-all", "warn-only-ff", "subdir", "report-json", "html", "html-report"] + (["diff", "staged"] if git else []))
            k = ("check", mode)
        elif r < 0.80:
            since = None
            if rng.random() < 0.7:
                since = rng.choice(["1s", "59s", "1m", "60s", "1h", "1d", "24h", "2d", "1w", "40d", "0d", "abc", "7", "1D", " 2d ", "1wK",
                                    "30489634866744w", "30489634866745w", "40000000000000w", "18446744073709551615s", "18446744073709551616s", "213503982334602d"])
            k = ("trend", since)
        elif r < 0.88:
            k = ("history", rng.choice([None, 1, 2, 100]))
        else:
            k = (rng.choice(["summary", "files", "report"]),)
        steps.append({"now": now, "edit": edit, "cmd": k})
    return steps


class Project:
    def __init__(self, sb, exe, cfg, git, rng):
        self.sb, self.exe, self.cfg, self.git, self.rng = sb, exe, cfg, git, rng
        self.files = {}
        sb.write(".sloc-guard.toml", config_text(cfg))
        for p in INITIAL:
            self.set_file(p, (rng.randint(1, 4), rng.randint(0, 2), rng.randint(0, 1)))
        self.state = ".git/sloc-guard" if git else ".sloc-guard"
        if git:
            self.git_cmd(["init", "-q", "-b", "main"])
            self.git_cmd(["add", "-A"])
            self.git_cmd(["commit", "-q", "-m", "c0"])

    def git_cmd(self, args):
        return self.sb.run("git", args)

    def set_file(self, p, spec):
        self.files[p] = spec
        self.sb.write(p, file_text(spec, FILES[p]))

    def edit(self, kind):
        rng = self.rng
        live = sorted(self.files)
        if kind in ("append", "comment", "append-many") and live:
            p = rng.choice(live)
            c, m, b = self.files[p]
            self.set_file(p, (c + (1 if kind == "append" else 12 if kind == "append-many" else 0), m + (1 if kind == "comment" else 0), b))
        elif kind == "bloat-most" and live:
            keep = rng.choice(live)
            for p in live:
                if p != keep:
                    c, m, b = self.files[p]
                    self.set_file(p, (max(c, 12), m, b))
        elif kind == "add":
            p = rng.choice([q for q in FILES if q not in self.files] or live)
            self.set_file(p, (rng.randint(1, 3), rng.randint(0, 1), 0))
        elif kind == "delete" and len(live) > 2:
            p = rng.choice(live)
            del self.files[p]
            os.remove(os.path.join(self.sb.proj, p))
        if self.git and rng.random() < 0.5:
            self.git_cmd(["add", "-A"])
            if rng.random() < 0.6:
                self.git_cmd(["commit", "-q", "-m", "c"])

    def history_path(self):
        return os.path.join(self.sb.proj, self.state, "history.json")

    def read_history(self):
        p = self.history_path()
        if not os.path.exists(p):
            return None, []
        data = open(p, "rb").read()
        try:
            j = json.loads(data)
            h = [(e["timestamp"], (e["total_files"], e["total_lines"], e["code"], e["comment"], e["blank"]), int(e["git_ref"], 16) if e.get("git_ref") else 0)
                 for e in j["entries"]]
        except Exception:
            h = []
        return hashlib.sha256(data).hexdigest(), h

    def run(self, args, now, extra_env=None):
        env = {"SGV_NOW": str(now), "RAYON_NUM_THREADS": "1"}
        if extra_env:
            env.update(extra_env)
        return self.sb.run(self.exe, ["--color", "never"] + args, env=env)

    def summary(self, now, paths=()):
        rc, out, err = self.run(["stats", "summary", "--format", "json", "--no-sloc-cache"] + list(paths), now)
        try:
            s = json.loads(out)["summary"]
            return (s["total_files"], s["total_lines"], s["code"], s["comment"], s["blank"])
        except Exception:
            return None

    def pfiles(self, processed, sub=None):
        """Per-file flags for the totals model. processed: set of paths check evaluated (None: not a check)."""
        out = []
        for p, (c, m, b) in sorted(self.files.items()):
            if sub and not p.startswith(sub):
                continue
            ext_ok = p.endswith((".rs", ".py"))
            excluded = bool(self.cfg.get("exclude")) and p.startswith("gen/")
            rule = bool(self.cfg.get("rule")) and p.endswith(".sh")
            sp = (not excluded) and (ext_ok or rule)
            selected = True if processed is None else (("./" + p) in processed or p in processed or not sp)
            out.append("%d:%d:%d:%d:1%d%d%d%d0" % (c + m + b, c, m, b, ext_ok, excluded, rule, selected))
        return ";".join(out) or "-"


def w_hist(h):
    return w_entries(h)


def run_sequence(case, exe):
    """Execute one sequence; returns list of per-step observation dicts."""
    rng = random.Random(case["seed"])
    obs = []
    with Sandbox("sgv-c15-") as sb:
        pr = Project(sb, exe, case["cfg"], case["git"], rng)
        for st in case["steps"]:
            if st["edit"]:
                pr.edit(st["edit"])
            now, k = st["now"], st["cmd"]
            hash0, h0 = pr.read_history()
            o = {"now": now, "cmd": k, "h0": h0, "hash0": hash0}
            sub = "src/" if (k[0] == "check" and k[1] == "subdir") else None
            o["summary"] = pr.summary(now, ["src"] if sub else [])
            if k[0] == "snapshot":
                # the SLOC cache is C12's subject; under the simulated clock (SGV_NOW far from the files' real mtimes) its
                # same-second guard cannot work, so it is switched off for every counting command of this leg
                args = ["snapshot", "--no-sloc-cache"] + (["--force"] if k[1] else []) + (["--dry-run"] if k[2] else [])
                o["rc"], o["out"], o["err"] = pr.run(args, now)
                o["pfiles"] = pr.pfiles(None)
                o["model_cmd"] = "snapshot:%d:%d" % (k[1], k[2])
            elif k[0] == "check":
                mode = k[1]
                args = ["check", "--no-sloc-cache", "--format", "json"]
                live = sorted(pr.files)
                if mode == "files":
                    sel = rng.sample(live, rng.randint(1, max(1, len(live) - 1)))
                    for p in sel:
                        args += ["--files", p]
                elif mode == "files-all":
                    for p in live:
                        args += ["--files", p]
                elif mode == "warn-only-ff":
                    args += ["--warn-only", "--fail-fast"]
                elif mode == "subdir":
                    args += ["src"]
                elif mode == "diff":
                    args += ["--diff", "HEAD~1" if rng.random() < 0.5 else "HEAD"]
                elif mode == "staged":
                    args += ["--staged"]
                # every flag that makes `check` build project statistics (needs_stats) besides auto_snapshot_on_check
                if mode in ("report-json", "html-report"):
                    args += ["--report-json", "out-report.json"]
                if mode in ("html", "html-report"):
                    args[args.index("json")] = "html"
                o["rc"], o["out"], o["err"] = pr.run(args, now)
                processed, failed = None, False
                try:
                    j = json.loads(o["out"])
                    processed = {r["path"] for r in j["results"] if "stats" in r}
                    failed = any(r["status"] == "failed" for r in j["results"] if "stats" in r)
                except Exception:
                    pass
                if mode in ("html", "html-report"):
                    # no JSON report on stdout: an unrestricted run processed every file; the verdict is the exit code
                    o["pfiles"], failed = pr.pfiles(None), o["rc"] != 0
                    processed = processed if processed is not None else set()
                    o["out"] = o["out"][:200]
                else:
                    o["pfiles"] = pr.pfiles(processed if processed is not None else set(), sub)
                ff = mode == "warn-only-ff" or bool(case["cfg"].get("fail_fast"))
                partial = mode in ("files", "files-all", "diff", "staged") or (ff and failed)
                o["partial"] = partial
                o["mode"] = mode
                # a debug-profile overflow panic happens after the verdict: recover the verdict from the printed report
                passed = (o["rc"] == 0) if o["rc"] in (0, 1, 2) else (processed is not None and (not failed or mode == "warn-only-ff"))
                o["model_cmd"] = "check:%d:%d:%d" % (int(bool(case["cfg"].get("auto"))), int(passed), int(partial))
            else:
                if k[0] == "trend":
                    args = ["stats", "trend", "--no-sloc-cache", "--format", "json"] + (["--since", k[1]] if k[1] is not None else [])
                elif k[0] == "history":
                    args = ["stats", "history", "--format", "json"] + (["--limit", str(k[1])] if k[1] is not None else [])
                elif k[0] == "report":
                    args = ["stats", "report", "--no-sloc-cache", "--format", "json"]
                else:
                    args = ["stats", k[0], "--format", "json"] + (["--no-sloc-cache"] if k[0] in ("summary", "files") else [])
                o["rc"], o["out"], o["err"] = pr.run(args, now)
                o["pfiles"] = pr.pfiles(None)
                o["model_cmd"] = "stats"
            o["hash1"], o["h1"] = pr.read_history()
            obs.append(o)
    return obs


def cfg_of(c):
    return {"max_entries": c.get("max_entries"), "max_age_days": c.get("max_age_days"), "min_interval_secs": c.get("min_interval_secs"),
            "min_code_delta": c.get("min_code_delta")}


def tot_of_pfiles(model, pf):
    o, _, _ = run_lines(model, ["tot\t" + pf])
    f = o[0].split(" ")
    return [tuple(int(x) for x in f[i].split(":")) for i in (1, 2, 3)], f[4] == "R1", f[5] == "K1"


def analyse(case, obs, model, profile):
    """-> dict(violations=[], known=[], mismatches=[], nontrivial=int, validated=int, dist={})"""
    res = dict(violations=[], known=[], mismatches=[], nontrivial=0, validated=0, dist={}, samples=[])
    c = cfg_of(case["cfg"])
    wc = w_cfg(c)
    lines, meta = [], []
    for i, o in enumerate(obs):
        tag = o["h1"][-1][2] if o["h1"] else 0      # git ref a new entry carries: data (unused by the model when nothing is recorded)
        lines.append("step\t%s\t%s\t%d\t%s\t%d\t%s" % (wc, o["model_cmd"], o["now"], o["pfiles"], tag, w_hist(o["h0"])))
        meta.append(("step", i))
        if o["cmd"][0] == "trend" and o["summary"] is not None:
            if o["cmd"][1] is None:
                lines.append("delta\t%s\t-\t%d\t%s\t%s" % (wc, o["now"], w_tot(o["summary"]), w_hist(o["h0"])))
            else:
                lines.append("since\t%s\t%s\t%d\t%s\t%s" % (wc, enc(o["cmd"][1]), o["now"], w_tot(o["summary"]), w_hist(o["h0"])))
            meta.append(("trend", i))
        lines.append("tot\t" + o["pfiles"])
        meta.append(("tot", i))
    mouts, rc, err = run_lines(model, lines)
    if len(mouts) != len(lines):
        raise CheckBroken("trend model driver died on a CLI sequence: " + err)
    by = {}
    for (kind, i), mo in zip(meta, mouts):
        by[(kind, i)] = mo

    def mk(i, what, **kw):
        o = obs[i]
        return dict(kind="property-oracle", level="cli", profile=profile, what=what, step=i, cmd=list(o["cmd"]), now=o["now"],
                    cfg=case["cfg"], git=case["git"], seed=case["seed"], steps=case["steps"], h0=o["h0"], h1=o["h1"],
                    stdout=o.get("out", "")[:600], stderr=o.get("err", "")[-400:], rc=o.get("rc"), **kw)

    def viol(i, what, **kw):
        res["violations"].append(mk(i, what, **kw))

    def known(i, klass, what):
        # a disagreement inside a (possibly no longer listed) class, with everything needed to replay it
        res["known"].append((klass, what, mk(i, what, known_class=klass)))

    for i, o in enumerate(obs):
        k = o["cmd"]
        tag = k[0] + (":" + str(k[1]) if k[0] == "check" else "")
        res["dist"][tag] = res["dist"].get(tag, 0) + 1
        days = c.get("max_age_days")
        huge_age = days is not None and days * DAY >= U64
        since_big = k[0] == "trend" and k[1] is not None and spec_duration(k[1])[0] == "TOOBIG"
        mstep = by[("step", i)]
        model_ovf = mstep.startswith("OVF ")
        mh = p_entries(mstep.split(" ", 1)[1])
        # -------- panics / fatal exits
        if o["rc"] not in (0, 1, 2):
            if (huge_age and k[0] in ("snapshot", "check")) or since_big:
                known(i, "K15_overflow", "exit %s on a u64 overflow (%s)" % (o["rc"], tag))
            else:
                viol(i, "fatal exit status %s" % o["rc"])
            if not ((model_ovf or since_big) and profile == "debug"):
                res["mismatches"].append({"step": i, "what": "implementation died, model did not predict an overflow", "cmd": list(k), "rc": o["rc"]})
            continue
        # -------- model vs implementation: history after the step
        if model_ovf and profile == "debug":
            # the model predicts an overflow panic inside apply_retention, i.e. after the check output was printed;
            # for `check` the auto-snapshot panics before saving
            res["mismatches"].append({"step": i, "what": "model predicts a debug overflow panic, implementation exited %s" % o["rc"], "cmd": list(k)})
        elif mh != o["h1"]:
            res["mismatches"].append({"step": i, "what": "history.json after the step", "cmd": list(k), "now": o["now"], "impl": o["h1"][-4:], "model": mh[-4:],
                                      "cfg": case["cfg"]})
        else:
            res["validated"] += 1
        # -------- property oracle on the implementation
        changed = o["hash1"] != o["hash0"]
        readonly = k[0] in ("trend", "history", "summary", "files", "report") or (k[0] == "snapshot" and k[2]) or \
            (k[0] == "check" and (not case["cfg"].get("auto") or o["rc"] != 0))
        if readonly:
            if changed:
                viol(i, "a read-only command modified the history file")
        elif o["summary"] is not None:
            force = k[0] == "snapshot" and k[1]
            if not changed:
                # nothing recorded: allowed only when the interval says skip, or (repaired D16) on a partial check run
                must_add = force or spec_should_add(c, o["now"], o["h0"])
                if must_add and not (k[0] == "check" and o.get("partial")):
                    # a saved history identical to the old one is possible when retention drops the new entry at once
                    # (compared without the git tag: the tag the new entry would carry is not observable here)
                    exp = spec_retention(c, o["now"], o["h0"] + [(o["now"], o["summary"], 0)])
                    if [e[:2] for e in exp] != [e[:2] for e in o["h0"]]:
                        # ... or when the auto-snapshot's own (filtered) totals equal the entry it replaces: the recorded
                        # finding K16_filter_mismatch (check counts another file set than stats summary)
                        (_, _, _), restricted0, k16_0 = tot_of_pfiles(model, o["pfiles"])
                        if k[0] == "check" and (restricted0 or k16_0):
                            known(i, "K16_filter_mismatch", "auto-snapshot left an identical history although stats summary (%s) differs from the entry" % (o["summary"],))
                        else:
                            viol(i, "snapshot due (min interval elapsed / --force) but the history did not change")
            else:
                res["nontrivial"] += 1
                if not (force or spec_should_add(c, o["now"], o["h0"])):
                    viol(i, "entry recorded although min_interval_secs has not elapsed")
                else:
                    # what must have been appended: the newest entry of h1 if it carries this clock value
                    new = [e for e in o["h1"] if e not in o["h0"]]
                    ent = o["h1"][-1] if o["h1"] else None
                    tots = ent[1] if (ent is not None and ent[0] == o["now"]) else None
                    exp = spec_retention(c, o["now"], o["h0"] + [(o["now"], tots if tots is not None else o["summary"], ent[2] if ent else 0)])
                    if exp != o["h1"]:
                        if huge_age:
                            known(i, "K15_overflow", "retention with max_age_days*86400 >= 2^64")
                        else:
                            viol(i, "history after the snapshot is not retention(old ++ [new])", expected=exp[-5:])
                    elif tots is not None and tots != o["summary"]:
                        (_, _, _), restricted, k16 = tot_of_pfiles(model, o["pfiles"])
                        if k[0] == "check" and (o.get("partial") or restricted):
                            known(i, "K16_restricted_run", "auto-snapshot of a partial check run (%s) recorded %s, stats summary says %s" % (o.get("mode"), tots, o["summary"]))
                        elif k[0] == "check" and k16:
                            known(i, "K16_filter_mismatch", "auto-snapshot recorded %s, stats summary says %s (content.exclude / rule-matched files)" % (tots, o["summary"]))
                        else:
                            viol(i, "recorded totals differ from stats summary", recorded=tots, summary=o["summary"])
        # -------- trend / history outputs
        if k[0] == "trend" and o["summary"] is not None:
            mo = by[("trend", i)]
            try:
                j = json.loads(o["out"])
                t = j.get("trend")
                got = None if t is None else (t["files"], t["lines"], t["code"], t["comment"], t["blank"])
                cur = j["summary"]
            except Exception:
                got, cur = "unparsable", None
            ovf = mo.startswith("OVF ")
            mo2 = mo[4:] if ovf else mo
            mexp = None if mo2 == "NONE" else tuple(int(x) for x in mo2.split(" ")[1:6])
            if ovf and profile == "debug":
                res["mismatches"].append({"step": i, "what": "model predicts a debug overflow panic in stats trend, implementation exited %s" % o["rc"]})
            elif got != mexp:
                res["mismatches"].append({"step": i, "what": "stats trend delta", "impl": got, "model": mexp, "since": k[1], "now": o["now"], "h0": o["h0"][-4:]})
            else:
                res["validated"] += 1
            kind, v = spec_duration(k[1]) if k[1] is not None else ("OK", None)
            since = v if (k[1] is not None and kind == "OK") else None
            sd = spec_delta(c, since, o["now"], o["summary"], o["h0"])
            sexp = None if sd is None else tuple(sd[0])
            if got != sexp:
                if since_big:
                    known(i, "K15_overflow", "stats trend --since %s: wrapped duration used" % k[1])
                else:
                    viol(i, "stats trend delta differs from current totals minus the selected entry", got=got, expected=sexp)
            elif sd is not None:
                res["nontrivial"] += 1
        if k[0] == "history":
            try:
                j = json.loads(o["out"])
                got = [(e["timestamp"], (e["total_files"], e["total_lines"], e["code"], e["comment"], e["blank"])) for e in j["entries"]]
                lim = 10 if k[1] is None else k[1]
                exp = [(e[0], e[1]) for e in reversed(o["h0"])][:lim]
                if got != exp or j["count"] != len(exp):
                    viol(i, "stats history does not list the newest entries of the history file", got=got[:5], expected=exp[:5])
                else:
                    res["validated"] += 1
            except Exception:
                viol(i, "stats history output unparsable")
        if len(res["samples"]) < 1 and changed:
            res["samples"].append({"cfg": case["cfg"], "cmd": list(k), "now": o["now"], "h0": o["h0"][-2:], "h1": o["h1"][-3:], "model": mstep[:200]})
    return res


def ff_directed_case(rng):
    """auto_snapshot_on_check + --warn-only --fail-fast (RAYON_NUM_THREADS=1) with most files over the limit: whichever file
    the walker yields first or second fails, the rest is dropped, the run exits 0."""
    cfg = {"auto": True, "exclude": False, "rule": False, "max_lines": 6, "fail_fast": rng.random() < 0.5,
           "max_entries": rng.choice([None, 3, 100]), "min_interval_secs": rng.choice([None, 0, 60])}
    cfg = {k: v for k, v in cfg.items() if v is not None}
    now = rng.choice([1000, 1_700_000_000])
    steps = [{"now": now, "edit": None, "cmd": ("check", "full")},
             {"now": now + 100, "edit": "bloat-most", "cmd": ("check", "warn-only-ff")},
             {"now": now + 200, "edit": None, "cmd": ("trend", None)},
             {"now": now + 300, "edit": rng.choice([None, "append"]), "cmd": ("check", "warn-only-ff")},
             {"now": now + 400, "edit": None, "cmd": ("snapshot", False, False)},
             {"now": now + 500, "edit": None, "cmd": ("history", None)}]
    return {"cfg": cfg, "git": False, "steps": steps, "seed": rng.randrange(1 << 30), "profile": "debug", "tag": "ff-directed"}


def future_directed_case(rng):
    """A history whose newest entries are stamped in the future of the clock (the clock stepped back): --since D must
    select the newest entry at or before now - D, whatever lies ahead of now."""
    cfg = {"auto": rng.random() < 0.5, "exclude": False, "rule": False, "max_lines": 50, "fail_fast": False}
    t = rng.choice([100000, 1_700_000_000])
    d = rng.choice([60, 500, 3600])
    steps = [{"now": t, "edit": None, "cmd": ("snapshot", True, False)},
             {"now": t + 4 * d // 5, "edit": "append", "cmd": ("snapshot", True, False)},
             {"now": t + 2 * d, "edit": "add", "cmd": ("snapshot", True, False)},
             {"now": t + 3 * d, "edit": "append", "cmd": ("snapshot", True, False)},
             # clock back: now - D lies between the first and the second entry, latest - D beyond the second
             {"now": t + d + d // 5, "edit": "append", "cmd": ("trend", "%ds" % d)},
             {"now": t + d + d // 5, "edit": None, "cmd": ("trend", None)},
             {"now": t + d - 1, "edit": None, "cmd": ("trend", "%ds" % d)},
             {"now": t + d, "edit": None, "cmd": ("trend", "%ds" % d)},
             {"now": max(0, t - 10), "edit": None, "cmd": ("trend", "1s")},
             {"now": t + 2 * d, "edit": None, "cmd": ("trend", "%ds" % (d // 2))},
             {"now": t + d + d // 5, "edit": None, "cmd": ("snapshot", False, False)},
             {"now": t + d + d // 5, "edit": None, "cmd": ("history", None)}]
    return {"cfg": cfg, "git": False, "steps": steps, "seed": rng.randrange(1 << 30), "profile": "debug", "tag": "future-stamped"}


def stats_flags_directed_case(rng):
    """check WITHOUT auto_snapshot_on_check but with the flags that make it build project statistics (--report-json,
    --format html): read-only for the history, also when retention would drop entries."""
    cfg = {"auto": False, "exclude": False, "rule": False, "max_lines": 50, "fail_fast": False,
           "max_entries": rng.choice([1, 2, None]), "max_age_days": rng.choice([None, 1]), "min_interval_secs": rng.choice([None, 0])}
    cfg = {k: v for k, v in cfg.items() if v is not None}
    t = rng.choice([1000, 1_700_000_000])
    steps = [{"now": t, "edit": None, "cmd": ("snapshot", True, False)},
             {"now": t + 100, "edit": "append", "cmd": ("snapshot", True, False)},
             {"now": t + 200, "edit": None, "cmd": ("check", "report-json")},
             {"now": t + 300, "edit": "append", "cmd": ("check", "html")},
             {"now": t + 3 * DAY, "edit": None, "cmd": ("check", "html-report")},
             {"now": t + 3 * DAY, "edit": None, "cmd": ("history", None)},
             {"now": t + 3 * DAY + 5, "edit": None, "cmd": ("check", "full")}]
    return {"cfg": cfg, "git": False, "steps": steps, "seed": rng.randrange(1 << 30), "profile": "debug", "tag": "stats-flags"}


def make_cases(rng, n):
    cases = [ff_directed_case(rng) for _ in range(max(4, n // 12))]
    cases += [future_directed_case(rng) for _ in range(max(4, n // 12))]
    cases += [stats_flags_directed_case(rng) for _ in range(max(4, n // 12))]
    for i in range(n):
        huge = rng.random() < 0.08
        cfg = rand_project_cfg(rng, huge)
        git = rng.random() < 0.2
        cases.append({"cfg": cfg, "git": git, "steps": rand_steps(rng, cfg, git), "seed": rng.randrange(1 << 30), "profile": "release" if (huge and rng.random() < 0.5) or rng.random() < 0.12 else "debug"})
    return cases


def load_corpus():
    p = os.path.join(CORPUS, "trend.jsonl")
    out = []
    if os.path.exists(p):
        for line in open(p):
            j = json.loads(line)
            if j.get("level") == "cli":
                for s in j["steps"]:
                    s["cmd"] = tuple(s["cmd"])
                out.append(j)
    return out


def run_cli(ctx, dbg, rel, model, n):
    cases = load_corpus() + make_cases(ctx.rng, n)

    def go(c):
        exe = (rel if c.get("profile") == "release" else dbg)["sgcli"]
        return run_sequence(c, exe)
    with cf.ThreadPoolExecutor(max_workers=12) as ex:
        all_obs = list(ex.map(go, cases))
    tot = dict(evaluations=0, nontrivial=0, validated=0, mismatches=[], distribution={}, samples=[], violations=[], known=[])
    for c, obs in zip(cases, all_obs):
        r = analyse(c, obs, model, c.get("profile", "debug"))
        tot["evaluations"] += 2 * len(obs)      # the command and the stats summary reference run
        tot["nontrivial"] += r["nontrivial"]
        tot["validated"] += r["validated"]
        for m in r["mismatches"]:
            m.update({"cfg": c["cfg"], "git": c["git"], "seed": c["seed"], "steps": c["steps"], "profile": c.get("profile")})
        tot["mismatches"] += r["mismatches"]
        tot["violations"] += r["violations"]
        tot["known"] += r["known"]
        tot["samples"] += r["samples"]
        for k, v in r["dist"].items():
            tot["distribution"][k] = tot["distribution"].get(k, 0) + v
        tot["distribution"]["profile:" + c.get("profile", "debug")] = tot["distribution"].get("profile:" + c.get("profile", "debug"), 0) + 1
        if c.get("tag"):
            tot["distribution"][c["tag"]] = tot["distribution"].get(c["tag"], 0) + 1
        if c["git"]:
            tot["distribution"]["git-project"] = tot["distribution"].get("git-project", 0) + 1
    return tot


def replay_cli(ctx, dbg, rel, model, j):
    case = {"cfg": j["cfg"], "git": j.get("git", False), "steps": j["steps"], "seed": j["seed"], "profile": j.get("profile", "debug")}
    for s in case["steps"]:
        s["cmd"] = tuple(s["cmd"])
    exe = (rel if case["profile"] == "release" else dbg)["sgcli"]
    obs = run_sequence(case, exe)
    r = analyse(case, obs, model, case["profile"])
    for i, o in enumerate(obs):
        print("step %d now=%d cmd=%s rc=%s history %d -> %d entries" % (i, o["now"], o["cmd"], o.get("rc"), len(o["h0"]), len(o["h1"])))
    print("violations:", json.dumps(r["violations"], default=str)[:3000])
    print("known:", r["known"][:10])
    print("mismatches:", json.dumps(r["mismatches"], default=str)[:2000])
    return 0
