"""Generators, wire protocol and the independent spec oracle for the threshold property (C05)."""
import math
import os
import struct
from vlib import *  # noqa

USIZE_MAX = (1 << 64) - 1


def enc(s):
    return ",".join(str(ord(c)) for c in s) if s else "-"


def dec(s):
    return "" if s in ("", "-") else "".join(chr(int(t)) for t in s.split(","))


def bits(x):
    return struct.unpack("<Q", struct.pack("<d", x))[0]


def unbits(b):
    return struct.unpack("<d", struct.pack("<Q", b))[0]


def opt(x, f=str):
    return "~" if x is None else f(x)


def b01(b):
    return "1" if b else "0"


# ------------------------------------------------------------------ data

class Rule:
    def __init__(self, pattern, max_lines, wt=None, wa=None, sc=None, sb=None, reason=None):
        self.pattern, self.max, self.wt, self.wa, self.sc, self.sb, self.reason = pattern, max_lines, wt, wa, sc, sb, reason

    def wire(self):
        return "R=%s:%d:%s:%s:%s:%s:%s" % (enc(self.pattern), self.max, opt(self.wt), opt(self.wa), opt(self.sc, b01),
                                           opt(self.sb, b01), opt(self.reason, enc))

    def to_json(self):
        return {"pattern": self.pattern, "max_lines": self.max, "warn_threshold_bits": self.wt,
                "warn_threshold": None if self.wt is None else repr(unbits(self.wt)), "warn_at": self.wa,
                "skip_comments": self.sc, "skip_blank": self.sb, "reason": self.reason}


class Cfg:
    def __init__(self, max_lines, wt, wa=None, sc=True, sb=True, exts=(), exclude=(), rules=()):
        self.max, self.wt, self.wa, self.sc, self.sb = max_lines, wt, wa, sc, sb
        self.exts, self.exclude, self.rules = list(exts), list(exclude), list(rules)

    def wire(self):
        items = ["G=%d:%d:%s:%s:%s" % (self.max, self.wt, opt(self.wa), b01(self.sc), b01(self.sb))]
        items += ["X=" + enc(x) for x in self.exclude]
        items += ["E=" + enc(e) for e in self.exts]
        items += [r.wire() for r in self.rules]
        return ";".join(items)

    def to_json(self):
        return {"max_lines": self.max, "warn_threshold_bits": self.wt, "warn_threshold": repr(unbits(self.wt)), "warn_at": self.wa,
                "skip_comments": self.sc, "skip_blank": self.sb, "extensions": self.exts, "exclude": self.exclude,
                "rules": [r.to_json() for r in self.rules]}

    @staticmethod
    def from_json(j):
        return Cfg(j["max_lines"], j["warn_threshold_bits"], j["warn_at"], j["skip_comments"], j["skip_blank"], j["extensions"],
                   j["exclude"], [Rule(r["pattern"], r["max_lines"], r["warn_threshold_bits"], r["warn_at"], r["skip_comments"],
                                       r["skip_blank"], r["reason"]) for r in j["rules"]])

    def toml(self, omit_defaults=None):
        """TOML text for a CLI project (thresholds as shortest round-trip decimals)."""
        od = omit_defaults or set()
        out = ['version = "2"', "[content]"]
        if "extensions" not in od:
            out.append("extensions = [%s]" % ", ".join('"%s"' % e for e in self.exts))
        if "max_lines" not in od:
            out.append("max_lines = %d" % self.max)
        if "warn_threshold" not in od:
            out.append("warn_threshold = %s" % toml_float(self.wt))
        if self.wa is not None:
            out.append("warn_at = %d" % self.wa)
        if "skip_comments" not in od:
            out.append("skip_comments = %s" % str(self.sc).lower())
        if "skip_blank" not in od:
            out.append("skip_blank = %s" % str(self.sb).lower())
        if self.exclude:
            out.append("exclude = [%s]" % ", ".join('"%s"' % e for e in self.exclude))
        for r in self.rules:
            out.append("[[content.rules]]")
            out.append('pattern = "%s"' % r.pattern)
            out.append("max_lines = %d" % r.max)
            if r.wt is not None:
                out.append("warn_threshold = %s" % toml_float(r.wt))
            if r.wa is not None:
                out.append("warn_at = %d" % r.wa)
            if r.sc is not None:
                out.append("skip_comments = %s" % str(r.sc).lower())
            if r.sb is not None:
                out.append("skip_blank = %s" % str(r.sb).lower())
            if r.reason is not None:
                out.append('reason = "%s"' % r.reason)
        return "\n".join(out) + "\n"


def toml_float(b):
    s = repr(unbits(b))
    if "e" in s or "E" in s:
        # TOML wants a digit on both sides of a dot when there is one; repr gives e.g. 1e-05
        return s
    return s if "." in s else s + ".0"


class Cli:
    """The content-related arguments of `check`."""

    def __init__(self, max_lines=None, cc=False, cb=False, wt=None, ext=None):
        self.max, self.cc, self.cb, self.wt, self.ext = max_lines, cc, cb, wt, ext   # wt = bits

    def args(self):
        a = []
        if self.max is not None:
            a.append("--max-lines=%d" % self.max)
        if self.cc:
            a.append("--count-comments")
        if self.cb:
            a.append("--count-blank")
        if self.wt is not None:
            a.append("--warn-threshold=%s" % repr(unbits(self.wt)))
        if self.ext is not None:
            a.append("--ext=%s" % ",".join(self.ext))
        return a

    def wire_model(self):
        return "%s:%s:%s:%s:%s" % (opt(self.max), b01(self.cc), b01(self.cb), opt(self.wt),
                                   "~" if self.ext is None else "+".join(enc(e) for e in self.ext))

    def to_json(self):
        return {"max_lines": self.max, "count_comments": self.cc, "count_blank": self.cb, "warn_threshold_bits": self.wt, "ext": self.ext}

    @staticmethod
    def from_json(j):
        return None if j is None else Cli(j["max_lines"], j["count_comments"], j["count_blank"], j["warn_threshold_bits"], j["ext"])


class Case:
    def __init__(self, cfg, path, stats, inst=None, cli=None, tag=""):
        self.cfg, self.path, self.stats, self.inst, self.cli, self.tag = cfg, path, tuple(stats), inst, cli, tag
        self.mv = self.ev = self.ext = None

    def wire_impl(self):
        return "\t".join(["run", self.cfg.wire(), opt(self.inst), "~" if self.cli is None else (" ".join(self.cli.args()) or "--quiet"),
                          enc(self.path), ",".join(map(str, self.stats))])

    def wire_model(self):
        return "\t".join(["run", self.cfg.wire(), opt(self.inst), "~" if self.cli is None else self.cli.wire_model(),
                          self.mv or "-", self.ev or "-", self.ext, ",".join(map(str, self.stats))])

    def to_json(self):
        return {"config": self.cfg.to_json(), "path": self.path, "stats_total_code_comment_blank_ignored": list(self.stats),
                "instance_warn_threshold_bits": self.inst, "cli": None if self.cli is None else self.cli.to_json(), "tag": self.tag}

    @staticmethod
    def from_json(j):
        return Case(Cfg.from_json(j["config"]), j["path"], j["stats_total_code_comment_blank_ignored"],
                    j.get("instance_warn_threshold_bits"), Cli.from_json(j.get("cli")), j.get("tag", "replay"))


def parse_fields(line):
    """Answer line -> dict KEY -> value (or {'_raw': line} for ERR/PANIC/...)."""
    if "=" not in line.split("\t")[0]:
        return {"_raw": line}
    d = {}
    for f in line.split("\t"):
        k, v = f.split("=", 1)
        d[k] = v
    return d


COMPARED = ["VAL", "VALO", "SP", "XC", "SK", "EFF", "CHK", "PFC", "EXP", "XEXP"]


# ------------------------------------------------------------------ independent spec (written from the property text)

def py_pct(limit, tbits):
    """(limit as f64 * t).ceil() as usize with Python's IEEE doubles."""
    t = unbits(tbits)
    p = float(limit) * t          # int -> float rounds to nearest even; the product is one IEEE multiplication
    if p != p:
        return 0
    if p == math.inf:
        return USIZE_MAX
    if p <= 0:
        return 0
    return min(USIZE_MAX, math.ceil(p))


def spec(case):
    """What the property demands for this case, given the match vectors. Returns a dict."""
    cfg, cli = case.cfg, case.cli
    gmax, gwt, gsc, gsb, exts = cfg.max, cfg.wt, cfg.sc, cfg.sb, cfg.exts
    if cli is not None:          # CLI overrides touch global settings only
        if cli.max is not None:
            gmax = cli.max
        if cli.wt is not None:
            gwt = cli.wt
        if cli.cc:
            gsc = False
        if cli.cb:
            gsb = False
        if cli.ext is not None:
            exts = cli.ext
    if case.inst is not None:
        gwt = case.inst
    matching = [i for i, c in enumerate(case.mv) if c == "1"]
    idx = max(matching) if matching else None            # last declared matching rule
    r = cfg.rules[idx] if idx is not None else None
    limit = r.max if r else gmax
    if r and r.wa is not None:
        warn, src = r.wa, "RA:%d" % idx
    elif r and r.wt is not None:
        warn, src = py_pct(r.max, r.wt), "RP:%d:%d" % (idx, r.wt)
    elif cfg.wa is not None:
        warn, src = cfg.wa, "GA"
    else:
        warn, src = py_pct(limit, gwt), "GP:%d" % gwt
    sc = r.sc if (r and r.sc is not None) else gsc
    sb = r.sb if (r and r.sb is not None) else gsb
    total, code, comment, blank, ignored = case.stats
    count = code + (0 if sc else comment) + (0 if sb else blank)     # never `ignored`
    status = "F" if count > limit else ("W" if count >= warn else "P")
    raw_status = "F" if code > limit else ("W" if code >= warn else "P")
    excluded = "1" in (case.ev or "")
    ext = None if case.ext == "~" else dec(case.ext)
    sp = (not excluded) and (not exts or (ext is not None and ext in exts) or bool(matching))
    return {"idx": idx, "limit": limit, "reason": r.reason if r else None, "warn": warn, "src": src, "sc": sc, "sb": sb,
            "count": count, "status": status, "raw_status": raw_status, "excluded": excluded, "sp": sp,
            "wt_for_path": (r.wt if (r and r.wt is not None) else gwt)}


def in_unit(tbits):
    t = unbits(tbits)
    return 0.0 <= t <= 1.0


def config_valid(cfg, cli):
    """validate_content_section on the configuration, with the CLI overrides applied when given."""
    gmax, gwt = cfg.max, cfg.wt
    if cli is not None:
        if cli.max is not None:
            gmax = cli.max
        if cli.wt is not None:
            gwt = cli.wt
    return (in_unit(gwt) and (cfg.wa is None or cfg.wa < gmax)
            and all((r.wa is None or r.wa < r.max) and (r.wt is None or in_unit(r.wt)) for r in cfg.rules))


def parse_result(s):
    tag, limit, reason, stats, raw = s.split(";")
    return {"status": tag, "limit": int(limit), "reason": None if reason == "~" else dec(reason),
            "stats": tuple(int(x) for x in stats.split(",")), "raw": None if raw == "~" else tuple(int(x) for x in raw.split(","))}


def parse_expl(s):
    f = s.split("|")
    m = f[1].split(":")
    return {"excluded": f[0] == "1", "matched": f[1], "idx": int(m[1]) if m[0] == "R" else None,
            "pattern": dec(m[2]) if m[0] == "R" else (dec(m[1]) if m[0] == "X" else None),
            "reason": (None if m[3] == "~" else dec(m[3])) if m[0] == "R" else None, "kind": m[0],
            "limit": int(f[2]), "warn": int(f[3]), "src": f[4], "wt": int(f[5]), "sc": f[6][0] == "1", "sb": f[6][1] == "1",
            "chain": f[7] if len(f) > 7 else "", "pathdiff": "PATHDIFF" in s}


def verdict(count, limit, warn):
    return "F" if count > limit else ("W" if count >= warn else "P")


def oracle(case, d):
    """Property oracle on one implementation answer. Returns a list of failure strings."""
    if "_raw" in d:
        return ["implementation answered " + d["_raw"][:80]]
    s = spec(case)
    fails = []
    pfc, chk, ex, xex = parse_result(d["PFC"]), parse_result(d["CHK"]), parse_expl(d["EXP"]), parse_expl(d["XEXP"])
    eff = tuple(int(x) for x in d["EFF"].split(","))
    # verdict trichotomy, limit, precedence, last match
    if pfc["limit"] != s["limit"]:
        fails.append("limit %d, the last matching rule / global setting gives %d" % (pfc["limit"], s["limit"]))
    if pfc["reason"] != s["reason"]:
        fails.append("override reason %r, expected %r" % (pfc["reason"], s["reason"]))
    if eff[1] != s["count"]:
        fails.append("effective count %d, expected %d (code + comments/blank when counted, never ignored)" % (eff[1], s["count"]))
    if eff[0] != case.stats[0] or eff[4] != case.stats[4]:
        fails.append("effective stats changed total/ignored")
    if pfc["status"] != s["status"]:
        fails.append("verdict %s for count %d limit %d warn point %d, expected %s" % (pfc["status"], s["count"], s["limit"], s["warn"], s["status"]))
    if chk["status"] != s["raw_status"] or chk["limit"] != s["limit"]:
        fails.append("Checker::check on raw stats: %s/%d expected %s/%d" % (chk["status"], chk["limit"], s["raw_status"], s["limit"]))
    if pfc["stats"] != eff or pfc["raw"] != case.stats or chk["stats"] != case.stats or chk["raw"] is not None:
        fails.append("result carries wrong stats")
    if d["SK"] != b01(s["sc"]) + b01(s["sb"]):
        fails.append("skip flags %s expected %s%s" % (d["SK"], b01(s["sc"]), b01(s["sb"])))
    if (d["SP"] == "1") != s["sp"]:
        fails.append("should_process %s expected %s" % (d["SP"], s["sp"]))
    if (d["XC"] == "1") != s["excluded"]:
        fails.append("is_content_excluded %s expected %s" % (d["XC"], s["excluded"]))
    # configuration gate: every threshold (global and per rule) in [0,1], every absolute warn point strictly below
    # the limit of its own level; check re-validates after the CLI overrides
    valid = config_valid(case.cfg, None)
    if (d["VAL"] == "1") != valid:
        fails.append("validate_config_semantics %s expected %s" % (d["VAL"], valid))
    valid_o = config_valid(case.cfg, case.cli)
    if (d["VALO"] == "1") != valid_o:
        fails.append("validate_config_semantics after the CLI overrides %s expected %s" % (d["VALO"], valid_o))
    # explain coherence: explain (same checker) reports exactly what check applied
    if ex["pathdiff"] or xex["pathdiff"]:
        fails.append("explain reports a different path")
    if not ex["excluded"]:
        if (ex["idx"], ex["limit"], ex["warn"], ex["src"], ex["sc"], ex["sb"]) != (s["idx"], s["limit"], s["warn"], s["src"], s["sc"], s["sb"]):
            fails.append("explain (rule %s limit %d warn %d %s skip %s%s) differs from what the property demands (rule %s limit %d warn %d %s skip %s%s)" %
                         (ex["idx"], ex["limit"], ex["warn"], ex["src"], b01(ex["sc"]), b01(ex["sb"]), s["idx"], s["limit"], s["warn"], s["src"], b01(s["sc"]), b01(s["sb"])))
        if ex["limit"] != pfc["limit"] or verdict(eff[1], ex["limit"], ex["warn"]) != pfc["status"] or d["SK"] != b01(ex["sc"]) + b01(ex["sb"]) or ex["reason"] != pfc["reason"]:
            fails.append("explain and check disagree: explain limit %d warn %d skip %s%s, check limit %d verdict %s on count %d" %
                         (ex["limit"], ex["warn"], b01(ex["sc"]), b01(ex["sb"]), pfc["limit"], pfc["status"], eff[1]))
        if ex["idx"] is not None and ex["pattern"] != case.cfg.rules[ex["idx"]].pattern:
            fails.append("explain names pattern %r for rule %d" % (ex["pattern"], ex["idx"]))
        if ex["wt"] != s["wt_for_path"]:
            fails.append("explain warn_threshold bits %d expected %d" % (ex["wt"], s["wt_for_path"]))
    else:
        if not s["excluded"]:
            fails.append("explain says excluded, no exclude pattern matches")
        if d["SP"] != "0":
            fails.append("excluded per explain but should_process is true")
    if s["excluded"] and not ex["excluded"]:
        fails.append("an exclude pattern matches but explain does not say excluded")
    # the explain command's checker has no overrides: it must equal the check checker when there are none
    if case.cli is None and case.inst is None and d["EXP"] != d["XEXP"]:
        fails.append("two checkers built from the same configuration explain differently")
    return fails


# ------------------------------------------------------------------ material for the generators

PATTERNS = ["**", "**/*.rs", "src/**", "src/*.rs", "src/gen/**", "*.rs", "**/gen/*", "src/a.rs", "Dockerfile", "**/Dockerfile",
            "*", "src/{a,b}.rs", "src/[ab].rs", "tests/**", "./src/**", "src/**/*.go", "**/a.*", "src", "s?c/*", "**/*.{rs,go}"]
SMALL_PATTERNS = ["**", "src/**", "**/*.rs", "src/a.rs", "tests/**"]
PATHS = ["src/a.rs", "./src/a.rs", "src/gen/a.rs", "a.rs", "Dockerfile", "src/Dockerfile", "tests/t.rs", "src/b.go", "src/a/b/c/d/e.rs",
         "src/.hidden", "src/x.", "a.tar.gz", "src\\a.rs", ".\\src\\b.rs", "src/gen/deep/x.py", "b.rs", "./b.go", "src/c.RS", "lib/a.rs", "."]
SMALL_PATHS = ["src/a.rs", "src/b.go", "a.rs", "tests/t.rs", "lib/x.py", "Dockerfile"]
EXTS = ["rs", "go", "py", "RS", "gz", ""]
SPECIAL_T = [0.0, 0.5, 0.8, 0.9, 1.0]
WEIRD_T = [float("nan"), float("inf"), -float("inf"), -0.0, -0.5, 1.5, 1e300, 5e-324, 2.0 ** -1022, 0.1, 1.0 - 2.0 ** -53, 1.0 + 2.0 ** -52, 1e-9, 3.0]
BIG_LIMITS = [2 ** 53 - 1, 2 ** 53, 2 ** 53 + 1, 2 ** 53 + 3, 2 ** 62, 2 ** 63, 2 ** 64 - 1025, 2 ** 64 - 1024, 2 ** 64 - 1, 10 ** 6, 10 ** 9 + 7]
REASONS = [None, "", "legacy", "généré", "a b:c;d"]


def rand_threshold(rng, hostile=False):
    r = rng.random()
    if r < 0.30:
        return bits(rng.choice(SPECIAL_T))
    if hostile and r < 0.45:
        return bits(rng.choice(WEIRD_T))
    if r < 0.75:
        return bits(rng.random())                        # uniform in [0,1)
    if r < 0.9:
        return bits(rng.randint(0, 100) / 100.0)         # the decimals people write
    # random bit pattern in [0,1]: exponent below 1023
    return (rng.randrange(0, 1023) << 52) | rng.getrandbits(52)


def rand_limit(rng, hostile=False):
    r = rng.random()
    if r < 0.55:
        return rng.randint(0, 12)
    if r < 0.85:
        return rng.randint(13, 10 ** 6)
    if hostile and r < 0.93:
        return rng.choice(BIG_LIMITS)
    return rng.randint(0, 2000)


def rand_opt(rng, f, p=0.5):
    return f() if rng.random() < p else None


def rand_rule(rng, hostile, pool=PATTERNS):
    mx = rand_limit(rng, hostile)
    wa = rand_opt(rng, lambda: rng.choice([0, max(0, mx - 1), mx, mx + 1, rng.randint(0, max(1, mx))]) if mx < 2 ** 62 else mx - 1, 0.4)
    return Rule(rng.choice(pool), mx, rand_opt(rng, lambda: rand_threshold(rng, hostile), 0.5), wa,
                rand_opt(rng, lambda: rng.random() < 0.5), rand_opt(rng, lambda: rng.random() < 0.5), rng.choice(REASONS))


def rand_cfg(rng, hostile=False):
    n = rng.choice([0, 1, 1, 2, 2, 3, 3, 4, 6])
    mx = rand_limit(rng, hostile)
    wa = rand_opt(rng, lambda: rng.choice([0, max(0, mx - 1), mx, mx + 2]) if mx < 2 ** 62 else mx - 1, 0.35)
    exts = rng.choice([[], ["rs"], ["rs", "go"], ["rs", "go", "py"], ["py"], ["RS"], [""]])
    excl = rng.choice([[], [], [], ["**/gen/**"], ["tests/**", "**/*.go"], ["**"], ["src/a.rs"]])
    return Cfg(mx, rand_threshold(rng, hostile), wa, rng.random() < 0.5, rng.random() < 0.5, exts, excl,
               [rand_rule(rng, hostile) for _ in range(n)])


def rand_cli(rng, hostile=False):
    return Cli(rand_opt(rng, lambda: rand_limit(rng, hostile), 0.6), rng.random() < 0.4, rng.random() < 0.4,
               rand_opt(rng, lambda: rand_threshold(rng, hostile), 0.6), rand_opt(rng, lambda: rng.choice([["rs"], ["go", "py"], ["xyz"]]), 0.2))


def boundary_counts(rng, limit, warn):
    """Effective counts around the two decision points."""
    cs = {0, limit, limit + 1, warn, warn + 1}
    if limit > 0:
        cs.add(limit - 1)
    if warn > 0:
        cs.add(warn - 1)
    cs.add(rng.randint(0, min(limit, 10 ** 6) + 3))
    return sorted(c for c in cs if 0 <= c < 2 ** 62)


def split_count(rng, count, sc, sb):
    """Raw stats whose effective count is `count` under the given skip flags (all sums stay below 2^63)."""
    parts = 1 + (0 if sc else 1) + (0 if sb else 1)
    cuts = sorted(rng.randint(0, count) for _ in range(parts - 1))
    vals = [b - a for a, b in zip([0] + cuts, cuts + [count])]
    code = vals[0]
    big = count >= 2 ** 40
    k = 1
    if sc:
        comment = rng.choice([0, 1, 7] if big else [0, 1, 7, count + 5])
    else:
        comment = vals[k]
        k += 1
    if sb:
        blank = rng.choice([0, 2, 9] if big else [0, 2, 9, count + 3])
    else:
        blank = vals[k]
    ignored = rng.choice([0, 0, 1, 5, 1000] if big else [0, 0, 1, 5, count + 1, 1000])
    return (code + comment + blank + ignored, code, comment, blank, ignored)


def run_impl(exe, lines, timeout=1200):
    """run_sharded with a retry for unanswered lines: the shared cargo target directory may be re-linked by a
    concurrent build, during which the binary is briefly absent or truncated. A line that stays unanswered
    after the retries is a genuine death of the harness and is returned as <NOANSWER>."""
    import time
    outs, errs = run_sharded(exe, lines, timeout=timeout)
    for attempt in range(4):
        missing = [i for i, o in enumerate(outs) if o == "<NOANSWER>"]
        if not missing:
            return outs, []
        time.sleep(3 + 5 * attempt)
        o2, errs = run_sharded(exe, [lines[i] for i in missing], timeout=timeout)
        for i, o in zip(missing, o2):
            outs[i] = o
    return outs, errs


def prepare_threshold(ctx):
    """Build harness + model. Returns (impl_exe, model_exe, cli_exe, defaults)."""
    bins = cargo_build(["sgv-threshold", "sgcli"])
    ok, log = coq_make(["Threshold/Float64.vo", "Threshold/Model.vo", "Extract/ExtractThreshold.vo"])
    if not ok:
        raise CheckBroken("coq model build failed:\n" + log[-3000:])
    model = ocaml_build("threshold_drv", ["threshold_ex"])
    rc, dump = sh([bins["sgv-threshold"], "dump"], check=True)
    defaults = dict(kv.split("=", 1) for kv in dump.split())
    return bins["sgv-threshold"], model, bins["sgcli"], defaults
