"""Generators, parsers and protocol helpers for C20 (reports consistent, well-formed, deterministic)."""
import html.parser
import json
import os
import re
from vlib import *  # noqa

STATUS = ["passed", "warning", "failed", "grandfathered"]          # index = wire code 0..3


def enc(s):
    return ",".join(str(ord(c)) for c in s) if s else "-"


def dec(s):
    return "" if s in ("", "-") else "".join(chr(int(t)) for t in s.split(","))


def lossy(b):
    """Rust String::from_utf8_lossy of a byte string (python's replace handler uses the same
    maximal-subpart rule; the names generated here only contain isolated invalid bytes)."""
    return b.decode("utf-8", "replace")


# ------------------------------------------------------------------ SARIF 2.1.0 subset
# Hand-transcribed from the OASIS sarif-schema-2.1.0.json (the official file is NOT in the sandbox):
# for every object type the tool emits: the allowed property names (the schema sets
# additionalProperties:false on them), the required ones, enums and integer minima.

SARIF_OBJECTS = {
    "sarifLog": dict(allowed={"$schema", "version", "runs", "inlineExternalProperties", "properties"}, required={"version", "runs"}),
    "run": dict(allowed={"tool", "invocations", "conversion", "language", "versionControlProvenance", "originalUriBaseIds", "artifacts",
                         "logicalLocations", "graphs", "results", "automationDetails", "runAggregates", "baselineGuid", "redactionTokens",
                         "defaultEncoding", "defaultSourceLanguage", "newlineSequences", "columnKind", "externalPropertyFileReferences",
                         "threadFlowLocations", "taxonomies", "addresses", "translations", "policies", "webRequests", "webResponses",
                         "specialLocations", "properties"}, required={"tool"}),
    "tool": dict(allowed={"driver", "extensions", "properties"}, required={"driver"}),
    "toolComponent": dict(allowed={"guid", "name", "organization", "product", "productSuite", "shortDescription", "fullDescription", "fullName",
                                   "version", "semanticVersion", "dottedQuadFileVersion", "releaseDateUtc", "downloadUri", "informationUri",
                                   "globalMessageStrings", "notifications", "rules", "taxa", "locations", "language", "contents",
                                   "isComprehensive", "localizedDataSemanticVersion", "minimumRequiredLocalizedDataSemanticVersion",
                                   "associatedComponent", "translationMetadata", "supportedTaxonomies", "properties"}, required={"name"}),
    "reportingDescriptor": dict(allowed={"id", "deprecatedIds", "guid", "deprecatedGuids", "name", "deprecatedNames", "shortDescription",
                                         "fullDescription", "messageStrings", "defaultConfiguration", "helpUri", "help", "relationships",
                                         "properties"}, required={"id"}),
    "multiformatMessageString": dict(allowed={"text", "markdown", "properties"}, required={"text"}),
    "reportingConfiguration": dict(allowed={"enabled", "level", "rank", "parameters", "properties"}, required=set()),
    "result": dict(allowed={"ruleId", "ruleIndex", "rule", "kind", "level", "message", "analysisTarget", "locations", "guid", "correlationGuid",
                            "occurrenceCount", "partialFingerprints", "fingerprints", "stacks", "codeFlows", "graphs", "graphTraversals",
                            "relatedLocations", "suppressions", "baselineState", "rank", "attachments", "hostedViewerUri", "workItemUris",
                            "provenance", "fixes", "taxa", "webRequest", "webResponse", "properties"}, required={"message"}),
    "message": dict(allowed={"text", "markdown", "id", "arguments", "properties"}, required=set()),
    "location": dict(allowed={"id", "physicalLocation", "logicalLocations", "message", "annotations", "relationships", "properties"}, required=set()),
    "physicalLocation": dict(allowed={"address", "artifactLocation", "region", "contextRegion", "properties"}, required=set()),
    "artifactLocation": dict(allowed={"uri", "uriBaseId", "index", "description", "properties"}, required=set()),
    "suppression": dict(allowed={"guid", "kind", "state", "justification", "location", "properties"}, required={"kind"}),
}
SARIF_LEVELS = {"none", "note", "warning", "error"}


class Bad(Exception):
    pass


def _obj(v, kind, where):
    if not isinstance(v, dict):
        raise Bad(f"{where}: {kind} is not an object")
    spec = SARIF_OBJECTS[kind]
    extra = set(v) - spec["allowed"]
    if extra:
        raise Bad(f"{where}: {kind} has properties outside the schema: {sorted(extra)}")
    miss = spec["required"] - set(v)
    if miss:
        raise Bad(f"{where}: {kind} lacks required {sorted(miss)}")
    if "properties" in v and not isinstance(v["properties"], dict):
        raise Bad(f"{where}: property bag is not an object")
    return v


def _str(v, where):
    if not isinstance(v, str):
        raise Bad(f"{where}: not a string")


def _int(v, where, minimum):
    if isinstance(v, bool) or not isinstance(v, int) or v < minimum:
        raise Bad(f"{where}: not an integer >= {minimum}")


def validate_sarif(doc):
    """Raises Bad when the document violates the transcribed subset."""
    log = _obj(doc, "sarifLog", "$")
    if log["version"] != "2.1.0":
        raise Bad("version is not 2.1.0")
    if "$schema" in log:
        _str(log["$schema"], "$schema")
    if not isinstance(log["runs"], list):
        raise Bad("runs is not an array")
    for ri, run in enumerate(log["runs"]):
        w = f"runs[{ri}]"
        _obj(run, "run", w)
        _obj(run["tool"], "tool", w + ".tool")
        drv = _obj(run["tool"]["driver"], "toolComponent", w + ".tool.driver")
        _str(drv["name"], w + ".driver.name")
        for k in ("version", "informationUri"):
            if k in drv:
                _str(drv[k], w + ".driver." + k)
        rules = drv.get("rules", [])
        if not isinstance(rules, list):
            raise Bad("rules is not an array")
        if len({json.dumps(r, sort_keys=True) for r in rules}) != len(rules):
            raise Bad("rules are not unique")
        for i, r in enumerate(rules):
            ww = f"{w}.rules[{i}]"
            _obj(r, "reportingDescriptor", ww)
            _str(r["id"], ww + ".id")
            for k in ("shortDescription", "fullDescription"):
                if k in r:
                    _str(_obj(r[k], "multiformatMessageString", ww + "." + k)["text"], ww + "." + k + ".text")
            if "defaultConfiguration" in r:
                c = _obj(r["defaultConfiguration"], "reportingConfiguration", ww + ".defaultConfiguration")
                if "level" in c and c["level"] not in SARIF_LEVELS:
                    raise Bad(ww + ": level outside enum")
        results = run.get("results", [])
        if results is not None and not isinstance(results, list):
            raise Bad("results is not an array")
        for i, r in enumerate(results or []):
            ww = f"{w}.results[{i}]"
            _obj(r, "result", ww)
            m = _obj(r["message"], "message", ww + ".message")
            if "text" not in m and "id" not in m:
                raise Bad(ww + ": message has neither text nor id")
            if "text" in m:
                _str(m["text"], ww + ".message.text")
            if "ruleId" in r:
                _str(r["ruleId"], ww + ".ruleId")
            if "ruleIndex" in r:
                _int(r["ruleIndex"], ww + ".ruleIndex", -1)
                if r["ruleIndex"] >= len(rules) or ("ruleId" in r and r["ruleIndex"] >= 0 and rules[r["ruleIndex"]]["id"] != r["ruleId"]):
                    raise Bad(ww + ": ruleIndex does not point at ruleId")
            if "level" in r and r["level"] not in SARIF_LEVELS:
                raise Bad(ww + ": level outside enum")
            locs = r.get("locations", [])
            if not isinstance(locs, list):
                raise Bad(ww + ": locations is not an array")
            for li, loc in enumerate(locs):
                _obj(loc, "location", f"{ww}.locations[{li}]")
                if "physicalLocation" in loc:
                    pl = _obj(loc["physicalLocation"], "physicalLocation", ww + ".physicalLocation")
                    if "address" not in pl and "artifactLocation" not in pl:
                        raise Bad(ww + ": physicalLocation has neither address nor artifactLocation")
                    if "artifactLocation" in pl:
                        al = _obj(pl["artifactLocation"], "artifactLocation", ww + ".artifactLocation")
                        for k in ("uri", "uriBaseId"):
                            if k in al:
                                _str(al[k], ww + "." + k)
                        if "index" in al:
                            _int(al["index"], ww + ".index", -1)
            sup = r.get("suppressions")
            if sup is not None:
                if not isinstance(sup, list):
                    raise Bad(ww + ": suppressions is not an array")
                for s in sup:
                    _obj(s, "suppression", ww + ".suppressions")
                    if s["kind"] not in ("inSource", "external"):
                        raise Bad(ww + ": suppression kind outside enum")
                    if "state" in s and s["state"] not in ("accepted", "underReview", "rejected"):
                        raise Bad(ww + ": suppression state outside enum")
                    if "justification" in s:
                        _str(s["justification"], ww + ".justification")


# RFC 3986 URI-reference as the tool is required to write it (schema: artifactLocation.uri has format uri-reference):
# unreserved characters, the path separator and complete upper-case escapes only
_URI_OK = re.compile(r"^(?:[A-Za-z0-9\-._~/]|%[0-9A-F]{2})*$")


def is_uri_reference(s):
    return bool(_URI_OK.match(s))


def percent_decode(s):
    """What a conforming SARIF consumer makes of a uri."""
    out = bytearray()
    b = s.encode("utf-8")
    i = 0
    while i < len(b):
        if b[i] == 0x25 and i + 3 <= len(b) and re.match(rb"[0-9A-Fa-f]{2}", b[i + 1:i + 3]):
            out.append(int(b[i + 1:i + 3], 16))
            i += 3
        else:
            out.append(b[i])
            i += 1
    return out.decode("utf-8", "replace")


# ------------------------------------------------------------------ parsing every check format back

def parse_check_json(text):
    """-> dict(entries=[(path,status)], summary={...}, rows=[{path,status,stats,sloc,limit,...}]) ; raises Bad"""
    try:
        j = json.loads(text)
    except Exception as e:
        raise Bad("not valid JSON: %s" % e)
    # the report is an object holding at least the summary and the results (further top-level fields, e.g. a
    # schema or tool version, are not the property's business)
    if not isinstance(j, dict) or not {"summary", "results"} <= set(j):
        raise Bad("top-level object lacks summary / results")
    s = j["summary"]
    for k in ("total_files", "passed", "warnings", "failed", "grandfathered"):
        if not isinstance(s.get(k), int):
            raise Bad("summary.%s is not an integer" % k)
    rows = []
    for r in j["results"]:
        if r.get("status") not in STATUS or not isinstance(r.get("path"), str):
            raise Bad("result without path/status")
        st = r.get("stats", {})
        for k in ("total", "code", "comment", "blank"):
            if not isinstance(st.get(k), int):
                raise Bad("result.stats.%s is not an integer" % k)
        rows.append(r)
    return {"entries": [(r["path"], r["status"]) for r in rows],
            "summary": {"total": s["total_files"], "passed": s["passed"], "warning": s["warnings"], "failed": s["failed"],
                        "grandfathered": s["grandfathered"]},
            "rows": rows}


def sarif_status(r):
    if r.get("suppressions"):
        return "grandfathered"
    return {"error": "failed", "warning": "warning", "note": "grandfathered"}.get(r.get("level"), "?")


def parse_sarif(text):
    try:
        j = json.loads(text)
    except Exception as e:
        raise Bad("not valid JSON: %s" % e)
    validate_sarif(j)
    if len(j["runs"]) != 1:
        raise Bad("expected exactly one run")
    entries, bad_uris, uris = [], [], []
    for r in j["runs"][0].get("results", []):
        try:
            uri = r["locations"][0]["physicalLocation"]["artifactLocation"]["uri"]
        except Exception:
            raise Bad("result without artifactLocation.uri")
        # level and suppression must tell the same status
        lvl = r.get("level")
        st = sarif_status(r)
        if (lvl == "note") != bool(r.get("suppressions")):
            raise Bad("level note and suppressions disagree")
        # the path a conforming consumer reads out of the uri
        entries.append((percent_decode(uri), st))
        uris.append(uri)
        if not is_uri_reference(uri):
            bad_uris.append(uri)
    return {"entries": entries, "summary": None, "bad_uris": bad_uris, "uris": uris, "doc": j}


# layout-tolerant: any status glyph, any indentation of the detail lines, detail lines in any order (the property is
# about WHICH results and statuses the text names, not about glyphs or spacing)
_TEXT_HEAD = re.compile(r"(?m)^(\S{1,4}) (?:\x1b\[\d+m)?(PASSED|WARNING|FAILED|GRANDFATHERED)(?:\x1b\[0m)?: ")
_TEXT_TAIL = re.compile(r"\n[ \t]{1,8}(?:Total: \d+\n|Lines: \d+ \(limit|Files: \d+ \(limit|Directories: \d+ \(limit|Depth: \d+ \(limit|Reason: |Breakdown: code=)")
_TEXT_SUM = re.compile(r"(?m)^Summary: (\d+) files checked, (\d+) passed, (\d+) warnings, (\d+) failed(?: \(baseline: (\d+) grandfathered\))?$")
_ANSI = re.compile(r"\x1b\[\d+m")
_ICON = {"✓": "passed", "⚠": "warning", "✗": "failed", "◉": "grandfathered"}
_WORD = {"PASSED": "passed", "WARNING": "warning", "FAILED": "failed", "GRANDFATHERED": "grandfathered"}


def parse_text(text):
    """Extractor for the text format (an unescaped format: a file name could in principle forge a
    header line; the generated names do not)."""
    entries = []
    glyph_of = {}
    heads = list(_TEXT_HEAD.finditer(text))
    for i, m in enumerate(heads):
        # one glyph stands for one status throughout the document
        if glyph_of.setdefault(m.group(1), m.group(2)) != m.group(2):
            raise Bad("text: icon and status word disagree")
        end = heads[i + 1].start() if i + 1 < len(heads) else len(text)
        body = text[m.end():end]
        t = _TEXT_TAIL.search(body)
        if not t:
            raise Bad("text: result block without detail lines")
        entries.append((body[:t.start()], _WORD[m.group(2)]))
    sums = _TEXT_SUM.findall(_ANSI.sub("", text))
    if len(sums) != 1:
        raise Bad("text: %d summary lines" % len(sums))
    t, p, w, f, g = sums[0]
    return {"entries": entries, "summary": {"total": int(t), "passed": int(p), "warning": int(w), "failed": int(f), "grandfathered": int(g or 0)}}


_MD_ICON = {"✅": "passed", "⚠️": "warning", "❌": "failed", "🔵": "grandfathered"}
_MD_LINES = re.compile(r"\r\n|\n|\r")
_MD_PUNCT = set("!\"#$%&'()*+,-./:;<=>?@[\\]^_`{|}~")


def md_one_line(s):
    """what the Markdown report is required to show for a name / reason: the text on one line (a line break is shown as a space)"""
    return s.replace("\r\n", " ").replace("\n", " ").replace("\r", " ")


def md_shown_name(s):
    """the name a renderer shows for the code span the report writes for `s`: the text on one line; CommonMark 6.1 drops one
    space at each end of a span whose content both begins and ends with a space (the report pads only spans that need a longer
    fence), so such a name is shown without that pair - a presentational loss like the trimming of table cells, documented"""
    s = md_one_line(s)
    if "`" not in s and len(s) >= 2 and s[0] == " " == s[-1] and s.strip(" "):
        return s[1:-1]
    return s


def md_split_row(line):
    """cells of one table row as a GFM table parser reads them (cmark-gfm: cells end at a pipe that is not preceded by a
    backslash; the backslash of an escaped pipe is removed BEFORE the cell is read as inline text); None if not a row"""
    if not line.startswith("|") or not line.rstrip(" ").endswith("|") or len(line.rstrip(" ")) < 2:
        return None
    body = line.rstrip(" ")[1:]
    cells, cur, i = [], "", 0
    while i < len(body):
        if body[i] == "\\" and i + 1 < len(body) and body[i + 1] == "|":
            cur += "|"
            i += 2
        elif body[i] == "|":
            cells.append(cur.strip(" "))
            cur = ""
            i += 1
        else:
            cur += body[i]
            i += 1
    if cur.strip(" "):
        return None          # text behind the closing pipe
    return cells


def md_code_span(cell):
    """the literal text of a cell that is exactly one inline code span (CommonMark 6.1); raises Bad otherwise"""
    n = len(cell) - len(cell.lstrip("`"))
    if n == 0 or len(cell) < 2 * n or not cell.endswith("`" * n):
        raise Bad("markdown: file cell %r is not a code span" % cell[:80])
    inner = cell[n:len(cell) - n]
    if inner.startswith("`") or inner.endswith("`") or any(len(r) == n for r in re.findall(r"`+", inner)):
        raise Bad("markdown: the code span of file cell %r ends early (a backtick run of the fence length inside)" % cell[:80])
    if len(inner) >= 2 and inner[0] == " " and inner[-1] == " " and inner.strip(" "):
        inner = inner[1:-1]
    return inner


def md_inline_text(cell):
    """the text a cell of plain inline text shows: backslash escapes of ASCII punctuation resolved; a backtick that is not
    escaped would open a code span -> Bad"""
    out, i = "", 0
    while i < len(cell):
        if cell[i] == "\\" and i + 1 < len(cell) and cell[i + 1] in _MD_PUNCT:
            out += cell[i + 1]
            i += 2
        elif cell[i] == "`":
            raise Bad("markdown: unescaped backtick in a text cell %r" % cell[:80])
        else:
            out += cell[i]
            i += 1
    return out


def parse_markdown(text):
    """Reads the report the way a GFM renderer does: lines, table rows split at unescaped pipes, the file cell as a code
    span, the reason cell as inline text. A file name or reason that breaks a cell, a span or a row makes the Details table
    ill-formed (Bad) - in particular the second half of a split row cannot pose as a row."""
    def metric(label):
        m = re.findall(r"(?m)^\| %s \| (\d+) \|$" % re.escape(label), text)
        return int(m[0]) if len(m) >= 1 else None
    summ = {"total": metric("Total Files"), "passed": metric("✅ Passed"), "warning": metric("⚠️ Warnings"), "failed": metric("❌ Failed"),
            "grandfathered": metric("🔵 Grandfathered") or 0}
    if None in summ.values():
        raise Bad("markdown: summary table incomplete")
    entries, rows = [], []
    lines = _MD_LINES.split(text)
    if "### Details" in lines:
        k = lines.index("### Details")
        need = ["Status", "File", "Total", "Lines", "Limit", "Code", "Comment", "Blank", "Reason"]
        hdr = md_split_row(lines[k + 2] if k + 2 < len(lines) else "")
        delim = lines[k + 3] if k + 3 < len(lines) else ""
        # the nine columns the property speaks about must be there, under their names; further columns are the
        # report's own business (a GFM table: header, delimiter row and every row have the same number of cells)
        if lines[k + 1:k + 2] != [""] or hdr is None or any(hdr.count(n) != 1 for n in need) or not re.fullmatch(r"\|[:\-|]+\|", delim) \
                or len(md_split_row(delim) or []) != len(hdr):
            raise Bad("markdown: Details table without its header / delimiter row")
        col = {n: hdr.index(n) for n in need}
        for line in lines[k + 4:]:
            if line == "":
                break
            cells = md_split_row(line)
            if cells is None or len(cells) != len(hdr):
                raise Bad("markdown: Details table: line %r is not a row of %d cells (%s)" % (line[:100], len(hdr), "no row" if cells is None else "%d cells" % len(cells)))
            st = cells[col["Status"]].split(" ")
            if len(st) != 2 or st[0] not in _MD_ICON or st[1].lower() not in STATUS:
                raise Bad("markdown: status cell %r" % cells[col["Status"]][:40])
            if _MD_ICON[st[0]] != st[1].lower():
                raise Bad("markdown: icon and status word disagree")
            nums = [cells[col[n]] for n in ("Total", "Lines", "Limit", "Code", "Comment", "Blank")]
            if not all(re.fullmatch(r"\d+", c) for c in nums):
                raise Bad("markdown: a count cell is not a number: %r" % nums)
            path = md_code_span(cells[col["File"]])
            entries.append((path, st[1].lower()))
            rows.append({"path": path, "total": int(nums[0]), "sloc": int(nums[1]), "limit": int(nums[2]), "code": int(nums[3]),
                         "comment": int(nums[4]), "blank": int(nums[5]), "reason": md_inline_text(cells[col["Reason"]])})
    elif re.search(r"(?m)^\|.*(Passed|Warning|Failed|Grandfathered) \|", text.split("### Split Suggestions")[0].split("|------:|\n", 1)[-1].split("\n\n", 1)[-1]):
        raise Bad("markdown: result rows outside a Details table")
    return {"entries": entries, "summary": summ, "rows": rows}


# tags / attributes the templates themselves use (src/output/html*.rs, stats/html.rs, svg/*.rs)
HTML_TAGS = {"html", "head", "meta", "title", "style", "body", "div", "h1", "h2", "h3", "h4", "span", "table", "thead", "tbody", "tr", "th", "td",
             "button", "ul", "li", "p", "script", "strong", "svg", "rect", "text", "line", "path", "circle", "g", "polyline", "polygon", "footer", "a", "tspan"}
HTML_ATTRS = {"lang", "charset", "name", "content", "class", "id", "data-filter", "data-sort", "data-status", "data-value", "viewbox", "xmlns", "role",
              "x", "y", "x1", "y1", "x2", "y2", "cx", "cy", "r", "rx", "ry", "width", "height", "fill", "stroke", "stroke-width", "text-anchor",
              "font-size", "font-weight", "dominant-baseline", "d", "points", "opacity", "stroke-dasharray", "transform", "href", "style",
              "stroke-linecap", "stroke-linejoin", "fill-opacity", "aria-label"}


class _Html(html.parser.HTMLParser):
    def __init__(self):
        super().__init__(convert_charrefs=True)
        self.stack = []          # (tag, classes)
        self.rows = []           # per tr[data-status]: dict(status, path, reason, tds, sugg)
        self.cards = []          # (label, value)
        self.foreign = []        # tags/attrs outside the template vocabulary, tags inside text-only cells
        self.counts = {}
        self.cur = None
        self.card = None
        self.void = {"meta", "br", "img", "input", "link", "hr"}
        self.lang_rows = []
        self.plain_rows = []     # rows of tables without data-status (stats html): list of cell texts
        self.prow = None

    def _in(self, cls):
        return any(cls in c for _, c in self.stack)

    def handle_starttag(self, tag, attrs):
        self.counts[tag] = self.counts.get(tag, 0) + 1
        if tag not in HTML_TAGS:
            self.foreign.append("tag <%s>" % tag)
        for k, _ in attrs:
            if k not in HTML_ATTRS:
                self.foreign.append("attribute %s on <%s>" % (k, tag))
        classes = (dict(attrs).get("class") or "").split()
        if self.stack and any(c in ("file-path", "reason") for c in self.stack[-1][1]):
            self.foreign.append("element <%s> inside a text-only cell" % tag)
        if self.stack and self.stack[-1][0] in ("li", "title", "text") :
            self.foreign.append("element <%s> inside <%s>" % (tag, self.stack[-1][0]))
        if tag == "tr":
            ds = dict(attrs).get("data-status")
            if ds is not None:
                self.cur = {"status": ds, "path": None, "reason": None, "tds": [], "status_text": "", "sugg": []}
                self.rows.append(self.cur)
            elif self._in_tbody():
                self.prow = []
                self.plain_rows.append(self.prow)
        if tag == "td":
            if self.cur is not None:
                self.cur["tds"].append("")
            elif self.prow is not None:
                self.prow.append("")
        if tag == "div" and "summary-card" in classes:
            self.card = {"label": "", "value": ""}
            self.cards.append(self.card)
        if tag not in self.void:
            self.stack.append((tag, classes))

    def _in_tbody(self):
        return any(t == "tbody" for t, _ in self.stack)

    def handle_endtag(self, tag):
        for i in range(len(self.stack) - 1, -1, -1):
            if self.stack[i][0] == tag:
                del self.stack[i:]
                break
        if tag == "tr":
            self.cur = None
            self.prow = None
        if tag == "div" and self.card is not None and not any("summary-card" in c for _, c in self.stack):
            self.card = None

    def handle_data(self, data):
        if not self.stack:
            return
        tag, classes = self.stack[-1]
        if self.cur is not None:
            if "file-path" in classes:
                self.cur["path"] = (self.cur["path"] or "") + data
            elif "reason" in classes:
                self.cur["reason"] = (self.cur["reason"] or "") + data
            elif "status" in classes:
                self.cur["status_text"] += data
            elif tag == "li":
                self.cur["sugg"].append(data)
            elif tag == "td" and self.cur["tds"]:
                self.cur["tds"][-1] += data
        elif self.prow is not None and tag == "td" and self.prow:
            self.prow[-1] += data
        if self.card is not None and tag == "span":
            if "value" in classes:
                self.card["value"] += data
            elif "label" in classes:
                self.card["label"] += data


_HTML_PATH_RAW = re.compile(r'(?s)<div class="file-path">(.*?)</div>')
_HTML_REASON_RAW = re.compile(r'(?s)<div class="reason">(.*?)</div>')


def parse_html(text):
    p = _Html()
    p.feed(text)
    p.close()
    entries = []
    for r in p.rows:
        if r["status"] not in STATUS or r["path"] is None:
            raise Bad("html: row without status/path")
        if r["status_text"].split()[-1:] != [r["status"].capitalize()]:
            raise Bad("html: data-status %r and status text %r disagree" % (r["status"], r["status_text"]))
        if len(r["tds"]) != 8:
            raise Bad("html: row has %d cells" % len(r["tds"]))
        entries.append((r["path"], r["status"]))
    cards = {c["label"].strip(): c["value"].strip() for c in p.cards}
    summ = None
    if "Total Files" in cards and "Passed" in cards:
        summ = {"total": int(cards["Total Files"]), "passed": int(cards["Passed"]), "warning": int(cards["Warnings"]), "failed": int(cards["Failed"]),
                "grandfathered": int(cards.get("Grandfathered", 0))}
    return {"entries": entries, "summary": summ, "cards": cards, "foreign": p.foreign, "rows": p.rows, "counts": p.counts,
            "unsafe": html_unsafe_chunks(text), "raw_paths": _HTML_PATH_RAW.findall(text), "raw_reasons": _HTML_REASON_RAW.findall(text), "plain_rows": p.plain_rows}


_SAFE_TEXT = re.compile(r"(?s)(?:[^<>\"'&]|&(?:amp|lt|gt|quot|#39|#x[0-9A-Fa-f]+);)*")


def html_unsafe_chunks(text):
    """Text chunks of the document body (between tags, outside style/script) that contain a raw
    quote / apostrophe or an ampersand that is not the head of an entity."""
    b = text.find("<body")
    e = text.find("<script")
    body = text[b if b >= 0 else 0:e if e >= 0 else len(text)]
    return [m for m in re.findall(r">([^<]*)<", body) if not _SAFE_TEXT.fullmatch(m)]


PARSERS = {"json": parse_check_json, "sarif": parse_sarif, "text": parse_text, "markdown": parse_markdown, "html": parse_html}


# ------------------------------------------------------------------ stats formats

_ST_FILE = re.compile(r"(?ms)^  (.*?) - (\d+) code, (\d+) total \(comment=(\d+), blank=(\d+)\)$")
_ST_MD_FILE = re.compile(r"(?ms)^\| `(.*?)` \| ([^|\n]*?) \| (\d+) \| (\d+) \| (\d+) \| (\d+) \|$")


def parse_stats_files(fmt, text):
    """-> list of (path, code, total, comment, blank) in output order"""
    if fmt == "json":
        j = json.loads(text)
        return [(f["path"], f["code"], f["total"], f["comment"], f["blank"]) for f in j.get("top_files", [])]
    if fmt == "text":
        return [(m.group(1), int(m.group(2)), int(m.group(3)), int(m.group(4)), int(m.group(5))) for m in _ST_FILE.finditer(text)]
    return [(m.group(1), int(m.group(3)), int(m.group(4)), int(m.group(5)), int(m.group(6))) for m in _ST_MD_FILE.finditer(text)]


def parse_stats_summary(fmt, text):
    """-> (files, lines, code, comment, blank)"""
    if fmt == "json":
        s = json.loads(text)["summary"]
        return (s["total_files"], s["total_lines"], s["code"], s["comment"], s["blank"])
    if fmt == "text":
        g = lambda lab: int(re.findall(r"(?m)^  %s: (\d+)$" % lab, text)[-1])
        return (g("Files"), g("Total lines"), g("Code"), g("Comments"), g("Blank"))
    if fmt == "md":
        g = lambda lab: int(re.findall(r"(?m)^\| %s \| (\d+) \|$" % lab, text)[0])
        return (g("Total Files"), g("Total Lines"), g("Code"), g("Comments"), g("Blank"))
    h = parse_html(text)
    c = h["cards"]
    return (int(c["Total Files"]), int(c["Total Lines"]), int(c["Code"]), int(c["Comments"]), int(c["Blanks"]))


def parse_stats_groups(fmt, text, by):
    """-> list of (key, files, code, comment, blank) in output order (total lines where the format has it)"""
    if fmt == "json":
        j = json.loads(text)
        gs = j.get("by_language" if by == "lang" else "by_directory") or []
        return [(g["language" if by == "lang" else "directory"], g["files"], g["code"], g["comment"], g["blank"], g["total_lines"]) for g in gs]
    if fmt == "text":
        out = []
        for m in re.finditer(r"(?ms)^(.*?) \((\d+) files\):\n  [█░]+ +[\d.]+%  \((\d+) code\)\n  Total: (\d+)  Comments: (\d+)  Blank: (\d+)\n", text.split("Summary:\n")[0].split(":\n\n", 1)[-1]):
            out.append((m.group(1).lstrip("\n"), int(m.group(2)), int(m.group(3)), int(m.group(5)), int(m.group(6)), int(m.group(4))))
        return out
    if fmt == "md":
        sec = text.split("### By Language\n" if by == "lang" else "### By Directory\n", 1)
        if len(sec) < 2:
            return []
        sec[1] = sec[1].split(":|\n", 1)[-1]          # skip the header and separator rows
        pat = r"(?ms)^\| (.*?) \| (\d+) \| (\d+) \| (\d+) \| (\d+) \|$" if by == "lang" else r"(?ms)^\| `(.*?)` \| (\d+) \| (\d+) \| (\d+) \| (\d+) \|$"
        return [(m.group(1), int(m.group(2)), int(m.group(3)), int(m.group(4)), int(m.group(5)), None) for m in re.finditer(pat, sec[1])
                if m.group(1) not in ("Language", "Directory")]
    raise ValueError(fmt)


# ------------------------------------------------------------------ model protocol

def w_results(rows):
    """rows: list of (status_name, path, (t,c,m,b)[, is_structure_result]) -> wire"""
    if not rows:
        return "-"
    return ";".join("%d|%s|%d|%d|%d|%d%s" % (STATUS.index(r[0]), enc(r[1]), r[2][0], r[2][1], r[2][2], r[2][3], "|1" if len(r) > 3 and r[3] else "")
                    for r in rows)


def is_structure_row(r):
    """a row of check --format json that stands for a directory / naming rule, not for a counted file"""
    return (r.get("violation_category") or {}).get("category") == "structure"


def w_files(files):
    """files: list of (path, lang, (t,c,m,b))"""
    if not files:
        return "-"
    return ";".join("%s|%s|%d|%d|%d|%d" % (enc(p), enc(l), s[0], s[1], s[2], s[3]) for p, l, s in files)


def w_pi(pi):
    return ",".join(str(i) for i in pi) if pi else "-"


def rand_pi(rng, n):
    """a selection code of a uniformly random permutation of n elements (plus, sometimes, junk indices)"""
    pi = [rng.randrange(n - i) for i in range(n)] if n else []
    if rng.random() < 0.15:
        pi = pi[:rng.randrange(len(pi) + 1)] + [rng.randrange(0, 50)]
    return pi


def r_groups(s):
    if s in ("", "-"):
        return []
    out = []
    for it in s.split(";"):
        k, f, l, c, m, b = it.split("|")
        out.append((dec(k), int(f), int(c), int(m), int(b), int(l)))
    return out


def r_entries(s):
    if s in ("", "-"):
        return []
    return [(dec(it.split("|")[1]), STATUS[int(it.split("|")[0])]) for it in s.split(";")]


def coq_str(s):
    return "[" + ";".join(str(ord(c)) for c in s) + "]"


# ------------------------------------------------------------------ generators: names and contents

SPECIAL_NAMES = ["a b", "q'uote", 'dq"x', "amp&ersand", "lt<gt>", "<b>bold<", "<img src=x onerror=alert(1)>", "semi;colon", "new\nline", "tab\there",
                 "per%41cent", "100%", "hash#frag", "quest?ion", "unié中", "emoji\U0001f600", "back`tick", "pipe|bar", "&amp;", "&lt;script&gt;",
                 "-->", "]]>", "'\"><svg onload=1>", "a&#39;b", "dollar$", "paren(s)", "brace{s}", "star*", "back\\slash", "\x7fdel", "\x01ctl",
                 # Markdown table / code-span structure: cell break, span break, row break, a forged row behind a line break
                 "a|b`c", "new\nline | \u2705 Passed | x", "x\n| \u2705 Passed | `y.rs` | 1 | 1 | 9 | 1 | 0 | 0 | - |", "two``ticks`", "`lead", "trail`", "cr\rret",
                 "esc\\|pipe", "``", "| x |"]
PLAIN = ["a", "b", "c", "main", "lib", "util", "core", "x1", "y2", "mod", "app", "zeta", "alpha"]
BAD_BYTES = [b"\xff", b"\xfe\xfd", b"\xc3", b"\xe2\x82", b"\xed\xa0\x80"]
LANGS = {  # ext -> (builtin language name, line comment, sample code line)
    "rs": ("Rust", "//", "let x = 1;"), "py": ("Python", "#", "x = 1"), "go": ("Go", "//", "x := 1"), "c": ("C", "//", "int x;"),
    "js": ("JavaScript", "//", "var x;"), "rb": ("Ruby", "#", "x = 1"), "sh": ("Shell", "#", "x=1"), "lua": ("Lua", "--", "x = 1"),
}


def gen_name(rng, hostile):
    r = rng.random()
    if hostile and r < 0.55:
        return rng.choice(SPECIAL_NAMES) + rng.choice(["", "", rng.choice(PLAIN)])
    if hostile and r < 0.65:
        return None  # non-UTF-8, decided by caller
    return rng.choice(PLAIN) + rng.choice(["", "", "_" + str(rng.randrange(10))])


def body(ext, comment, code, comments, blanks, rng, line=None):
    """a file with exactly the given numbers of code / comment / blank lines"""
    lines = [line or LANGS.get(ext, (None, None, "x"))[2]] * code + [comment + " note"] * comments + [""] * blanks
    # keep a code line first so that no directive window / leading comment subtleties matter
    head, rest = lines[:1], lines[1:]
    rng.shuffle(rest)
    return "\n".join(head + rest) + "\n" if lines else ""


def ignored_tail(ext, comment, n, rng):
    """n lines that the counter classifies as ignored (they count in total, in no other figure), behind an
    ignore-next N directive or inside an ignore-start / ignore-end block (directive lines count as comments)"""
    code = LANGS.get(ext, (None, None, "x"))[2]
    ign = [rng.choice([code, code, "", comment + " hidden"]) for _ in range(n)]
    if rng.random() < 0.5:
        return "\n".join(["%s sloc-guard:ignore-next %d" % (comment, n)] + ign) + "\n"
    return "\n".join([comment + " sloc-guard:ignore-start"] + ign + [comment + " sloc-guard:ignore-end"]) + "\n"


class Project:
    """files: dict bytes-relpath -> text ; config: toml text ; baseline: bool ; late: files added after the baseline was written"""

    def __init__(self):
        self.files, self.late, self.config, self.baseline, self.tags, self.customs, self.max_lines = {}, {}, "", False, set(), [], 4
        self.unreadable = []


def toml_str(s):
    out = '"'
    for ch in s:
        o = ord(ch)
        if ch == '"' or ch == "\\":
            out += "\\" + ch
        elif o < 0x20 or o == 0x7f:
            out += "\\u%04x" % o
        else:
            out += ch
    return out + '"'


def gen_big_structure(rng, ndirs=None):
    """30-60 directories that each break max_files AND max_dirs (two results with one sort key), some of their
    sub-directories also break max_depth (three): far more than 20 structure results with ties in the path key"""
    P = Project()
    P.tags |= {"bigstructure", "structure"}
    P.max_lines = 500
    P.config = ('version = "2"\n[content]\nmax_lines = 500\nextensions = ["rs"]\n[structure]\nmax_files = 1\nmax_dirs = 1\nmax_depth = %d\n'
                % rng.choice([2, 3]))
    n = ndirs or rng.randrange(30, 61)
    for i in range(n):
        d = b"pkg/d%02d" % i
        P.files[d + b"/a.rs"] = "fn a() {}\n"
        P.files[d + b"/b.rs"] = "fn b() {}\n"
        P.files[d + b"/sub_a/c.rs"] = "fn c() {}\n"
        P.files[d + b"/sub_b/e.rs"] = "fn e() {}\n"
        if i % 3 == 0:       # the sub-directory itself over both limits and (with max_depth = 2) too deep
            P.files[d + b"/sub_a/c2.rs"] = "fn c2() {}\n"
            P.files[d + b"/sub_a/x/f.rs"] = "fn f() {}\n"
            P.files[d + b"/sub_a/y/g.rs"] = "fn g() {}\n"
    return P


def gen_warn_suggest(rng):
    """files in the WARNING band (warn_threshold x limit < sloc <= limit) whose functions add up to more than one 300-line chunk of
    the split analyzer, so that --suggest attaches suggestions to a Warning result; next to one over the limit and a small one"""
    P = Project()
    P.tags |= {"warnband", "suggestable"}
    nf, body_lines = rng.choice([(4, 98), (5, 98), (5, 78), (6, 70)])
    total = nf * (body_lines + 2)
    limit = total + rng.choice([10, 50, 100])
    P.max_lines = limit
    thr = rng.choice([0.5, 0.7, 0.8])
    P.config = 'version = "2"\n[content]\nmax_lines = %d\nwarn_threshold = %s\nextensions = ["rs"]\n' % (limit, thr)

    def fns(n, k, name):
        return "".join("fn %s_%d() {\n%s}\n" % (name, f, "".join("    let v%d = %d;\n" % (i, i) for i in range(1, k + 1))) for f in range(1, n + 1))
    P.files[b"src/near_limit.rs"] = fns(nf, body_lines, "handler")
    if rng.random() < 0.7:
        P.files[b"src/also_near.rs"] = fns(nf, body_lines, "other") + "\n// tail\n"
    if rng.random() < 0.7:
        P.files[b"src/over.rs"] = fns(nf + 1, body_lines + 10, "big")
    P.files[b"src/small.rs"] = "fn small() {}\n"
    return P


def gen_project(rng, kind):
    """kind: none | plain | ties | hostile | structure | baseline | customlang | mixed"""
    if kind == "bigstructure":
        return gen_big_structure(rng)
    if kind == "warnband":
        return gen_warn_suggest(rng)
    P = Project()
    P.tags.add(kind)
    hostile = kind in ("hostile", "mixed") or rng.random() < 0.5
    max_lines = rng.choice([3, 4, 5, 6])
    P.max_lines = max_lines
    exts = rng.sample(sorted(LANGS), rng.choice([2, 3, 4, 5]))
    customs = []
    if kind in ("customlang", "mixed") or rng.random() < 0.2:
        shared = "foo"
        pool = ["Aaa", "Bbb", "Zed", "Mid", "lower", "Q<uote>&", "Éé"]
        names = rng.sample(pool, rng.choice([2, 2, 3, 4]))
        for i, n in enumerate(names):
            cexts = [shared] if i < 2 or rng.random() < 0.5 else []
            if rng.random() < 0.5:
                cexts.append("c%d" % i)
            if rng.random() < 0.15:
                cexts.append(rng.choice(exts))      # override of a built-in
            customs.append((n, cexts, [rng.choice(["#", "//", ";", "--", "%"])]))
        # make the comment syntaxes of the two claimants of the shared extension differ
        customs[0] = (customs[0][0], customs[0][1], ["#"])
        customs[1] = (customs[1][0], customs[1][1], ["//"])
        P.tags.add("customlang")
        P.tags.add("shared-ext")
    P.customs = customs
    all_exts = exts + sorted({e for _, ce, _ in customs for e in ce if e not in exts})
    skip_comments = rng.random() < 0.8
    skip_blank = rng.random() < 0.8
    cfg = ['version = "2"', "[content]", "max_lines = %d" % max_lines, "extensions = [%s]" % ", ".join('"%s"' % e for e in all_exts)]
    if not skip_comments:
        cfg.append("skip_comments = false")
    if not skip_blank:
        cfg.append("skip_blank = false")
    reasons = ["legacy", "tracked in #12 <b>", "a & b", "it's \"fine\"", "pipe | here", "multi  space", "<script>alert(1)</script>"]
    if kind in ("hostile", "mixed", "structure") or rng.random() < 0.3:
        cfg += ["[[content.rules]]", 'pattern = "**/big*"', "max_lines = %d" % max(1, max_lines - 2), "reason = %s" % toml_str(rng.choice(reasons))]
        P.tags.add("reason")
    structure = kind in ("structure", "mixed", "baseline") or rng.random() < 0.25
    if structure:
        cfg += ["[structure]", "max_files = %d" % rng.choice([2, 3]), "max_dirs = %d" % rng.choice([1, 2, 5])]
        if rng.random() < 0.6:
            cfg.append('deny_extensions = [".bak"]')
        if rng.random() < 0.5:
            cfg += ["[[structure.rules]]", 'scope = "**/deep*"', "max_files = 1", "reason = %s" % toml_str(rng.choice(reasons))]
        P.tags.add("structure")
    for n, ce, sl in customs:
        cfg += ["[languages.%s]" % toml_str(n), "extensions = [%s]" % ", ".join('"%s"' % e for e in ce),
                "single_line_comments = [%s]" % ", ".join(toml_str(s) for s in sl)]
    P.config = "\n".join(cfg) + "\n"
    if kind == "none":
        if rng.random() < 0.5:
            P.files[b"README.txt"] = "nothing to count\n"
        return P
    # directories
    ndirs = rng.choice([1, 2, 3, 4])
    dirs = [b""]
    for _ in range(ndirs):
        parent = rng.choice(dirs)
        nm = gen_name(rng, hostile and rng.random() < 0.5)
        nb = (rng.choice(PLAIN).encode() + rng.choice(BAD_BYTES)) if nm is None else nm.encode("utf-8")
        if rng.random() < 0.2:
            nb = b"deep" + nb
        nb = nb.replace(b"/", b"_").replace(b"\x00", b"_")
        dirs.append((parent + b"/" if parent else b"") + nb)
    nfiles = rng.choice([3, 5, 7, 9, 12])
    tie_code = rng.choice([1, 2, 3])
    for i in range(nfiles):
        d = rng.choice(dirs)
        ext = rng.choice(all_exts)
        nm = gen_name(rng, hostile)
        nb = (rng.choice(PLAIN).encode() + rng.choice(BAD_BYTES)) if nm is None else nm.encode("utf-8")
        nb = nb.replace(b"/", b"_").replace(b"\x00", b"_")
        if rng.random() < 0.12:
            nb = b"big" + nb
        if nb.startswith(b"."):
            nb = b"d" + nb
        rel = (d + b"/" if d else b"") + nb + b"." + ext.encode()
        if kind == "ties" or rng.random() < 0.35:
            code, com, bl = tie_code, rng.choice([0, 1]), rng.choice([0, 1])
        else:
            code = rng.choice([1, 2, max_lines - 1, max_lines, max_lines, max_lines + 1, max_lines + 3])
            com, bl = rng.choice([0, 0, 1, 2]), rng.choice([0, 0, 1, 3])
        cm = LANGS[ext][1] if ext in LANGS else "#"
        line = None
        if ext in LANGS and rng.random() < (0.3 if kind in ("hostile", "mixed", "plain") else 0.12):
            # a known-language file over (or at) the limit whose CONTENT is not valid UTF-8 (a Latin-1 byte in a
            # comment): the byte-based counter copes, fs::read_to_string in the suggestion pass does not
            n = rng.choice([max_lines, max_lines + 1, max_lines + 3])
            P.files[rel] = (LANGS[ext][2] + "\n").encode() * n + cm.encode() + b" caf\xe9 na\xefve\n" + (b"\xff\xfe\n" if rng.random() < 0.3 else b"")
            P.tags.add("nonutf8-content")
            if rng.random() < 0.3:
                P.unreadable.append(rel)
            continue
        if ext == "rs" and rng.random() < (0.5 if kind in ("hostile", "mixed") else 0.15):
            # functions longer than the limit: the only inputs for which --suggest attaches split suggestions
            P.files[rel] = "".join("fn f%d() {\n%s}\n\n" % (k, "    let a = 1;\n" * (max_lines + 2)) for k in range(rng.choice([2, 3])))
            P.tags.add("suggestable")
            continue
        if ext not in LANGS:
            # custom-language file: lines that are comments under one claimant and code under the other
            P.files[rel] = "x = 1\n" * max(1, code) + "# one\n" * com + "// two\n" * rng.choice([0, 1, 2]) + "\n" * bl
            continue
        P.files[rel] = body(ext, cm, max(1, code), com, bl, rng, line)
        if rng.random() < (0.5 if kind in ("plain", "ties") else 0.25):
            P.files[rel] += ignored_tail(ext, cm, rng.choice([1, 2, 3]), rng)
            P.tags.add("ignored-lines")
    if rng.random() < 0.6:
        # EMPTY recognised source files (package markers): zero lines in every figure, status passed; a counted file
        # like any other in every report, on cold and on warm (cached) runs alike
        for _ in range(rng.choice([1, 2, 3])):
            d, e = rng.choice(dirs), rng.choice(all_exts)
            P.files[(d + b"/" if d else b"") + rng.choice([b"__init__", b"empty", b"marker_%d" % rng.randrange(3)]) + b"." + e.encode()] = ""
        P.tags.add("empty-file")
    if kind == "ties":
        # one file per language, equal code, one directory each: ties in both breakdown keys
        for e in exts:
            P.files[("t_" + e + "/tie." + e).encode()] = body(e, LANGS[e][1], tie_code, 0, 0, rng)
    if structure and rng.random() < 0.7:
        # a directory whose NAME carries a language extension and that breaks max_files: the structure result
        # names a path the suggestion pass takes for a source file
        d = rng.choice(dirs)
        dn = (d + b"/" if d else b"") + rng.choice([b"gen.js", b"mod.rs", b"pkg.py", b"v1.go", b"deep.c"])
        e = rng.choice(exts)
        for k in range(rng.choice([4, 5])):
            P.files[dn + b"/m%d." % k + e.encode()] = body(e, LANGS[e][1], 1, 0, 0, rng)
        P.tags.add("langlike-dir")
    if structure and rng.random() < 0.7:
        d = rng.choice(dirs)
        P.files[(d + b"/" if d else b"") + b"old.bak"] = "x\n"
    if kind in ("baseline", "mixed") or (rng.random() < 0.2 and kind != "none"):
        P.baseline = True
        P.tags.add("baseline")
        e = rng.choice(exts)
        P.late[("late_new." + e).encode()] = body(e, LANGS[e][1], max_lines + 2, 0, 0, rng)
        # make sure there is something to grandfather
        P.files[("old_big." + e).encode()] = body(e, LANGS[e][1], max_lines + 4, 1, 0, rng)
    return P


# ------------------------------------------------------------------ generators: library-level cases

STRS = ["", "a", "src/main.rs", "a b", "<", ">", "&", '"', "'", "&amp;", "&lt;", "&#39;", "&quot", "&&", "<<>>", "a<b>c&d\"e'f", "\n", "\t", "\\", "`|`",
        "é", "中文", "\U0001f600", "</div>", "<script>alert(1)</script>", "-->", "&#x3c;", "%41", "x" * 40, "|", "` | 1 | 2 |", "]]>", "&;", ";", "#39;", "amp;",
        "`", "``", "a`b``c", "\r", "\r\n", "\\|", "\\`", "x\n| \u2705 Passed | `y.rs` | 1 | 1 | 9 | 1 | 0 | 0 | - |", "\\"]


def rand_string(rng):
    r = rng.random()
    if r < 0.35:
        return rng.choice(STRS)
    if r < 0.75:
        return "".join(rng.choice(STRS) for _ in range(rng.randrange(1, 5)))
    alphabet = "&<>\"';#amplgtquo39x \n/\\"
    return "".join(rng.choice(alphabet) for _ in range(rng.randrange(0, 14)))


KINDS = ["none", "content", "file_count", "dir_count", "max_depth", "disallowed_file", "disallowed_dir", "denied_file", "denied_dir", "naming", "sibling", "group"]


def gen_fmt_case(rng):
    n = rng.choice([0, 0, 1, 2, 3, 5, 8])
    shape = rng.random()
    results = []
    for i in range(n):
        st = rng.randrange(4) if shape < 0.7 else rng.choice([0, 0, 3]) if shape < 0.8 else rng.choice([1, 2])
        kind = rng.choice(["none", "content", "content"] + KINDS)
        path = rand_string(rng) or "f"
        if rng.random() < 0.3 and results:
            path = results[rng.randrange(len(results))].get("path", path)      # duplicate paths (a directory can collect several results)
        code = rng.randrange(0, 9)
        com, bl = rng.randrange(0, 3), rng.randrange(0, 3)
        structure = kind not in ("none", "content")
        stats = [code, code, 0, 0] if structure else [code + com + bl, code, com, bl]
        raw = None if structure or rng.random() < 0.1 else [code + com + bl + 1, code, com + 1, bl]
        r = {"status": st, "path": path, "stats": stats, "raw": raw, "limit": rng.randrange(0, 9),
             "reason": (rand_string(rng) if rng.random() < 0.5 else None), "kind": kind, "arg": rand_string(rng)}
        if structure and r["reason"] is None:
            r["reason"] = "structure: " + kind
        if r["reason"] is not None:
            if rng.random() < 0.75:                                 # mostly one-line strings; a TOML string may hold line breaks too
                r["reason"] = r["reason"].replace("\n", " ").replace("\r", " ")
        if st in (1, 2) and rng.random() < 0.4:
            r["sugg"] = [[rand_string(rng), [rand_string(rng) for _ in range(rng.randrange(0, 3))]] for _ in range(rng.randrange(0, 3))]
        if rng.random() < 0.08:
            raw_b = rng.choice(PLAIN).encode() + rng.choice(BAD_BYTES) + b".rs"
            del r["path"]
            r["path_hex"] = raw_b.hex()
        results.append(r)
    return {"op": "fmt", "results": results, "suggest": rng.random() < 0.5}


def gen_stats_case(rng):
    n = rng.choice([0, 1, 2, 4, 6, 10])
    langs = [rng.choice(["Rust", "Go", "C", "Python", "Q<uote>&", "Éé", "a|b", "", "Zed"]) for _ in range(rng.choice([1, 2, 3, 5]))]
    dirs = ["./" + "/".join(rng.choice(["a", "b", "src", "a b", "x<y", "d\\e"]) for _ in range(rng.randrange(0, 4))) for _ in range(rng.choice([1, 2, 4]))]
    tie = rng.random() < 0.6
    files = []
    for i in range(n):
        code = rng.choice([1, 2]) if tie else rng.randrange(0, 30)
        com, bl = rng.randrange(0, 3), rng.randrange(0, 3)
        d = rng.choice(dirs).rstrip("/")
        p = (d + "/" if d != "." else "./") + "f%d.rs" % i
        if rng.random() < 0.1:
            p = "f%d.rs" % i
        ign = rng.choice([0, 0, 1, 3])      # ignored lines count in total only
        files.append({"path": p, "lang": rng.choice(langs), "stats": [code + com + bl + ign, code, com, bl]})
    return {"op": "stats", "files": files, "depth": rng.choice([None, None, 0, 1, 2, 3]), "reps": 6}


def gen_reg_case(rng):
    names = rng.sample(["A", "B", "Zed", "Mid", "lower", "Rusty", "Éé", "AA", "a"], rng.choice([1, 2, 3, 4]))
    pool = ["foo", "bar", "rs", "py", "x"]
    customs = [{"name": n, "exts": rng.sample(pool, rng.choice([0, 1, 2, 3])), "single": [rng.choice(["#", "//", ";"])]} for n in names]
    return {"op": "reg", "customs": customs, "exts": pool + ["go", "zz"], "reps": 6}
