#!/usr/bin/env python3
"""Import a sub-agent's change from its scratch worktree into /verif/seeded/<prop>-m<k>/.
usage: seedimport.py <prop> <worktree> <patch-name> <demo-name> "<change>" "<needs>" ["<breaks>"]
Copies patch -> patch.diff, demo script -> demo.sh (paths inside rewritten to $WT), demo/ files if present,
and writes a meta.json stub (caught_by is filled by seedall.py results)."""
import json, os, shutil, subprocess, sys, glob
prop, wt, patch, demo, change, needs = sys.argv[1:7]
breaks = sys.argv[7] if len(sys.argv) > 7 else prop
k = 1
while os.path.exists(f"/verif/seeded/{prop}-m{k}"):
    k += 1
d = f"/verif/seeded/{prop}-m{k}"
os.makedirs(d)
shutil.copy(os.path.join(wt, patch), d + "/patch.diff")
if os.path.exists(os.path.join(wt, demo)):
    s = open(os.path.join(wt, demo)).read().replace(wt, "${WT:-" + wt + "}")
    open(d + "/demo.sh", "w").write(s)
    os.chmod(d + "/demo.sh", 0o755)
if os.path.isdir(os.path.join(wt, "demo")):
    for f in glob.glob(os.path.join(wt, "demo", "*")):
        if os.path.isfile(f) and os.path.getsize(f) < 200000 and not f.endswith(".log"):
            os.makedirs(d + "/demo", exist_ok=True)
            shutil.copy(f, d + "/demo/")
head = subprocess.run(["git", "-C", "/repo", "rev-parse", "--short", "HEAD"], capture_output=True, text=True).stdout.strip()
ok = subprocess.run(["git", "-C", "/repo", "apply", "--check", d + "/patch.diff"]).returncode == 0
json.dump({"breaks": breaks, "change": change, "needs": needs, "caught_by": {},
           "base": f"/repo HEAD {head} (round 2); applies cleanly: {ok}",
           "ran": "python3 tools/seedall.py (seedtest.py applies the patch to /repo under the machine-wide lock, runs the quick checks, reverts); the author confirmed the demo fails with and passes without the change and that the full suite (2127 tests) passes with it"},
          open(d + "/meta.json", "w"), indent=1)
print(d, "applies" if ok else "DOES NOT APPLY")
