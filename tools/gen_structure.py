"""Generators, protocol helpers and canonicalisation for the structure properties (C06, C07).

A case = a real directory tree under a vlib.Sandbox (`proj/t/...`, scan root spelled `t` or `./t`: since
fixes/D07 every pattern site matches the normalised path, so both spellings must behave alike and a scope or
exclude pattern written with a leading `./` matches nothing)
+ a `[structure]` configuration (`proj/.sloc-guard.toml`) + a back-end (walkdir / ignore).
Three parties look at it:
  * the implementation: library pipeline through `sgv-structure case` (full dir_stats map) and the real CLI
    (`sgcli check t --format json`, `sgcli explain <dir> --format json`);
  * the Coq model (extracted driver `structure_drv`), fed with the tree, the configuration and the ORACLE
    COLUMNS (glob / regex answers computed by the harness with the real compiled matchers);
  * the generator's own expectation of the counts (independent: python semantics of the few pattern forms
    it emits), and the Coq spec (`forbidden_spec`, `spec_check_dir`) evaluated by the driver.
"""
import json
import os
import struct
from vlib import *  # noqa

ROOT_NAME = "t"


# --------------------------------------------------------------------------- small helpers
def f64_bits(x):
    return struct.unpack(">Q", struct.pack(">d", float(x)))[0]


def bits_f64(b):
    return struct.unpack(">d", struct.pack(">Q", int(b)))[0]


def sx_str(s):
    return [ord(c) for c in s]


def sx_opt(v):
    return [] if v is None else [v]


def sx_bool(b):
    return 1 if b else 0


def sx_dump(x):
    if isinstance(x, bool):
        return "1" if x else "0"
    if isinstance(x, int):
        return str(x)
    return "( " + " ".join(sx_dump(y) for y in x) + " )"


def sx_parse(line):
    toks = line.split()
    pos = [0]

    def one():
        t = toks[pos[0]]
        pos[0] += 1
        if t == "(":
            out = []
            while toks[pos[0]] != ")":
                out.append(one())
            pos[0] += 1
            return out
        return int(t)
    return one()


def sx_coq(x):
    """the same value as a Gallina term of type Run.sx"""
    if isinstance(x, bool):
        return "I 1" if x else "I 0"
    if isinstance(x, int):
        return "I (%d)" % x
    return "L [" + "; ".join(sx_coq(y) for y in x) + "]"


def dstr(l):
    return "".join(chr(c) for c in l)


def dpath(l):
    return "/".join(dstr(c) for c in l)


# --------------------------------------------------------------------------- pattern forms
# A pattern is (form, arg).  glob() renders the globset text; the m_* functions are the generator's OWN
# reading of what that text matches (facts about globset measured in DESIGN section 3).
def glob(p):
    f, a = p
    # mid / tq / text are SEPARATOR-FREE patterns that nevertheless match deep paths (star and ? cross the separator):
    # *gen* matches t/gen/a.rs, t?gen* matches everything at or below t/gen, t*.rs every path that ends in .rs
    return {"lit": a, "ext": "*" + a, "under": a + "/**", "any": "**/" + a, "anyunder": "**/" + a + "/**",
            "pre": a + "*", "mid": "*" + a + "*", "tq": ROOT_NAME + "?" + a + "*", "text": ROOT_NAME + "*" + a}[f]


def m_path(p, path):
    f, a = p
    if f == "lit":
        return path == a
    if f == "ext":
        return path.endswith(a)
    if f == "under":
        return path.startswith(a + "/")
    if f == "any":
        return path == a or path.endswith("/" + a)
    if f == "anyunder":
        return ("/" + path).find("/" + a + "/") >= 0
    if f == "pre":
        return path.startswith(a)
    if f == "mid":
        return a in path
    if f == "tq":
        return len(path) >= 2 and path.startswith(ROOT_NAME) and path[len(ROOT_NAME) + 1:].startswith(a)
    if f == "text":
        return path.startswith(ROOT_NAME) and path[len(ROOT_NAME):].endswith(a)
    raise ValueError(f)


def m_name(p, name):
    return m_path(p, name)


def dirname_fallback(pats):
    """extract_dir_names: last component of patterns ending in /** (if it has no star)"""
    out = []
    for p in pats:
        g = glob(p)
        if g.endswith("/**"):
            last = g[:-3].split("/")[-1]
            if last and "*" not in last:
                out.append(last)
    return out


# --------------------------------------------------------------------------- configuration
class Cfg:
    """structured [structure]/[scanner] configuration; toml() renders it, sx() gives the model's view"""
    LIMS = ["max_files", "max_dirs", "max_depth"]
    WARNS = ["warn_threshold", "warn_files_at", "warn_dirs_at", "warn_files_threshold", "warn_dirs_threshold"]
    GLISTS = ["allow_extensions", "allow_files", "allow_dirs", "deny_extensions", "deny_patterns", "deny_files", "deny_dirs"]
    RLISTS = ["allow_extensions", "allow_patterns", "allow_files", "allow_dirs", "deny_extensions", "deny_patterns", "deny_files", "deny_dirs"]

    def __init__(self):
        self.g = {}                 # global scalar fields
        self.lists = {k: [] for k in self.GLISTS}    # global lists (strings)
        self.count_exclude = []     # pattern forms
        self.scanner_exclude = None  # None = default [".git/**"]; else list of pattern forms
        self.cli_exclude = []       # pattern forms given on the command line (-x / --exclude), appended to scanner.exclude
        self.rules = []             # dicts: scope, scalars, lists, file_naming_pattern, siblings, relative_depth

    def eff_scanner_exclude(self):
        return ([("under", ".git")] if self.scanner_exclude is None else list(self.scanner_exclude)) + list(self.cli_exclude)

    # ---- TOML
    def toml(self):
        q = lambda s: json.dumps(s, ensure_ascii=False)
        ql = lambda l: "[" + ", ".join(q(x) for x in l) + "]"

        def num(k, v):
            if k in ("warn_threshold", "warn_files_threshold", "warn_dirs_threshold"):
                return repr(float(v))
            return str(v)
        out = ['version = "2"', ""]
        if self.scanner_exclude is not None:
            out += ["[scanner]", "exclude = " + ql([glob(p) for p in self.scanner_exclude]), ""]
        out.append("[structure]")
        for k in self.LIMS + self.WARNS:
            if self.g.get(k) is not None:
                out.append("%s = %s" % (k, num(k, self.g[k])))
        if self.count_exclude:
            out.append("count_exclude = " + ql([glob(p) for p in self.count_exclude]))
        for k in self.GLISTS:
            if self.lists[k]:
                out.append("%s = %s" % (k, ql(self.lists[k])))
        for r in self.rules:
            out += ["", "[[structure.rules]]", "scope = " + q(r["scope"])]
            for k in self.LIMS + self.WARNS:
                if r.get(k) is not None:
                    out.append("%s = %s" % (k, num(k, r[k])))
            if r.get("relative_depth"):
                out.append("relative_depth = true")
            for k in self.RLISTS:
                if r.get(k):
                    out.append("%s = %s" % (k, ql(r[k])))
            if r.get("file_naming_pattern") is not None:
                out.append("file_naming_pattern = " + q(r["file_naming_pattern"]))
            if r.get("siblings"):
                items = []
                for s in r["siblings"]:
                    if s["kind"] == "directed":
                        req = ql(s["require"]) if s.get("require_list") else q(s["require"][0])
                        it = "{ match = %s, require = %s" % (q(s["match"]), req)
                    else:
                        it = "{ group = %s" % ql(s["group"])
                    if s.get("warn"):
                        it += ', severity = "warn"'
                    items.append(it + " }")
                out.append("siblings = [" + ", ".join(items) + "]")
        return "\n".join(out) + "\n"

    # ---- the model's view
    def sx(self):
        def ob(k, d):
            v = d.get(k)
            return [] if v is None else [f64_bits(v)]

        def oz(k, d):
            return sx_opt(d.get(k))

        def sib(s):
            if s["kind"] == "directed":
                return [0, sx_bool(s["match"] == ""), [sx_str(t) for t in s["require"]], sx_bool(s.get("warn"))]
            return [1, [sx_str(t) for t in s["group"]], sx_bool(s.get("warn"))]
        rules = []
        for r in self.rules:
            rules.append([sx_str(r["scope"]), oz("max_files", r), oz("max_dirs", r), oz("max_depth", r),
                          sx_bool(r.get("relative_depth")), ob("warn_threshold", r), oz("warn_files_at", r), oz("warn_dirs_at", r),
                          ob("warn_files_threshold", r), ob("warn_dirs_threshold", r),
                          [sx_str(e) for e in r.get("allow_extensions", [])], len(r.get("allow_patterns", [])),
                          len(r.get("allow_files", [])), len(r.get("allow_dirs", [])),
                          [sx_str(e) for e in r.get("deny_extensions", [])], len(r.get("deny_patterns", [])),
                          len(r.get("deny_files", [])), len(r.get("deny_dirs", [])),
                          sx_bool(r.get("file_naming_pattern") is not None),
                          [sib(s) for s in r.get("siblings", [])]])
        g, L = self.g, self.lists
        return [oz("max_files", g), oz("max_dirs", g), oz("max_depth", g), ob("warn_threshold", g),
                oz("warn_files_at", g), oz("warn_dirs_at", g), ob("warn_files_threshold", g), ob("warn_dirs_threshold", g),
                [sx_str(e) for e in L["allow_extensions"]], len(L["allow_files"]), len(L["allow_dirs"]),
                [sx_str(e) for e in L["deny_extensions"]], len(L["deny_patterns"]), len(L["deny_files"]), len(L["deny_dirs"]),
                rules]

    def has_placement(self, r):
        return any(r.get(k) for k in self.RLISTS) or r.get("file_naming_pattern") is not None

    def placement_rule_indices(self):
        return [i for i, r in enumerate(self.rules) if self.has_placement(r)]

    def global_deny_file_patterns(self):
        return [p for p in self.lists["deny_patterns"] if not p.endswith("/")]

    def global_deny_dir_patterns(self):
        return [p for p in self.lists["deny_patterns"] if p.endswith("/")]

    def semantically_valid(self):
        """config/validation.rs for [structure] (the CLI and the harness run it before StructureChecker::new)"""
        def lvl(d, rule_max):
            for k in ("warn_threshold", "warn_files_threshold", "warn_dirs_threshold"):
                if d.get(k) is not None and not (0.0 <= d[k] <= 1.0):
                    return False
            for w, m in (("warn_files_at", "max_files"), ("warn_dirs_at", "max_dirs")):
                if d.get(w) is not None:
                    if d[w] < 0:
                        return False
                    if d.get(m) is not None and d[m] >= 0 and d[w] >= d[m]:
                        return False
            return True
        return lvl(self.g, None) and all(lvl(r, None) for r in self.rules)


# --------------------------------------------------------------------------- trees
class Node:
    __slots__ = ("name", "kind", "children", "path", "ign", "otype", "parent")

    def __init__(self, name, kind, otype=None):
        self.name, self.kind, self.children, self.otype = name, kind, [], otype
        self.path, self.ign, self.parent = None, False, None

    def walk(self):
        yield self
        for c in self.children:
            yield from c.walk()


FILE_NAMES = ["a.rs", "b.rs", "c.py", "main.go", "x.bin", "y.bin", "z.exe", "README.md", "NOTES.md", "Makefile", "LICENSE",
              ".gitkeep", ".env", ".hidden.rs", "a.tar.gz", "foo.", "..x", "données.rs", "日本.md", "my file.txt",
              "Button.tsx", "Button.test.tsx", "Button.module.css", "Icon.tsx", "Icon.test.tsx", "Card.tsx", "card.tsx",
              "mod.rs", "lib.rs", "temp_1", "temp_2.rs", "data.json", "d.tmp", "e.tmp", "snake_case.rs", "CamelCase.rs",
              "k1.rs", "k2.rs", "k3.rs", "k4.rs", "k5.rs", "k6.rs", "k7.rs", "k8.rs", "v.ign", "w.ign", "ign_me", "\U0001f600.rs",
              ".eslintrc", ".a.b", "x.", ".env.example"]
# dotfile-like names whose Path::file_stem differs from "text before the last dot", with the companion a directed
# rule { require = "{stem}.example" } derives from them (std: .env -> .env, .a.b -> .a, ..x -> ., x. -> x)
DOT_TARGETS = {".env": ".env.example", ".eslintrc": ".eslintrc.example", ".a.b": ".a.example", "..x": "..example",
               "x.": "x.example", "foo.": "foo.example", ".gitkeep": ".gitkeep.example", ".hidden.rs": ".hidden.example"}
DIR_NAMES = ["src", "gen", "tests", "lib", "utils", "deep", "a", "b", "c", "vendor", "build", "node_modules", ".git", ".cache",
             "components", "features", "ign_dir", "tmpd", "docs", "Ünï", "x y", "__pycache__", "target", "d1", "d2", "d3", "d4", "d5"]


def gen_tree(rng, max_depth=7, max_width=12, budget=70):
    root = Node(ROOT_NAME, "d")
    left = [budget]

    def fill(node, depth):
        if left[0] <= 0:
            return
        shape = rng.random()
        if shape < 0.12:
            width = 0                                    # empty directory
        elif shape < 0.25:
            width = rng.randint(8, max_width)            # wide
        else:
            width = rng.randint(1, 6)
        fnames = rng.sample(FILE_NAMES, min(len(FILE_NAMES), max_width))
        dnames = rng.sample(DIR_NAMES, min(len(DIR_NAMES), max_width))
        used = set()
        for _ in range(width):
            if left[0] <= 0:
                break
            r = rng.random()
            pdir = 0.45 if depth < max_depth else 0.0
            if depth >= 3:
                pdir *= 0.6
            if r < pdir:
                nm = dnames.pop()
                if nm in used:
                    continue
                used.add(nm)
                ch = Node(nm, "d")
            elif r < pdir + 0.08:
                nm = "ln%d" % len(used) if rng.random() < 0.7 else fnames.pop()
                if nm in used:
                    continue
                used.add(nm)
                ch = Node(nm, "o", rng.choice(["symlink_file", "symlink_dir", "dangling", "fifo"]))
            else:
                nm = fnames.pop()
                if nm in used:
                    continue
                used.add(nm)
                ch = Node(nm, "f")
            left[0] -= 1
            ch.parent = node
            node.children.append(ch)
        for ch in node.children:
            if ch.kind == "d":
                fill(ch, depth + 1)
    fill(root, 0)
    # one deliberately deep chain now and then (depth up to 7)
    if rng.random() < 0.35:
        cur, d = root, 0
        while d < rng.randint(3, max_depth):
            nxt = next((c for c in cur.children if c.kind == "d"), None)
            if nxt is None:
                nm = next((n for n in DIR_NAMES if n not in {c.name for c in cur.children}), None)
                if len(cur.children) >= max_width or nm is None:
                    break
                nxt = Node(nm, "d")
                nxt.parent = cur
                cur.children.append(nxt)
            cur, d = nxt, d + 1
        if len(cur.children) < max_width and "leaf.rs" not in {c.name for c in cur.children}:
            leaf = Node("leaf.rs", "f")
            leaf.parent = cur
            cur.children.append(leaf)
    assign_paths(root)
    return root


def assign_paths(root):
    def go(n, pp):
        n.path = n.name if pp is None else pp + "/" + n.name
        for c in n.children:
            c.parent = n
            go(c, n.path)
    go(root, None)


def add_gitignores(rng, root):
    """writes .gitignore File nodes into the tree and returns [(dir node, [lines])]"""
    out = []
    dirs = [n for n in root.walk() if n.kind == "d"]
    for d in rng.sample(dirs, min(len(dirs), rng.choice([1, 1, 2]))):
        if any(c.name == ".gitignore" for c in d.children) or len(d.children) >= 12:
            continue
        lines = []
        below = [n for n in d.walk() if n is not d]
        for _ in range(rng.randint(1, 3)):
            r = rng.random()
            fl = [n for n in below if n.kind == "f" and "." in n.name[1:] and n.name != ".gitignore"]
            dl = [n for n in below if n.kind == "d"]
            if r < 0.25:
                lines.append("*.ign" if (not fl or rng.random() < 0.4) else "*" + rng.choice(fl).name[rng.choice(fl).name.rindex("."):])
            elif r < 0.5:
                lines.append(rng.choice(below).name if (below and rng.random() < 0.7) else rng.choice(["ign_me", "ign_dir", "tmpd", "build"]))
            elif r < 0.65:
                lines.append((rng.choice(dl).name if (dl and rng.random() < 0.7) else rng.choice(["ign_dir", "target", "docs", "temp_1"])) + "/")
            elif below:
                n = rng.choice(below)
                lines.append("/" + n.path[len(d.path) + 1:])
        g = Node(".gitignore", "f")
        g.parent = d
        d.children.append(g)
        out.append((d, lines))
        assign_paths(root)
    return out


def add_top_gitignore(rng, root):
    """a .gitignore in the PROJECT directory, i.e. strictly above the scan root t: its lines apply to the entries of the
    scanned subtree (the walk reads the ignore files of the root's ancestors); returned as (None, lines)"""
    below = [n for n in root.walk() if n is not root]
    if not below:
        return None
    lines = []
    fl = [n for n in below if n.kind == "f" and "." in n.name[1:] and n.name != ".gitignore"]
    dl = [n for n in below if n.kind == "d"]
    for _ in range(rng.randint(1, 3)):
        r = rng.random()
        if r < 0.35:
            nm = rng.choice(fl).name if fl and rng.random() < 0.8 else "v.ign"
            lines.append("*" + nm[nm.rindex("."):])
        elif r < 0.55:
            lines.append(rng.choice(below).name)
        elif r < 0.8:
            lines.append((rng.choice(dl).name if dl and rng.random() < 0.8 else "build") + "/")
        else:
            lines.append("/" + rng.choice(below).path)
    lines = [ln for ln in lines if ln.strip("/") != ROOT_NAME]
    return (None, lines) if lines else None


def apply_gitignore(root, gis, enabled):
    """the generator's own reading of the few ignore forms it writes"""
    for n in root.walk():
        n.ign = False
    if not enabled:
        return
    for d, lines in gis:
        for n in (d or root).walk():
            if n is (d or root):
                continue
            rel = n.path if d is None else n.path[len(d.path) + 1:]
            for ln in lines:
                if ln.startswith("/"):
                    hit = rel == ln[1:]
                elif ln.endswith("/"):
                    hit = n.kind == "d" and n.name == ln[:-1]
                elif ln.startswith("*"):
                    hit = n.name.endswith(ln[1:])
                else:
                    hit = n.name == ln
                if hit:
                    n.ign = True


def materialise(sb, root, gis, toml_text):
    sb.write(".sloc-guard.toml", toml_text)
    for d, lines in gis:
        if d is None:
            sb.write(".gitignore", "\n".join(lines) + "\n")
    gl = {id(d): lines for d, lines in gis if d is not None}
    first_file = [None]

    def go(n):
        p = os.path.join(sb.proj, n.path)
        if n.kind == "d":
            os.makedirs(p, exist_ok=True)
            for c in n.children:
                go(c)
        elif n.kind == "f":
            if n.name == ".gitignore" and id(n.parent) in gl:
                data = "\n".join(gl[id(n.parent)]) + "\n"
            else:
                data = "x\n"
            with open(p, "w") as f:
                f.write(data)
            if first_file[0] is None and n.name != ".gitignore":
                first_file[0] = p
        else:
            if n.otype == "fifo":
                os.mkfifo(p)
            elif n.otype == "symlink_file":
                os.symlink(first_file[0] or "/etc/hostname", p)
            elif n.otype == "symlink_dir":
                os.symlink(sb.proj, p)
            else:
                os.symlink(os.path.join(sb.proj, "does-not-exist"), p)
    go(root)


# --------------------------------------------------------------------------- the generator's own counts
def expected_stats(cfg, root):
    """{dir path: (files, dirs, depth)} by the generator's own reading of tree + exclusions"""
    se = cfg.eff_scanner_exclude()
    fb = dirname_fallback(se)
    ce = cfg.count_exclude

    def scan_excl(n):
        return any(m_name(p, n.name) or m_path(p, n.path) for p in se) or (n.kind == "d" and n.name in fb)

    def count_excl(n):
        return any(m_name(p, n.name) or m_path(p, n.path) for p in ce)
    out = {}

    def go(d, depth):
        if d.ign or scan_excl(d):
            return
        f = sum(1 for c in d.children if c.kind == "f" and not c.ign and not scan_excl(c) and not count_excl(c))
        k = sum(1 for c in d.children if c.kind == "d" and not c.ign and not scan_excl(c) and not count_excl(c))
        out[d.path] = (f, k, depth)
        for c in d.children:
            if c.kind == "d":
                go(c, depth + 1)
    go(root, 0)
    return out


# --------------------------------------------------------------------------- model case
def cols_sx(o, ign):
    g = o["g"]
    oz = lambda v: [] if v is None else [v]
    return [sx_bool(ign), sx_bool(o["se_name"]), sx_bool(o["se_path"]), sx_bool(o["se_dir"]), sx_bool(o["ce_name"]), sx_bool(o["ce_path"]),
            [sx_bool(b) for b in o["lim"]],
            [sx_bool(g[0]), sx_bool(g[1])] + [oz(v) for v in g[2:]],
            [[sx_bool(r[0]), sx_bool(r[1]), sx_bool(r[2]), sx_bool(r[3]), oz(r[4]), oz(r[5]), oz(r[6]), oz(r[7]), sx_bool(r[8])] for r in o["r"]],
            [[sx_bool(b) for b in row] for row in o["sib"]]]


def tree_sx(n, oracle, spell=""):
    k = {"f": 0, "d": 1, "o": 2}[n.kind]
    return [k, sx_str(n.name), cols_sx(oracle[spell + n.path], n.ign), [tree_sx(c, oracle, spell) for c in n.children]]


def case_sx(cfg, root, impl, perm, spell=""):
    return [cfg.sx(), [sx_bool(b) for b in impl["rl"]], tree_sx(root, impl["oracle"], spell), perm]


def n_entries(root, impl, spell=""):
    """number of entries the walk yields according to the oracle columns (for the permutation)"""
    o = impl["oracle"]
    cnt = [0]

    def go(n):
        c = o[spell + n.path]
        if n.ign:
            return
        if n.kind == "d":
            if c["se_name"] or c["se_path"] or c["se_dir"]:
                return
            cnt[0] += 1
            for ch in n.children:
                go(ch)
        else:
            cnt[0] += 1
    go(root)
    return cnt[0]


# --------------------------------------------------------------------------- canonical violations
# canonical form: (path, kind, payload, actual, limit, warn, rule)   rule = scope string | "global" | None
def canon_model_violation(v, cfg, ctx):
    path, kind, actual, limit, warn, rr = v
    p = dpath(path)
    tag = kind[0]
    rule = None
    ridx = None
    if rr:
        ridx = rr[0]
        rule = "global" if ridx < 0 else cfg.rules[ridx]["scope"]

    def matched(m, is_dir):
        t = m[0]
        if t == 0:
            return dstr(m[1])
        i = m[1]
        if ridx is None or ridx < 0:
            if t == 1:
                return cfg.lists["deny_files"][i]
            if t == 2:
                return cfg.global_deny_file_patterns()[i]
            if t == 3:
                return cfg.global_deny_dir_patterns()[i]
            return cfg.lists["deny_dirs"][i]
        r = cfg.rules[ridx]
        if t == 1:
            return r["deny_files"][i]
        if t == 2:
            return "pattern #%d" % i
        return r["deny_dirs"][i]
    names = {0: "file_count", 1: "dir_count", 2: "max_depth", 3: "disallowed_file", 4: "disallowed_directory",
             5: "denied_file", 6: "denied_directory", 7: "naming_convention", 8: "missing_sibling", 9: "group_incomplete"}
    payload = None
    if tag == 5:
        payload = matched(kind[1], False)
    elif tag == 6:
        payload = matched(kind[1], True)
    elif tag == 7:
        payload = cfg.rules[ridx]["file_naming_pattern"]
    elif tag == 8:
        payload = dstr(kind[1])
    elif tag == 9:
        payload = tuple(dstr(x) for x in kind[1])
    return (p, names[tag], payload, actual, limit, bool(warn), rule)


def canon_type(t):
    """serde form of ViolationType -> (kind, payload)"""
    k = t["type"]
    if k == "denied_file":
        return k, t["pattern_or_extension"]
    if k == "denied_directory":
        return k, t["pattern"]
    if k == "naming_convention":
        return k, t["expected_pattern"]
    if k == "missing_sibling":
        return k, t["expected_sibling_pattern"]
    if k == "group_incomplete":
        return k, tuple(t["missing_patterns"])
    return k, None


def canon_lib_violation(v):
    k, payload = canon_type(v["type"])
    return (v["path"], k, payload, v["actual"], v["limit"], bool(v["warn"]), v["rule"])


def canon_cli_results(js):
    out = []
    for r in js.get("results", []):
        vc = r.get("violation_category")
        if not vc or vc.get("category") != "structure":
            continue
        k, payload = canon_type(vc["violation_type"])
        out.append((r["path"], k, payload, r["stats"]["code"], r["limit"], r["status"] == "warning", vc.get("triggering_rule")))
    return out


def decode_outcome(sx, cfg):
    """model outcome -> dict with canonical pieces"""
    if sx == [-1]:
        return None
    ok, stats, files, plc, lim, sib, expl = sx[:7]
    d = {"ok": bool(ok),
         "stats": {dpath(s[0]): (s[1], s[2], s[3]) for s in stats},
         "files": sorted(dpath(f) for f in files),
         "placement": sorted((canon_model_violation(v, cfg, "p") for v in plc), key=repr),
         "limits": sorted((canon_model_violation(v, cfg, "l") for v in lim), key=repr),
         "siblings": sorted((canon_model_violation(v, cfg, "s") for v in sib), key=repr),
         "explain": {dpath(e[0]): ((e[1][0] if e[1] else None), (e[2][0] if e[2] else None), (e[3][0] if e[3] else None),
                                   (e[4][0] if e[4] else None), e[5]) for e in expl}}
    if len(sx) > 7:
        d["spec_placement"] = sorted((canon_model_violation(v, cfg, "p") for v in sx[7]), key=repr)
        d["spec_limits"] = sorted((canon_model_violation(v, cfg, "l") for v in sx[8]), key=repr)
    return d


def decode_impl(impl, spell=""):
    if spell:
        cut = lambda p: p[len(spell):] if p.startswith(spell) else p
        impl = dict(impl)
        impl["stats"] = [[cut(s_[0])] + list(s_[1:]) for s_ in impl["stats"]]
        impl["files"] = [cut(f) for f in impl["files"]]
        for k in ("placement", "limits", "siblings"):
            impl[k] = [dict(v, path=cut(v["path"])) for v in impl[k]]
        impl["explain"] = {cut(p): e for p, e in impl["explain"].items()}

    def ex(e):
        m = e["matched"]
        idx = m.get("index") if isinstance(m, dict) and m.get("type") == "rule" else None
        return (idx, e["max_files"], e["max_dirs"], e["max_depth"], int(e["warn_bits"]))
    return {"stats": {s[0]: (s[1], s[2], s[3]) for s in impl["stats"]},
            "files": sorted(impl["files"]),
            "placement": sorted((canon_lib_violation(v) for v in impl["placement"]), key=repr),
            "limits": sorted((canon_lib_violation(v) for v in impl["limits"]), key=repr),
            "siblings": sorted((canon_lib_violation(v) for v in impl["siblings"]), key=repr),
            "explain": {p: ex(e) for p, e in impl["explain"].items()}}


# --------------------------------------------------------------------------- configuration generators
THRESH = [0.0, 0.5, 0.8, 0.9, 1.0, 0.07, 0.33, 0.75, 0.1, 0.6]
NAMING = [r"^[a-z_0-9]+\.rs$", r"^[A-Z][a-zA-Z0-9]*\.tsx$", r"^[a-z]", r"\.rs$", r"^[^.]+$", r"^\p{L}+\.", r"^(mod|lib)\.rs$", r"^k\d\.rs$"]
EXTS = [".rs", ".py", ".bin", ".md", ".tsx", ".exe", ".gz", ".tmp", ".css", ".json", ".", ".txt", ".go", ".x"]
# the t... entries are NAME patterns whose literal head coincides with the start of every project-relative path (t/...):
# a list that is meant for names only must not be tried against the path (star crosses the separator)
FILE_PATS = ["*.md", "README*", "temp_*", "k?.rs", "*.test.tsx", "Makefile", "LICENSE", ".*", "*.tar.gz", "[a-c].*", "{mod,lib}.rs",
             "t*.rs", "t*", "t*.md", "t/*", "t*s?", "*"]
DIR_PATS = ["src", "gen", "tests", "utils", "d?", "node_modules", ".*", "[a-c]", "__pycache__", "{lib,docs}", "t*", "t*s", "t/*", "t*[a-z]", "*"]


def scope_pool(rng, root):
    dirs = [n for n in root.walk() if n.kind == "d"]
    out = ["**", "t/**", "t", "*", "t/*", "**/src", "**/gen/**", "t/s?c", "t/[a-d]*", "t/**/tests"]
    for d in rng.sample(dirs, min(len(dirs), 6)):
        out += [d.path, d.path + "/**", d.path + "/*", "**/" + d.name]
    if len(dirs) >= 3:
        a, b = rng.sample(dirs, 2)
        out.append("{%s,%s}" % (a.path, b.path))
        out.append("{%s,%s}/**" % (a.path, b.path))
    # the same scopes written with a leading ./ : they match nothing (patterns see the normalised path)
    for d in rng.sample(dirs, min(len(dirs), 3)):
        out += ["./" + d.path, "./" + d.path + "/**"]
    out += ["./t", "./t/**", "./**"]
    # a scope written with a trailing separator: the normalised directory path never ends in one, so it matches nothing,
    # at EVERY site alike (limits / explain / siblings / placement)
    for d in rng.sample(dirs, min(len(dirs), 3)):
        out += [d.path + "/", d.path + "/", "**/" + d.name + "/"]
    out += ["t/", "*/"]
    return out


def partly_glob(rng, name):
    """a component that is only PARTLY a glob but still matches `name`: x-*, x?, x[ab], x{a,b} shapes"""
    if len(name) < 2 or any(ch in name for ch in "*?[]{}!,"):
        return None
    k = rng.choice(["star", "q", "class", "alt", "midstar"])
    if k == "star":
        return name[:rng.randint(1, len(name) - 1)] + "*"
    if k == "q":
        return name[:-1] + "?"
    if k == "class":
        return name[:-1] + "[" + name[-1] + "#]"
    if k == "alt":
        return name[:-1] + "{" + name[-1] + ",#}"
    return name[0] + "*" + name[-1]


def gen_relative_rule(rng, root):
    """a rule whose scope has a partly-glob component (in the middle or at the end, with or without a trailing /**),
    relative_depth = true and max_depth placed so that some matching directory sits at limit-1 / limit / limit+1 / limit+2
    of the RELATIVE depth (base depth = number of components before the partly-glob one)"""
    dirs = [n for n in root.walk() if n.kind == "d" and n is not root]
    rng.shuffle(dirs)
    for d in dirs:
        comps = d.path.split("/")
        j = rng.randint(1, len(comps) - 1)                 # component made partly glob (never the root name)
        pg = partly_glob(rng, comps[j])
        if pg is None:
            continue
        tail = rng.choice(["", "/**", "/**", "/*"]) if j == len(comps) - 1 else rng.choice(["", "/**"])
        scope = "/".join(comps[:j] + [pg] + comps[j + 1:]) + tail
        below = [n for n in d.walk() if n.kind == "d"] if tail else [d]
        if tail == "/*":
            below = [n for n in d.children if n.kind == "d"] or [d]
        if tail == "/**":
            below = [n for n in below if n is not d] or [d]
        x = rng.choice(below)
        rel = x.path.count("/") + 1 - j                    # relative depth of x: components of its project-relative path minus the base depth j (fixes/D47)
        r = {"scope": scope, "relative_depth": True, "max_depth": max(0, rel - rng.choice([1, 1, 1, 0, 2, -1]))}
        if rng.random() < 0.3:
            r["warn_threshold"] = rng.choice(THRESH)
        return r
    return None


def gen_excludes(rng, cfg, root):
    names = [n for n in root.walk() if n is not root]
    def some_pattern():
        r = rng.random()
        n = rng.choice(names) if names else None
        if r < 0.25 and n:
            return ("lit", n.name)
        if r < 0.45:
            return ("ext", rng.choice([".md", ".tmp", ".bin", ".gitkeep", ".rs", ".ign"]))
        if r < 0.6 and n and n.kind == "d":
            return ("under", ("./" if rng.random() < 0.25 else "") + n.path)
        if r < 0.64 and n:
            return ("lit", ("./" if rng.random() < 0.4 else "") + n.path)
        if r < 0.75 and n:
            return ("any", n.name)
        if r < 0.88:
            return ("anyunder", rng.choice(["vendor", "build", "node_modules", "gen", "a", ".cache", "target"]))
        return ("pre", rng.choice(["temp_", "k", ".", "ln"]))
    def path_only_pattern():
        """a pattern WITHOUT a separator that matches entries by their project-relative PATH and not by their name:
        count_exclude (and scanner.exclude) try the name and the normalised path, and globset's star and ? cross the
        separator, so *gen* / t?gen* take everything at or below t/gen out of the quotas, however deep"""
        dl = [n for n in names if n.kind == "d" and n.children]
        deep = [n for n in dl if any(c.kind == "d" and c.children for c in n.children)]
        r = rng.random()
        if r < 0.45 and dl:
            return ("mid", rng.choice(deep or dl).name)
        if r < 0.75 and dl:
            top = [n for n in dl if n.parent is root]
            if top:
                n = rng.choice(top)
                return ("tq", n.name if rng.random() < 0.6 else n.name[:max(1, len(n.name) - 1)])
        if r < 0.95:
            return ("text", rng.choice([".rs", ".md", ".bin", ".tsx", ".tmp", ".py"]))
        return ("pre", ROOT_NAME)
    if rng.random() < 0.45:
        cfg.count_exclude = [some_pattern() for _ in range(rng.randint(1, 3))]
        if rng.random() < 0.4:
            # mostly alone or next to other separator-free patterns (whether ANY pattern of the list has a separator must not matter)
            po = path_only_pattern()
            if rng.random() < 0.5:
                cfg.count_exclude = [p for p in cfg.count_exclude if "/" not in glob(p)][:rng.randint(0, 2)]
            cfg.count_exclude.insert(rng.randint(0, len(cfg.count_exclude)), po)
        if rng.random() < 0.35:
            # a count-excluded directory WITHOUT entries of its own (empty): it is still a walked directory with a record
            # of its own (0 files, 0 dirs, its depth) and its depth is still checked; only its parent does not count it
            dl = [n for n in names if n.kind == "d"]
            empt = [n for n in dl if not n.children]
            if not empt and dl:
                host = max(dl, key=lambda n: n.path.count("/"))
                if len(host.children) < 12:
                    e_ = Node(next(x for x in ["emptyd", "e0"] if x not in {c_.name for c_ in host.children}), "d")
                    e_.parent = host
                    host.children.append(e_)
                    assign_paths(root)
                    empt = [e_]
            if empt:
                e_ = max(empt, key=lambda n: n.path.count("/")) if rng.random() < 0.6 else rng.choice(empt)
                cfg.count_exclude.append(rng.choice([("lit", e_.name), ("any", e_.name), ("lit", e_.path), ("under", e_.parent.path), ("mid", e_.name)])
                                         if e_.parent is not root or rng.random() < 0.5 else ("lit", e_.name))
    if rng.random() < 0.45:
        cfg.scanner_exclude = [some_pattern() for _ in range(rng.randint(0, 3))]
        if rng.random() < 0.15:
            cfg.scanner_exclude.append(path_only_pattern())
        if rng.random() < 0.5:
            cfg.scanner_exclude.append(("under", ".git"))
        # never exclude the scan root itself (walker corner, not modelled)
        cfg.scanner_exclude = [p for p in cfg.scanner_exclude if not (m_name(p, ROOT_NAME) or m_path(p, ROOT_NAME))]
    # exclude patterns given on the command line (-x): appended to scanner.exclude by the runner; they must prune the
    # structure scan exactly like the same pattern written in the configuration
    if rng.random() < 0.35:
        dl = [n for n in names if n.kind == "d"]
        for _ in range(rng.randint(1, 2)):
            if dl and rng.random() < 0.7:
                d_ = rng.choice(dl)
                cfg.cli_exclude.append(rng.choice([("under", d_.path), ("any", d_.name), ("anyunder", d_.name), ("lit", d_.path)]))
            else:
                cfg.cli_exclude.append(some_pattern())
        cfg.cli_exclude = [p for p in cfg.cli_exclude if not (m_name(p, ROOT_NAME) or m_path(p, ROOT_NAME))]


def lim_near(rng, root, what):
    """a limit near an actual figure of the tree, so boundaries are hit"""
    dirs = [n for n in root.walk() if n.kind == "d"]
    d = rng.choice(dirs)
    if what == "max_files":
        base = sum(1 for c in d.children if c.kind == "f")
    elif what == "max_dirs":
        base = sum(1 for c in d.children if c.kind == "d")
    else:
        base = d.path.count("/")
    return max(0, base + rng.choice([-2, -1, -1, 0, 0, 0, 1, 1, 2, 3]))


def gen_level(rng, root, d, force_limit=False):
    """limit + warn fields of one level (global dict or rule dict)"""
    for k in Cfg.LIMS:
        r = rng.random()
        if r < (0.75 if force_limit else 0.45):
            d[k] = rng.choice([lim_near(rng, root, k)] * 6 + [-1, 0, 12, 100])
    if rng.random() < 0.4:
        d["warn_threshold"] = rng.choice(THRESH)
    for w, m in (("warn_files_at", "max_files"), ("warn_dirs_at", "max_dirs")):
        if rng.random() < 0.45:
            mx = d.get(m)
            if mx is not None and mx > 0:
                d[w] = rng.randint(max(0, mx - 3), mx - 1)
            elif mx is None or mx == -1:
                d[w] = rng.randint(0, 6)
    for w in ("warn_files_threshold", "warn_dirs_threshold"):
        if rng.random() < 0.25:
            d[w] = rng.choice(THRESH)


def with_dups(rng, lst):
    """the same list with repeated entries (arrays of an extended config are appended to the inherited ones): copies are
    inserted before, between and after the other entries, so first-match indices and index -> string lookups are exercised"""
    out = list(lst)
    if out and rng.random() < 0.45:
        for _ in range(rng.randint(1, 2)):
            out.insert(rng.randint(0, len(out)), rng.choice(lst))
    return out


def gen_rule_lists(rng, r, mode=None):
    mode = mode or rng.choice(["allow", "allow", "deny", "deny", "naming", "mixed-bad"])
    if mode in ("allow", "mixed-bad"):
        for k, pool in (("allow_extensions", EXTS), ("allow_patterns", FILE_PATS + ["t/**/*.rs", "**/src/*"]), ("allow_files", FILE_PATS), ("allow_dirs", DIR_PATS)):
            if rng.random() < 0.45:
                r[k] = with_dups(rng, rng.sample(pool, rng.randint(1, 3)))
    if mode in ("deny", "mixed-bad"):
        for k, pool in (("deny_extensions", EXTS), ("deny_patterns", FILE_PATS[:-1] + ["t/**/*.bin", "**/gen/*"]), ("deny_files", FILE_PATS[:-1]), ("deny_dirs", DIR_PATS[:-1])):
            if rng.random() < 0.45:
                r[k] = with_dups(rng, rng.sample(pool, rng.randint(1, 3)))
    if mode == "naming" or rng.random() < 0.3:
        r["file_naming_pattern"] = rng.choice(NAMING)


def gen_siblings(rng):
    out = []
    for _ in range(rng.randint(1, 2)):
        if rng.random() < 0.5:
            req = rng.sample(["{stem}.test.tsx", "{stem}.module.css", "{stem}.md", "{stem}_test.rs", "test_{stem}.rs", "{stem}.{stem}", "sub/{stem}.rs", "./{stem}.tsx"], rng.randint(1, 2))
            out.append({"kind": "directed", "match": rng.choice(["*.tsx", "*.rs", "Button*", "k?.rs", "*", "[A-Z]*.tsx", "*.test.tsx"]),
                        "require": req, "require_list": len(req) > 1 or rng.random() < 0.3, "warn": rng.random() < 0.3})
        else:
            grp = rng.choice([["{stem}.tsx", "{stem}.test.tsx"], ["{stem}.tsx", "{stem}.test.tsx", "{stem}.module.css"],
                              ["{stem}.rs", "{stem}.md"], ["k{stem}.rs", "{stem}.py"], ["{stem}.tsx", "{stem}.{stem}"], ["{stem}", "{stem}.rs"],
                              ["{stem}.tsx", "__tests__/{stem}.test.tsx"], ["{stem}.rs", "tests/{stem}.rs", "./{stem}.md"]])
            out.append({"kind": "group", "group": grp, "warn": rng.random() < 0.3})
    return out


def inject_dotfile_siblings(rng, root, cfg):
    """put dotfile-like names into 1-3 directories, for each with or without the companion that
    { match = <name>, require = "{stem}.example" } derives through Path::file_stem, and add the directed rule"""
    dirs = [n for n in root.walk() if n.kind == "d" and len(n.children) <= 9]
    if not dirs:
        return
    picked = rng.sample(dirs, min(len(dirs), rng.randint(1, 3)))
    targets = rng.sample(sorted(DOT_TARGETS), rng.randint(1, 3))
    for d in picked:
        have = {c.name for c in d.children}
        for t in targets:
            if len(d.children) >= 11:
                break
            comp = DOT_TARGETS[t]
            if t not in have:
                n = Node(t, "f"); n.parent = d; d.children.append(n); have.add(t)
            r = rng.random()
            if r < 0.5 and comp not in have:
                n = Node(comp, "f"); n.parent = d; d.children.append(n); have.add(comp)
            elif r < 0.6:
                # a decoy: the name a wrong stem rule would derive (text before the last dot + .example)
                wrong = (t.rsplit(".", 1)[0] if "." in t else t) + ".example"
                if wrong not in have and wrong != comp and wrong != ".example":
                    n = Node(wrong, "f"); n.parent = d; d.children.append(n); have.add(wrong)
    assign_paths(root)
    scope = rng.choice(["**", "t/**", rng.choice(picked).path, "**/" + rng.choice(picked).name] if True else [])
    sibs = []
    for t in targets:
        sibs.append({"kind": "directed", "match": rng.choice([t, t, ".*", "*"]), "require": ["{stem}.example"],
                     "require_list": rng.random() < 0.3, "warn": rng.random() < 0.3})
    cfg.rules.append({"scope": scope, "siblings": sibs[:2] if len(sibs) > 2 and rng.random() < 0.5 else sibs})


NESTED_GROUPS = [(["{stem}.tsx", "__tests__/{stem}.test.tsx"], ["Button", "Icon", "Card", "Nav"], ".tsx", "__tests__", ".test.tsx"),
                 (["{stem}.rs", "tests/{stem}_test.rs"], ["alpha", "beta", "gamma"], ".rs", "tests", "_test.rs"),
                 (["{stem}.py", "sub/deep/{stem}.md", "{stem}.json"], ["one", "two", "three"], ".py", "sub/deep", ".md")]


def inject_nested_groups(rng, root, cfg):
    """a group rule one of whose member templates contains a path separator (the member lives in a sub-directory of
    the component directory: __tests__/{stem}.test.tsx): in 1-3 directories put components whose nested member exists
    (complete group: nothing to report), components without it (incomplete), and nested members without a component"""
    dirs = [n for n in root.walk() if n.kind == "d" and len(n.children) <= 8 and n.path.count("/") <= 5]
    if not dirs:
        return
    grp, stems, ext, sub, subext = rng.choice(NESTED_GROUPS)
    picked = rng.sample(dirs, min(len(dirs), rng.randint(1, 3)))

    def child(d, name, kind):
        for c_ in d.children:
            if c_.name == name:
                return c_ if c_.kind == kind else None
        if len(d.children) >= 12:
            return None
        n = Node(name, kind)
        n.parent = d
        d.children.append(n)
        return n
    for d in picked:
        for st in rng.sample(stems, rng.randint(1, len(stems))):
            mode = rng.choice(["complete", "complete", "incomplete", "incomplete", "orphan"])
            if mode != "orphan":
                child(d, st + ext, "f")
                if len(grp) > 2 and rng.random() < 0.7:
                    child(d, st + ".json", "f")
            if mode != "incomplete":
                cur = d
                for comp in sub.split("/"):
                    cur = child(cur, comp, "d") if cur is not None else None
                if cur is not None:
                    child(cur, st + subext, "f")
    assign_paths(root)
    d0 = rng.choice(picked)
    scope = rng.choice(["**", ROOT_NAME + "/**", d0.path, d0.path, "**/" + d0.name, d0.path + "/**"])
    sibs = [{"kind": "group", "group": list(grp), "warn": rng.random() < 0.3}]
    if rng.random() < 0.3:
        sibs.append({"kind": "directed", "match": "*" + ext, "require": [grp[1]], "require_list": rng.random() < 0.3, "warn": rng.random() < 0.3})
    cfg.rules.append({"scope": scope, "siblings": sibs})


def gen_cfg(rng, root, flavour):
    cfg = Cfg()
    pool = scope_pool(rng, root)
    gen_excludes(rng, cfg, root)
    if flavour == "probe":
        cfg.g = {"max_files": 0, "max_dirs": 0, "max_depth": 0}
        for _ in range(rng.randint(0, 2)):
            cfg.rules.append({"scope": rng.choice(pool), "relative_depth": rng.random() < 0.5})
        if rng.random() < 0.4:
            rr = gen_relative_rule(rng, root)
            if rr:
                rr.pop("warn_threshold", None)
                cfg.rules.append(rr)
        return cfg
    if flavour in ("limits", "mix"):
        gen_level(rng, root, cfg.g, force_limit=True)
        for _ in range(rng.choice([0, 1, 2, 2, 3, 4])):
            r = {"scope": rng.choice(pool)}
            gen_level(rng, root, r)
            if rng.random() < 0.35:
                r["relative_depth"] = True
            cfg.rules.append(r)
        if rng.random() < 0.4:
            rr = gen_relative_rule(rng, root)
            if rr:
                cfg.rules.insert(rng.randint(0, len(cfg.rules)), rr) if rng.random() < 0.3 else cfg.rules.append(rr)
    if flavour in ("placement", "mix"):
        gm = rng.choice(["none", "allow", "deny", "deny", "deny"])
        if gm == "allow":
            for k, pl in (("allow_extensions", EXTS), ("allow_files", FILE_PATS), ("allow_dirs", DIR_PATS)):
                if rng.random() < 0.5:
                    cfg.lists[k] = with_dups(rng, rng.sample(pl, rng.randint(1, 4)))
        elif gm == "deny":
            for k, pl in (("deny_extensions", EXTS), ("deny_patterns", FILE_PATS[:-1] + ["**/node_modules/", "**/gen/", "tmpd/", "t/**/*.bin", "**/d?/"]),
                          ("deny_files", FILE_PATS[:-1]), ("deny_dirs", DIR_PATS[:-1])):
                if rng.random() < 0.5:
                    cfg.lists[k] = with_dups(rng, rng.sample(pl, rng.randint(1, 3)))
        nr = rng.choice([0, 1, 2, 2, 3, 4])
        for i in range(nr):
            if flavour == "mix" and i < len(cfg.rules) and rng.random() < 0.6:
                r = cfg.rules[i]
            else:
                r = {"scope": rng.choice(pool)}
                cfg.rules.append(r)
            if rng.random() < 0.85:
                gen_rule_lists(rng, r, rng.choice(["allow", "allow", "deny", "deny", "naming"]))
    if flavour in ("siblings", "mix") and (flavour == "siblings" or rng.random() < 0.4):
        for _ in range(rng.randint(1, 2)):
            r = {"scope": rng.choice(pool), "siblings": gen_siblings(rng)}
            if rng.random() < 0.3:
                r["max_files"] = rng.choice([-1, 5, 20])
            cfg.rules.append(r)
    if flavour in ("siblings", "mix") and rng.random() < (0.5 if flavour == "siblings" else 0.2):
        inject_dotfile_siblings(rng, root, cfg)
    if flavour in ("siblings", "mix") and cfg.rules and rng.random() < 0.4:
        # a rule declared AFTER the sibling rules whose scope overlaps theirs (same scope, a directory below it, or a
        # catch-all): it supersedes them as a whole where it matches (fixes/D81), with or without sibling entries of its own
        prev = [r_ for r_ in cfg.rules if r_.get("siblings")]
        sc = rng.choice(pool)
        if prev and rng.random() < 0.6:
            ps = rng.choice(prev)["scope"]
            below = [n.path for n in root.walk() if n.kind == "d"]
            sc = rng.choice([ps, "**", ROOT_NAME + "/**", rng.choice(below), rng.choice(below) + "/**"])
        late = {"scope": sc}
        k_ = rng.random()
        if k_ < 0.5:
            late["max_files"] = rng.choice([-1, 50, 100])
        elif k_ < 0.8:
            late["siblings"] = gen_siblings(rng)
        cfg.rules.append(late)
    if flavour in ("siblings", "mix") and rng.random() < (0.45 if flavour == "siblings" else 0.15):
        inject_nested_groups(rng, root, cfg)
    if len(cfg.rules) > 1 and rng.random() < 0.3:
        rng.shuffle(cfg.rules)
    return cfg


def gen_bad_cfg(rng, root):
    """configurations StructureChecker::new must reject (malformed stream)"""
    cfg = gen_cfg(rng, root, rng.choice(["limits", "placement", "siblings"]))
    k = rng.random()
    if k < 0.3:
        tgt = cfg.g if (not cfg.rules or rng.random() < 0.5) else rng.choice(cfg.rules)
        tgt[rng.choice(Cfg.LIMS)] = rng.choice([-2, -5, -100])
    elif k < 0.6:
        if cfg.rules and rng.random() < 0.6:
            r = rng.choice(cfg.rules)
            for q in Cfg.RLISTS:
                r.pop(q, None)
            r["allow_extensions"] = [".rs"]
            r[rng.choice(["deny_extensions", "deny_files", "deny_dirs", "deny_patterns"])] = ["*.x"] if rng.random() < 0.5 else [".x"]
        else:
            cfg.lists["allow_files"] = ["*.rs"]
            cfg.lists[rng.choice(["deny_files", "deny_dirs", "deny_patterns"])] = ["*.x"]
    else:
        bad = rng.choice([{"kind": "directed", "match": "", "require": ["{stem}.x"]},
                          {"kind": "directed", "match": "*.rs", "require": ["nostem.x"]},
                          {"kind": "directed", "match": "*.rs", "require": [], "require_list": True},
                          {"kind": "directed", "match": "*.rs", "require": [""], "require_list": True},
                          {"kind": "group", "group": ["{stem}.a"]},
                          {"kind": "group", "group": ["{stem}.a", "b"]},
                          {"kind": "group", "group": ["{stem}.a", ""]}])
        cfg.rules.append({"scope": "**", "siblings": [bad]})
    return cfg


# --------------------------------------------------------------------------- running cases
import concurrent.futures as _cf
import hashlib as _hl


def prepare_structure(ctx):
    bins = cargo_build(["sgv-structure", "sgcli"])
    ok, log = coq_make(["Structure/Run.vo", "Extract/ExtractStructure.vo"])
    if not ok:
        raise CheckBroken("coq model build failed:\n" + log[-3000:])
    model = ocaml_build("structure_drv", ["structure_ex"])
    return bins["sgv-structure"], bins["sgcli"], model


def new_case(rng, flavour, backend=None, bad=False):
    root = gen_tree(rng, budget=rng.choice([12, 25, 40, 70]))
    gis = add_gitignores(rng, root) if rng.random() < 0.6 else []
    if rng.random() < 0.3:
        top = add_top_gitignore(rng, root)
        if top:
            gis.append(top)
    cfg = gen_bad_cfg(rng, root) if bad else gen_cfg(rng, root, flavour)
    if not bad:
        # keep the valid stream valid for config/validation.rs (warn_at < max at the same level)
        for d in [cfg.g] + cfg.rules:
            for w, m in (("warn_files_at", "max_files"), ("warn_dirs_at", "max_dirs")):
                if d.get(w) is not None and d.get(m) is not None and d[m] >= 0 and d[w] >= d[m]:
                    if d[m] == 0:
                        d.pop(w)
                    else:
                        d[w] = d[m] - 1
        # allow/deny exclusivity per level
        for r in cfg.rules:
            if any(r.get(k) for k in ("allow_extensions", "allow_patterns", "allow_files", "allow_dirs")):
                for k in ("deny_extensions", "deny_patterns", "deny_files", "deny_dirs"):
                    r.pop(k, None)
        if any(cfg.lists[k] for k in ("allow_extensions", "allow_files", "allow_dirs")):
            for k in ("deny_extensions", "deny_patterns", "deny_files", "deny_dirs"):
                cfg.lists[k] = []
    c = {"root": root, "gis": gis, "cfg": cfg, "backend": backend or rng.choice(["walkdir", "ignore"]),
         "flavour": "bad" if bad else flavour, "bad": bad, "perm_seed": rng.getrandbits(32),
         "spell": rng.choice(["", "", "./"]), "roots": None}
    if not bad and rng.random() < 0.22:
        c["roots"] = gen_roots(rng, root, c["spell"])
    return c


ROOT_SPELLINGS = {"plain": "%s", "dot": "./%s", "slash": "%s/", "dotslash": "./%s/", "slashdot": "%s/.", "abs": "%s"}


def gen_roots(rng, root, sp):
    """a request of several scan roots that all lie at or below t (fixes/D50): other spellings of t itself, directories
    and files below it, repeated entries.  The FIRST spelling of t in the list is sp+t (the one that must survive, so the
    walked paths are spelled as in the single-root run); entries are (kind, project-relative path)."""
    first = ("dot" if sp else "plain", ROOT_NAME)
    below = [n for n in root.walk() if n is not root and n.kind in ("d", "f")]
    roots = [first]
    for _ in range(rng.randint(1, 3)):
        if rng.random() < 0.3 or not below:
            e = (rng.choice(["plain", "dot", "slash", "dotslash", "slashdot", "abs"]), ROOT_NAME)
            roots.insert(rng.randint(roots.index(first) + 1, len(roots)), e)      # after the designated spelling of t
        else:
            n = rng.choice(below)
            e = (rng.choice(["plain", "plain", "dot", "abs"] + (["slash", "slashdot"] if n.kind == "d" else [])), n.path)
            roots.insert(rng.randint(0, len(roots)), e)
    if rng.random() < 0.25:
        roots.append(rng.choice(roots))                                           # a literal repetition
    return roots


def render_roots(roots, proj=None):
    """library leg: the absolute spelling is only meaningful for the real CLI (the harness process changes its
    directory per case while the normaliser remembers the first one), there it is written plainly"""
    out = []
    for kind, rel in roots:
        if kind == "abs":
            out.append(os.path.join(proj, rel) if proj else rel)
        else:
            out.append(ROOT_SPELLINGS[kind] % rel)
    return out


def case_key(c):
    h = _hl.sha256()
    h.update(c["cfg"].toml().encode())
    h.update((c["backend"] + c.get("spell", "") + repr(c.get("roots"))).encode())
    for n in c["root"].walk():
        h.update(("%s|%s|%s\n" % (n.path, n.kind, n.otype)).encode())
    for d, lines in c["gis"]:
        h.update(((d.path if d is not None else "") + "|" + ";".join(lines)).encode())
    return h.hexdigest()


def _shard(exe, lines, args, env, shards=12, timeout=900):
    n = len(lines)
    if n == 0:
        return []
    size = max(1, (n + shards - 1) // shards)
    chunks = [lines[i:i + size] for i in range(0, n, size)]
    outs = []
    with _cf.ThreadPoolExecutor(max_workers=len(chunks)) as ex:
        for ch, (o, rc, err) in zip(chunks, ex.map(lambda c: run_lines(exe, c, timeout, args, env), chunks)):
            if len(o) < len(ch):
                o = o + ["<NOANSWER rc=%s %s>" % (rc, err[-300:])] * (len(ch) - len(o))
            outs.extend(o)
    return outs


def run_batch(exes, cases, cli_idx=(), explain_dirs=2, rng=None):
    """materialise every case, run library pipeline + model (+ CLI for the indices in cli_idx).
    Fills c['impl'] (harness JSON), c['model'] (decoded outcome), c['cli'] (dict) in place."""
    harness, sgcli, model = exes
    import random as _r
    boxes = []
    home = Sandbox(prefix="sgv-structure-home-")
    try:
        lines = []
        for c in cases:
            sb = Sandbox(prefix="sgv-structure-")
            boxes.append(sb)
            c["toml"] = c["cfg"].toml()
            materialise(sb, c["root"], c["gis"], c["toml"])
            apply_gitignore(c["root"], c["gis"], c["backend"] == "ignore")
            sp = c.setdefault("spell", "")
            lines.append(json.dumps({"proj": sb.proj, "root": sp + ROOT_NAME, "gitignore": c["backend"] == "ignore",
                                     "extra_exclude": [glob(p_) for p_ in c["cfg"].cli_exclude],
                                     **({"roots": render_roots(c["roots"])} if c.get("roots") else {}),
                                     "nodes": [[sp + n.path, n.kind] for n in c["root"].walk()]}))
        env = clean_env(home.home)
        outs = _shard(harness, lines, ["case"], env)
        mlines, midx = [], []
        for i, (c, o) in enumerate(zip(cases, outs)):
            try:
                c["impl"] = json.loads(o)
            except Exception:
                c["impl"] = {"fatal": o[:300]}
            if "oracle" in c["impl"]:
                n = n_entries(c["root"], c["impl"], c["spell"])
                perm = list(range(n))
                _r.Random(c["perm_seed"]).shuffle(perm)
                c["sx"] = case_sx(c["cfg"], c["root"], c["impl"], perm, c["spell"])
                mlines.append("run " + sx_dump(c["sx"]))
                midx.append(i)
            elif "cfg_err" in c["impl"] and c["impl"].get("stage") == "context":
                # rejected by StructureChecker::new: the model only needs the configuration
                dummy = [1, sx_str(ROOT_NAME), cols_sx({"se_name": 0, "se_path": 0, "se_dir": 0, "ce_name": 0, "ce_path": 0, "lim": [],
                                                       "g": [0, 0, None, None, None, None, None, None], "r": [], "sib": []}, False), []]
                c["sx"] = [c["cfg"].sx(), [], dummy, []]
                mlines.append("run " + sx_dump(c["sx"]))
                midx.append(i)
        mouts = _shard(model, mlines, [], None)
        for i, mo in zip(midx, mouts):
            c = cases[i]
            c["model_raw"] = mo
            try:
                c["model"] = decode_outcome(sx_parse(mo), c["cfg"])
            except Exception as e:  # noqa
                c["model"] = None
                c["model_err"] = "%s: %s" % (type(e).__name__, mo[:200])
        # ---- CLI
        def cli(i):
            c, sb = cases[i], boxes[i]
            sp = c["spell"]
            args = ["check"] + (render_roots(c["roots"], sb.proj) if c.get("roots") else [sp + ROOT_NAME]) + ["--format", "json", "--no-sloc-cache", "--color", "never"]
            if c["backend"] == "walkdir":
                args.append("--no-gitignore")
            for p_ in c["cfg"].cli_exclude:
                args += ["-x", glob(p_)]
            rc, out, err = sb.run(sgcli, args, env={"RAYON_NUM_THREADS": "2"})
            res = {"rc": rc, "err": err[-400:], "explain": {}}
            try:
                res["results"] = sorted(((v[0][len(sp):] if sp and v[0].startswith(sp) else v[0],) + v[1:] for v in canon_cli_results(json.loads(out))), key=repr)
            except Exception:
                res["results"] = None
                res["raw"] = out[-400:]
            dirs = [p for p in (c.get("model") or {}).get("explain", {})]
            rr = _r.Random(c["perm_seed"])
            rr.shuffle(dirs)
            for k_, d in enumerate(dirs[:explain_dirs]):
                # explain is asked with either spelling, whatever the scan root's spelling was
                rc2, out2, err2 = sb.run(sgcli, ["explain", ("./" if (k_ + len(dirs)) % 2 else "") + d, "--format", "json", "--color", "never"])
                try:
                    j = json.loads(out2)
                    m = j["matched_rule"]
                    res["explain"][d] = (m.get("index") if m.get("type") == "rule" else None, j["effective_max_files"],
                                         j["effective_max_dirs"], j["effective_max_depth"], f64_bits(j["warn_threshold"]))
                except Exception:
                    res["explain"][d] = ("ERR", rc2, (out2 + err2)[-200:])
            return i, res
        if cli_idx:
            with _cf.ThreadPoolExecutor(max_workers=12) as ex:
                for i, res in ex.map(cli, list(cli_idx)):
                    cases[i]["cli"] = res
    finally:
        for sb in boxes:
            sb.close()
        home.close()


# --------------------------------------------------------------------------- evaluation of one case
LIMIT_KINDS = ("file_count", "dir_count", "max_depth")


def describe(c):
    """everything needed to rebuild the case (replay files, samples)"""
    return {"toml": c["cfg"].toml(), "cli_exclude": [glob(p_) for p_ in c["cfg"].cli_exclude], "backend": c["backend"], "flavour": c["flavour"],
            "nodes": [[n.path, n.kind, n.otype] for n in c["root"].walk()],
            "gitignores": [[d.path if d is not None else "", lines] for d, lines in c["gis"]], "perm_seed": c["perm_seed"], "spell": c.get("spell", ""),
            "roots": [list(r_) for r_ in c["roots"]] if c.get("roots") else None}


def rebuild(desc, cfg):
    """inverse of describe (cfg is not reconstructible from TOML here: replays carry a pickled cfg too)"""
    by = {}
    root = None
    for p, k, ot in desc["nodes"]:
        n = Node(p.split("/")[-1], k, ot)
        by[p] = n
        if "/" in p:
            par = by[p.rsplit("/", 1)[0]]
            n.parent = par
            par.children.append(n)
        else:
            root = n
    assign_paths(root)
    gis = [(by[p] if p else None, lines) for p, lines in desc["gitignores"]]
    return {"root": root, "gis": gis, "cfg": cfg, "backend": desc["backend"], "flavour": desc["flavour"], "bad": desc["flavour"] == "bad",
            "perm_seed": desc["perm_seed"], "spell": desc.get("spell", ""),
            "roots": [tuple(r_) for r_ in desc["roots"]] if desc.get("roots") else None}


def diff_list(a, b):
    return {"impl_only": [x for x in a if x not in b][:6], "other_only": [x for x in b if x not in a][:6]}


def last_matching(rules, column):
    """[(index, rule)] of the last declared rule whose scope matches (column = the directory's scope answers), or []"""
    hit = [i for i, b in enumerate(column) if b and i < len(rules)]
    return [(hit[-1], rules[hit[-1]])] if hit else []


def evaluate(c):
    """-> dict: corr (model vs impl mismatches per component), prop (property-oracle failures per component),
    tags (what the case exercised)"""
    r = {"corr": {}, "prop": {}, "tags": set(), "skip": None}
    impl = c["impl"]
    if "fatal" in impl:
        r["skip"] = "harness: " + str(impl["fatal"])[:200]
        return r
    m = c.get("model")
    if "cfg_err" in impl:
        if impl["stage"] == "context":
            r["tags"].add("rejected-config")
            if m is None or m["ok"]:
                r["corr"]["config_ok"] = {"impl": impl["cfg_err"][:200], "model": "accepted" if m else c.get("model_err")}
            if not c["bad"]:
                r["prop"]["valid-config-rejected"] = impl["cfg_err"][:300]
        else:
            r["skip"] = "config rejected before StructureChecker::new (%s): %s" % (impl["stage"], impl["cfg_err"][:200])
        return r
    if c["bad"]:
        r["prop"]["invalid-config-accepted"] = "StructureChecker::new accepted a configuration it must reject"
    if m is None:
        r["corr"]["model"] = c.get("model_err", "no model output")
        return r
    if not m["ok"]:
        r["corr"]["config_ok"] = {"impl": "accepted", "model": "rejected"}
        return r
    sp = c.get("spell", "")
    d = decode_impl(impl, sp)
    c["dimpl"] = d
    # ---- every site answers the scope question alike: harness column (scope glob on the normalised path),
    #      AllowlistRule::matches_directory (placement site), explain's rule chain (limit site)
    sites = {}
    lit_bad = []
    META = set("*?[{")
    for n in c["root"].walk():
        if n.kind != "d":
            continue
        o_ = impl["oracle"][sp + n.path]
        if impl["scan_enabled"] and o_["plc"] != o_["lim"]:
            sites[n.path] = {"column": o_["lim"], "placement_site": o_["plc"]}
        e_ = impl["explain"].get(sp + n.path)
        if e_ is not None:
            if e_["chain"] != o_["lim"]:
                sites[n.path] = {"column": o_["lim"], "limit_site": e_["chain"]}
            # the generator's own reading of LITERAL scopes: a literal scope matches exactly the directory whose
            # project-relative path it spells; written with a leading ./ it matches nothing
            for i, r_ in enumerate(c["cfg"].rules):
                s_ = r_["scope"]
                if not (set(s_) & META) and "\\" not in s_ and i < len(e_["chain"]):
                    if e_["chain"][i] != (s_ == n.path):
                        lit_bad.append({"dir": sp + n.path, "rule": i, "scope": s_, "impl_matches": e_["chain"][i], "expected": s_ == n.path})
    if impl["scan_enabled"] and impl["rp"] != impl["rl"]:
        sites["<root parent>"] = {"column": impl["rl"], "placement_site": impl["rp"]}
    if sites:
        r["corr"]["scope-sites"] = sites
    if lit_bad:
        r["prop"]["scope-spelling"] = lit_bad[:6]
    if c.get("roots"):
        r["tags"].add("multi-root")
        # every requested root is t or lies below it: exactly the first spelling of t is walked (fixes/D50)
        if impl.get("walked") != [sp + ROOT_NAME]:
            r["prop"]["roots"] = {"requested": render_roots(c["roots"]), "walked": impl.get("walked"), "expected": [sp + ROOT_NAME]}
    if sp:
        r["tags"].add("root-spelled-dot-slash")
    if any(r_["scope"].startswith("./") for r_ in c["cfg"].rules):
        r["tags"].add("scope-spelled-dot-slash")
    if any(r_["scope"].endswith("/") for r_ in c["cfg"].rules):
        r["tags"].add("scope-with-trailing-separator")
    # ---- correspondence
    for k in ("stats", "placement", "limits", "siblings") + (("files",) if impl["scan_enabled"] else ()):
        if d[k] != m[k]:
            if isinstance(d[k], dict):
                r["corr"][k] = {p: {"impl": d[k].get(p), "model": m[k].get(p)} for p in sorted(set(d[k]) | set(m[k])) if d[k].get(p) != m[k].get(p)}
            else:
                r["corr"][k] = diff_list(d[k], m[k])
    bad = {p: {"impl": d["explain"].get(p), "model": e} for p, e in m["explain"].items() if d["explain"].get(p) != e}
    if bad:
        r["corr"]["explain"] = bad
    # ---- property oracles on the implementation
    if impl["scan_enabled"]:
        exp = expected_stats(c["cfg"], c["root"])
        if exp != d["stats"]:
            r["prop"]["counts"] = {p: {"true": exp.get(p), "impl": d["stats"].get(p)} for p in sorted(set(exp) | set(d["stats"])) if exp.get(p) != d["stats"].get(p)}
    if d["limits"] != m["spec_limits"]:
        r["prop"]["limits"] = diff_list(d["limits"], m["spec_limits"])
    if d["placement"] != m["spec_placement"]:
        r["prop"]["placement"] = diff_list(d["placement"], m["spec_placement"])
    # no entry, file or directory (fixes/D48), is reported twice by the placement lists, and nothing but an entry of the tree
    seen = {}
    known = {n.path for n in c["root"].walk()}
    for v in d["placement"]:
        seen[v[0]] = seen.get(v[0], 0) + 1
    twice = [p for p, k in seen.items() if k > 1]
    if twice:
        r["prop"]["file-reported-twice"] = twice[:5]
    stray = [p for p in seen if p not in known]
    if stray:
        r["prop"]["file-reported-twice"] = (r["prop"].get("file-reported-twice") or []) + ["not an entry: " + p for p in stray[:5]]
    # count_exclude never exempts an entry from placement (fixes/D49), the generator's own reading for the plainest list:
    # a scanned, count-excluded file whose extension is on the global deny_extensions list is reported unless the consulted
    # rule has an allowlist
    if impl["scan_enabled"] and c["cfg"].lists["deny_extensions"] and not any(c["cfg"].lists[k_] for k_ in ("allow_extensions", "allow_files", "allow_dirs")):
        dexts = set(c["cfg"].lists["deny_extensions"])
        rep = {v[0] for v in d["placement"]}
        missing = []
        for n in c["root"].walk():
            if n.kind != "f" or n.ign or n.path not in d["files"]:
                continue
            o_ = impl["oracle"][sp + n.path]
            if not (o_["ce_name"] or o_["ce_path"]):
                continue
            k_ = n.name.rfind(".")
            ext = n.name[k_:] if k_ > 0 else None
            if ext in dexts and n.path not in rep:
                po = impl["oracle"].get(sp + n.parent.path)
                consulted = [i_ for i_, b_ in enumerate(po["lim"]) if b_] if po else []
                if consulted and any(c["cfg"].rules[consulted[-1]].get(k2) for k2 in ("allow_extensions", "allow_patterns", "allow_files")):
                    continue
                missing.append(n.path)
        if missing:
            r["prop"]["count-excluded-not-placed"] = missing[:5]
    # directed sibling rules, by the generator's own reading: a scanned file that the rule's file matcher accepts, in a
    # directory the rule's scope matches, needs parent/<template with {stem} := std file_stem> among the scanned files
    if impl["checker_enabled"]:
        def py_stem(nm):
            if nm == "..":
                return nm
            k = nm.rfind(".")
            return nm if k <= 0 else nm[:k]

        def joinp(parent, nm):
            if nm.startswith("/"):
                return None
            return "/".join(parent.split("/") + [x for x in nm.split("/") if x not in ("", ".")])
        fset = set(d["files"])
        want = []
        for f in d["files"]:
            parent, nm = f.rsplit("/", 1)
            po, fo = impl["oracle"].get(sp + parent), impl["oracle"].get(sp + f)
            if po is None or fo is None:
                continue
            # fixes/D81: the sibling entries consulted are those of the LAST declared rule whose scope matches the directory
            # (the rule explain names); they do not accumulate over the other matching rules
            for i, r_ in last_matching(c["cfg"].rules, po["lim"]):
                for k, sb_ in enumerate(r_.get("siblings", [])):
                    if sb_["kind"] != "directed" or not fo["sib"][i][k]:
                        continue
                    for t in sb_["require"]:
                        if joinp(parent, t.replace("{stem}", py_stem(nm))) not in fset:
                            want.append((f, "missing_sibling", t, 1, 1, bool(sb_.get("warn")), r_["scope"]))
        got = [v for v in d["siblings"] if v[1] == "missing_sibling"]
        if sorted(want, key=repr) != sorted(got, key=repr):
            r["prop"]["directed-sibling"] = diff_list(sorted(got, key=repr), sorted(want, key=repr))
        # group rules, by the generator's own reading: a scanned file that is a member of the group for some stem (its NAME
        # fits a member template: text before {stem} is a prefix, text after it a suffix, something in between) is reported
        # iff for every such stem some member parent/<template with that stem> is not among the scanned files; a member
        # template may contain a separator (__tests__/{stem}.test.tsx: the member lives below the directory). The report
        # lists the templates missing for the stem that leaves fewest missing (the first such stem)
        def py_extract(nm, pat):
            parts = pat.split("{stem}")
            if len(parts) != 2:
                return None
            pre, suf = parts
            if not nm.startswith(pre) or not nm.endswith(suf) or len(pre) >= len(nm) - len(suf):
                return None
            return nm[len(pre):len(nm) - len(suf)]
        wantg = []
        for f in d["files"]:
            parent, nm = f.rsplit("/", 1)
            po = impl["oracle"].get(sp + parent)
            if po is None:
                continue
            for i, r_ in last_matching(c["cfg"].rules, po["lim"]):
                for sb_ in r_.get("siblings", []):
                    if sb_["kind"] != "group":
                        continue
                    stems = [x for x in (py_extract(nm, t) for t in sb_["group"]) if x is not None]
                    if not stems:
                        continue
                    miss = [[t for t in sb_["group"] if joinp(parent, t.replace("{stem}", st)) not in fset] for st in stems]
                    best = min(miss, key=len)
                    if best:
                        wantg.append((f, "group_incomplete", tuple(best), 1, 1, bool(sb_.get("warn")), r_["scope"]))
                    if any("/" in t.strip("./") for t in sb_["group"]):
                        r["tags"].add("group-member-in-subdirectory:" + ("incomplete" if best else "complete"))
        gotg = [v for v in d["siblings"] if v[1] == "group_incomplete"]
        if sorted(wantg, key=repr) != sorted(gotg, key=repr):
            r["prop"]["group-sibling"] = diff_list(sorted(gotg, key=repr), sorted(wantg, key=repr))
    # the rule consulted is the one explain names for the parent directory (implementation vs implementation)
    if impl["checker_enabled"]:
        for v in d["placement"] + d["siblings"]:
            if v[6] in (None, "global"):
                continue
            parent = v[0].rsplit("/", 1)[0] if "/" in v[0] else None
            e = d["explain"].get(parent)
            if e is None:
                continue
            named = c["cfg"].rules[e[0]]["scope"] if e[0] is not None else None
            if named != v[6]:
                r["prop"].setdefault("rule-consulted", []).append({"entry": v[0], "triggering_rule": v[6], "explain_names": named})
    # ---- CLI
    if "cli" in c:
        cl = c["cli"]
        allv = sorted(d["placement"] + d["limits"] + d["siblings"], key=repr)
        if cl["results"] is None or cl["rc"] not in (0, 1):
            r["corr"]["cli-run"] = {"rc": cl["rc"], "stderr": cl["err"], "raw": cl.get("raw")}
        elif cl["results"] != allv:
            r["corr"]["cli"] = diff_list(cl["results"], allv)
        for p, e in cl["explain"].items():
            if e != m["explain"].get(p):
                r["corr"].setdefault("cli-explain", {})[p] = {"cli": e, "model": m["explain"].get(p)}
        r["tags"].add("cli")
    # ---- tags
    tg = r["tags"]
    cfg = c["cfg"]
    tg.add("backend:" + c["backend"])
    if any(n.ign for n in c["root"].walk()):
        tg.add("ignored-entries")
    if any(d_ is None for d_, _l in c["gis"]) and c["backend"] == "ignore":
        tg.add("gitignore-above-scan-root")
    o = impl["oracle"]
    if c["cfg"].cli_exclude:
        tg.add("cli-exclude")
    if any(glob(p_).startswith("./") for p_ in c["cfg"].eff_scanner_exclude() + c["cfg"].count_exclude):
        tg.add("exclude-spelled-dot-slash")
    if any(v["se_name"] or v["se_path"] or v["se_dir"] for v in o.values()):
        tg.add("scanner-excluded")
    if any(v["ce_name"] or v["ce_path"] for v in o.values()):
        tg.add("count-excluded")
    if any(v["ce_path"] and not v["ce_name"] for v in o.values()) and not any("/" in glob(p_) for p_ in c["cfg"].count_exclude):
        tg.add("count-excluded-by-path-with-separator-free-patterns")
    if any(n.kind == "o" for n in c["root"].walk()):
        tg.add("non-regular")
    if any(n.kind == "d" and not n.children for n in c["root"].walk()):
        tg.add("empty-dir")
    if any(n.kind == "d" and not n.children and not n.ign and (o[sp + n.path]["ce_name"] or o[sp + n.path]["ce_path"]) and n.path in d["stats"] for n in c["root"].walk()):
        tg.add("count-excluded-empty-dir")
    if any(n.name.startswith(".") for n in c["root"].walk()):
        tg.add("hidden")
    if any(sum(v["lim"]) >= 2 for v in o.values() if v["lim"]):
        tg.add("overlapping-rules")
    for v in o.values():
        hit = [i_ for i_, b_ in enumerate(v["lim"] or []) if b_ and i_ < len(cfg.rules)]
        if len(hit) >= 2 and any(cfg.rules[i_].get("siblings") for i_ in hit[:-1]):
            tg.add("superseded-rule-with-sibling-entries")
            break
    if any(any(v["lim"]) for v in o.values() if v["lim"]):
        tg.add("rule-matched")
    if any(r_.get("relative_depth") for r_ in cfg.rules):
        tg.add("relative-depth")
    import re as _re
    if any(r_.get("relative_depth") and any(_re.search(r"[*?\[{]", x) and _re.search(r"^[^*?\[{]", x) for x in r_["scope"].split("/")) for r_ in cfg.rules):
        tg.add("relative-depth-partly-glob-component")
    if any(len(set(l_)) < len(l_) for l_ in list(cfg.lists.values()) + [r_.get(k_, []) for r_ in cfg.rules for k_ in Cfg.RLISTS]):
        tg.add("list-with-repeated-entry")
    if any(n.name in DOT_TARGETS for n in c["root"].walk()) and any(s_.get("kind") == "directed" for r_ in cfg.rules for s_ in r_.get("siblings", [])):
        tg.add("directed-sibling-on-dotfile")
    for v in d["limits"]:
        tg.add(("warn:" if v[5] else "fail:") + v[1])
    for v in d["placement"] + d["siblings"]:
        tg.add("v:" + v[1] + (":global" if v[6] == "global" else ":rule"))
    # boundary: some directory within +-1 of an applicable limit
    near = False
    for p, st in d["stats"].items():
        e = d["explain"].get(p)
        if e:
            for val, lim in ((st[0], e[1]), (st[1], e[2]), (st[2], e[3])):
                if lim is not None and lim >= 0 and abs(val - lim) <= 1:
                    near = True
    if near:
        tg.add("boundary")
    return r


def placement_lists_present(cfg):
    return any(cfg.lists[k] for k in Cfg.GLISTS) or any(cfg.has_placement(r) or r.get("siblings") for r in cfg.rules)


# --------------------------------------------------------------------------- checkmap (arbitrary DirStats maps)
MAP_PATHS = ["src", "src/a", "src/a/b", "src/a/b/c", "lib", "lib/x", "tests", "tests/unit/deep", "a/b/c/d/e", ".", "./src", "", "src/gen", "x y/z",
             "./src/a", "./lib", "./tests/unit/deep", "./a/b/c/d/e"]
MAP_SCOPES = ["**", "src", "src/**", "src/*", "src/a/**", "**/a", "lib", "*", "tests/**", "{src,lib}", "{src,lib}/**", "src/?", "./src", "a/b/**",
              "./src/**", "./lib", "./**", "src/a", "lib/x",
              # components that are only partly a glob: in the middle, at the end, with and without /**
              "sr*/**", "src/a*/**", "src/[a]/b/**", "sr?/a/**", "s{rc,rx}/**", "src/a/b*", "tests/un*/**", "tests/uni?/deep", "a/b/c*/**",
              "a/b/[c]/d/**", "a/{b,bb}/c/**", "lib/x*", "li?", "x y/z*", "src/ge[n]", "tests/unit/d*"]


def gen_mapcase(rng):
    cfg = Cfg()
    lev = lambda: {k: v for k, v in (("max_files", rng.choice([None, -1, 0, 1, 2, 5, 10, 50, 1000])), ("max_dirs", rng.choice([None, -1, 0, 1, 3, 10])),
                                     ("max_depth", rng.choice([None, -1, 0, 1, 2, 4, 8]))) if v is not None}
    cfg.g = lev() if rng.random() < 0.8 else {}
    warn = lambda d: d.update({k: v for k, v in (("warn_threshold", rng.choice([None, None] + THRESH + [1.5, -0.5])), ("warn_files_at", rng.choice([None, None, 0, 1, 2, 4, 9, 40, 60])),
                                                 ("warn_dirs_at", rng.choice([None, None, 0, 1, 2, 5, 20])), ("warn_files_threshold", rng.choice([None, None, None] + THRESH)),
                                                 ("warn_dirs_threshold", rng.choice([None, None, None] + THRESH))) if v is not None})
    warn(cfg.g)
    for _ in range(rng.choice([0, 1, 2, 3, 4])):
        r = {"scope": rng.choice(MAP_SCOPES)}
        if rng.random() < 0.8:
            r.update(lev())
        if rng.random() < 0.6:
            warn(r)
        if rng.random() < 0.4 or (set(r["scope"]) & set("*?[{") and not r["scope"].startswith(("*", "{", "./")) and rng.random() < 0.6):
            r["relative_depth"] = True
            if r.get("max_depth") is None and rng.random() < 0.7:
                r["max_depth"] = rng.choice([0, 1, 2, 3])
        cfg.rules.append(r)
    if rng.random() < 0.06:
        (cfg.g if not cfg.rules or rng.random() < 0.5 else rng.choice(cfg.rules))[rng.choice(Cfg.LIMS)] = rng.choice([-2, -7])
    # figures around every limit and warn point that can apply
    points = {0, 1}
    for d in [cfg.g] + cfg.rules:
        for k in Cfg.LIMS:
            if d.get(k) is not None and d[k] >= 0:
                points |= {d[k] - 1, d[k], d[k] + 1}
                for t in ("warn_threshold", "warn_files_threshold", "warn_dirs_threshold"):
                    if d.get(t) is not None and 0 <= d[t] <= 2:
                        import math
                        w = math.ceil(d[k] * d[t])
                        points |= {w - 1, w, w + 1}
        for k in ("warn_files_at", "warn_dirs_at"):
            if d.get(k) is not None:
                points |= {d[k] - 1, d[k], d[k] + 1}
    pts = sorted(p for p in points if p >= 0)
    # depths around every relative limit: limit + (number of leading scope components, all or all but one) + {0,1,2}
    dpts = set(pts)
    for d in cfg.rules:
        if d.get("relative_depth") and d.get("max_depth") is not None and d["max_depth"] >= 0:
            nc = len([x for x in d["scope"].split("/") if x])
            for b in range(0, nc + 1):
                dpts |= {d["max_depth"] + b, d["max_depth"] + b + 1, d["max_depth"] + b + 2}
    dpts = sorted(dpts)
    stats = []
    for p in rng.sample(MAP_PATHS, rng.randint(1, 6)):
        stats.append([p, rng.choice(pts), rng.choice(pts), rng.choice(dpts if rng.random() < 0.6 else pts)])
    return {"cfg": cfg, "stats": stats}


def run_mapcases(exes, mcs):
    harness, _, model = exes
    lines = [json.dumps({"toml": m["cfg"].toml(), "stats": m["stats"]}) for m in mcs]
    outs = _shard(harness, lines, ["checkmap"], None)
    mlines, idx = [], []
    for i, (m, o) in enumerate(zip(mcs, outs)):
        try:
            m["impl"] = json.loads(o)
        except Exception:
            m["impl"] = {"fatal": o[:200]}
        sc = m["impl"].get("scopes")
        rows = []
        for s in m["stats"]:
            comps = [x for x in s[0].split("/")] if s[0] != "" else []
            rows.append([[sx_str(x) for x in comps], s[1], s[2], s[3], [sx_bool(b) for b in (sc[s[0]] if sc else [])]])
        m["sx"] = [m["cfg"].sx(), rows]
        mlines.append("checkmap " + sx_dump(m["sx"]))
        idx.append(i)
    mouts = _shard(model, mlines, [], None)
    for i, mo in zip(idx, mouts):
        mcs[i]["model_raw"] = mo
    return mcs


def eval_mapcase(m):
    r = {"corr": {}, "prop": {}, "tags": set()}
    impl = m["impl"]
    try:
        sx = sx_parse(m["model_raw"])
    except Exception:
        r["corr"]["model"] = m.get("model_raw", "")[:200]
        return r
    if "fatal" in impl:
        r["corr"]["harness"] = impl["fatal"]
        return r
    if "cfg_err" in impl:
        r["tags"].add("rejected-config")
        if impl["stage"] != "checker" or sx != [0]:
            r["corr"]["config_ok"] = {"impl": impl["cfg_err"][:200], "model": sx[:1]}
        return r
    if sx == [0] or sx == [-1]:
        r["corr"]["config_ok"] = {"impl": "accepted", "model": sx}
        return r
    cfg = m["cfg"]
    fix = lambda p: p  # model paths are joined with '/': the empty path and '.' survive as given
    mv = sorted((canon_model_violation(v, cfg, "l") for v in sx[1]), key=repr)
    sv = sorted((canon_model_violation(v, cfg, "l") for v in sx[2]), key=repr)
    iv = sorted((canon_lib_violation(v) for v in impl["limits"]), key=repr)
    if iv != mv:
        r["corr"]["limits"] = diff_list(iv, mv)
    if iv != sv:
        r["prop"]["limits"] = diff_list(iv, sv)
    for e in sx[3]:
        p = dpath(e[0])
        me = ((e[1][0] if e[1] else None), (e[2][0] if e[2] else None), (e[3][0] if e[3] else None), (e[4][0] if e[4] else None), e[5])
        ie = impl["explain"][p]
        mm = ie["matched"]
        it = (mm.get("index") if isinstance(mm, dict) and mm.get("type") == "rule" else None, ie["max_files"], ie["max_dirs"], ie["max_depth"], int(ie["warn_bits"]))
        if it != me:
            r["corr"].setdefault("explain", {})[p] = {"impl": it, "model": me}
    # every site sees the normalised key: harness column == explain's own rule chain, and a LITERAL scope matches
    # exactly the key it spells once one leading ./ is dropped (the generator's own reading)
    META = set("*?[{")
    for p, ie in impl["explain"].items():
        if ie["chain"] != impl["scopes"][p]:
            r["corr"].setdefault("scope-sites", {})[p] = {"column": impl["scopes"][p], "limit_site": ie["chain"]}
        norm = "" if p in (".", "./") else (p[2:] if p.startswith("./") else p)
        for i, r_ in enumerate(cfg.rules):
            s_ = r_["scope"]
            if not (set(s_) & META) and i < len(ie["chain"]) and ie["chain"][i] != (s_ == norm):
                r["prop"].setdefault("scope-spelling", []).append({"key": p, "rule": i, "scope": s_, "impl_matches": ie["chain"][i], "expected": s_ == norm})
        if p.startswith("./") or p == ".":
            r["tags"].add("key-spelled-dot-slash")
    if any(r_["scope"].startswith("./") for r_ in cfg.rules):
        r["tags"].add("scope-spelled-dot-slash")
    for v in iv:
        r["tags"].add(("warn:" if v[5] else "fail:") + v[1])
    if any(sum(s) >= 2 for s in impl["scopes"].values()):
        r["tags"].add("overlapping-rules")
    import re as _re
    for i, r_ in enumerate(cfg.rules):
        if r_.get("relative_depth") and r_.get("max_depth") is not None and any(_re.search(r"[*?\[{]", x) and _re.search(r"^[^*?\[{]", x) for x in r_["scope"].split("/")):
            if any(sc_[i] for sc_ in impl["scopes"].values() if i < len(sc_)):
                r["tags"].add("relative-depth-partly-glob-component-matched")
    return r


# --------------------------------------------------------------------------- resolve_scan_paths on arbitrary requests (fixes/D50)
ROOT_COMPS = ["src", "src-tauri", "src2", "sr", "lib", "a", "b", "x y", "Src", "..", "t", "src.d"]


def gen_rootlist(rng, cwd):
    def one():
        comps = [rng.choice(ROOT_COMPS) for _ in range(rng.choice([0, 1, 1, 1, 2, 2, 3]))]
        if not comps:
            return rng.choice([".", "./", "././", cwd, cwd + "/"])
        rel = "/".join(comps)
        return rng.choice([rel, rel, rel, "./" + rel, rel + "/", rel + "/.", "./" + rel + "//", rel.replace("/", "//"), rel.replace("/", "\\"),
                           cwd + "/" + rel, "/elsewhere/" + rel, cwd + "x/" + rel, cwd + "/./" + rel])
    l = [one() for _ in range(rng.randint(1, 5))]
    if rng.random() < 0.5:
        l.insert(rng.randint(0, len(l)), rng.choice(l))
    if rng.random() < 0.6:
        l.insert(rng.randint(0, len(l)), rng.choice(l).rstrip("/") + "/" + rng.choice(ROOT_COMPS))
    if rng.random() < 0.3:
        b = rng.choice(l).rstrip("/.")
        if b:
            l.insert(rng.randint(0, len(l)), b + rng.choice(["-tauri", "2", ".d", "x"]))     # same string prefix, another component
    return l


def py_root_key(root, cwd):
    """the generator's own reading of normalize_for_matching + the marker of Structure/Roots.v"""
    u = root.replace("\\", "/")
    comps = [x for x in u.split("/") if x not in ("", ".")]
    absolute = u.startswith("/")
    if absolute:
        c = [x for x in cwd.split("/") if x]
        if comps[:len(c)] == c:
            comps, absolute = comps[len(c):], False
    return (["/"] if absolute else ["."]) + comps


def py_kept(keys):
    def covers(o, i):
        return ".." not in o and ".." not in i and i[:len(o)] == o
    return [i for i, ki in enumerate(keys)
            if not any(j != i and covers(kj, ki) and (ki != kj or j < i) for j, kj in enumerate(keys))]


def run_rootcases(exes, rng, n):
    """-> (n, corr mismatches, prop failures, tags)"""
    harness, _, model = exes
    cwd = os.getcwd()
    reqs = [gen_rootlist(rng, cwd) for _ in range(n)]
    outs = _shard(harness, [json.dumps({"roots": r_}) for r_ in reqs], ["roots"], None)
    impls = []
    for o in outs:
        try:
            impls.append(json.loads(o))
        except Exception:
            impls.append({"fatal": o[:200]})
    msx = [[[sx_str(c_) for c_ in k_] for k_ in im.get("keys", [])] for im in impls]
    mlines = ["roots " + sx_dump(x_) for x_ in msx]
    mouts = _shard(model, mlines, [], None)
    run_rootcases.xitems = [("roots", x_, o_) for x_, o_ in list(zip(msx, mouts))[:60]]
    corr, prop, tags = [], [], {}
    for req, im, mo in zip(reqs, impls, mouts):
        if "fatal" in im:
            corr.append({"roots": req, "harness": im["fatal"]})
            continue
        try:
            mk = sx_parse(mo)
        except Exception:
            mk = None
        keys = [py_root_key(r_, cwd) for r_ in req]
        want = py_kept(keys)
        bad = {}
        if im["keys"] != keys:
            bad["keys"] = {"impl": im["keys"], "expected": keys}
        if im["walked"] != want or not im["subsequence"]:
            bad["walked"] = {"impl": im["walked_paths"], "expected": [req[i] for i in want]}
        if bad:
            prop.append({"roots": req, "cwd": cwd, "failed": bad})
        if mk != im["walked"]:
            corr.append({"roots": req, "impl": im["walked"], "model": mk})
        for t_, on in (("dropped-some", len(want) < len(req)), ("kept-several", len(want) > 1), ("parent-component", any(".." in k_ for k_ in keys)),
                       ("absolute-inside-cwd", any(r_.startswith(cwd + "/") or r_ == cwd for r_ in req)), ("absolute-elsewhere", any(k_[0] == "/" for k_ in keys)),
                       ("string-prefix-not-component-prefix", any(a != b and b[-1].startswith(a[-1]) and a[:-1] == b[:-1] and len(a) > 1 and a[-1] != b[-1] for a in keys for b in keys))):
            if on:
                tags[t_] = tags.get(t_, 0) + 1
    return len(reqs), corr, prop, tags


# --------------------------------------------------------------------------- the project root has no name (fixes/D51)
def has_dir_name_lists(cfg):
    return bool(cfg.lists["allow_dirs"] or cfg.lists["deny_dirs"] or cfg.global_deny_dir_patterns()
                or any(r_.get("allow_dirs") or r_.get("deny_dirs") for r_ in cfg.rules))


def run_rootname_leg(exes, cases, k):
    """the tree t of a case made a project of its own (its configuration written into it): `check`, `check .` and
    `check <absolute path>` from inside must give the same structure results, and the root itself is never reported by
    the directory name lists, whatever the directory is called -> (runs, failures)"""
    _, sgcli, _ = exes
    picked = [c for c in cases if not c["bad"] and has_dir_name_lists(c["cfg"])][:k]
    fails, runs = [], 0

    def one(c):
        with Sandbox(prefix="sgv-structure-rn-") as sb:
            materialise(sb, c["root"], c["gis"], c["cfg"].toml())
            proj = os.path.join(sb.proj, ROOT_NAME)
            with open(os.path.join(proj, ".sloc-guard.toml"), "w") as f:
                f.write(c["cfg"].toml())
            res = {}
            for name, extra in (("none", []), ("dot", ["."]), ("abs", [proj]), ("abs-slash", [proj + "/"])):
                args = ["check"] + extra + ["--format", "json", "--no-sloc-cache", "--color", "never"] + ([] if c["backend"] == "ignore" else ["--no-gitignore"])
                rc, out, err = sb.run(sgcli, args, cwd=proj, env={"RAYON_NUM_THREADS": "2"})
                try:
                    rows = canon_cli_results(json.loads(out))
                except Exception:
                    res[name] = ("ERR", rc, (out + err)[-300:])
                    continue
                norm = lambda p_: "." if p_ in (".", "./", "") else (p_[2:] if p_.startswith("./") else p_)
                res[name] = sorted(((norm(v[0]),) + v[1:] for v in rows), key=repr)
            bad = {}
            for name in ("dot", "abs", "abs-slash"):
                if res[name] != res["none"]:
                    bad[name] = diff_list(res[name], res["none"]) if isinstance(res[name], list) and isinstance(res["none"], list) else {"a": res[name], "b": res["none"]}
            for name, rows in res.items():
                if isinstance(rows, list):
                    own = [v for v in rows if v[0] == "." and v[1] in ("denied_directory", "disallowed_directory")]
                    if own:
                        bad.setdefault("root-reported", {})[name] = own[:3]
            return c, bad
    with _cf.ThreadPoolExecutor(max_workers=8) as ex:
        for c, bad in ex.map(one, picked):
            runs += 4
            if bad:
                fails.append((c, bad))
    return runs, fails


# --------------------------------------------------------------------------- a file given as scan root (fixes/D130)
def run_fileroot_leg(exes, cases, k):
    """a FILE given as scan root is not a walked directory: its parent has no count, so the run reports no file_count /
    dir_count / max_depth result at all (before fixes/D130 the parent got a DirStats record holding only the files that
    were given, once per spelling of the parent) -> (runs, failures).  Cases with tight global limits are preferred;
    the fixed witness of the defect is always run"""
    _, sgcli, _ = exes
    fails, runs = [], 0
    with Sandbox(prefix="sgv-structure-fr-") as sb:
        sb.write(".sloc-guard.toml", 'version = "2"\n[structure]\nmax_files = 3\nwarn_files_at = 1\n')
        for f_ in "abc":
            sb.write("src/%s.rs" % f_, "fn x() {}\n")
        for args in (["src/a.rs"], ["src/a.rs", "./src/b.rs"], ["./src/c.rs"]):
            rc, out, err = sb.run(sgcli, ["check"] + args + ["--format", "json", "--no-sloc-cache", "--color", "never"])
            runs += 1
            try:
                rows = [v for v in canon_cli_results(json.loads(out)) if v[1] in LIMIT_KINDS]
            except Exception:
                rows = [("ERR", rc, (out + err)[-300:])]
            if rows:
                fails.append((None, {"witness": "[structure] max_files = 3, warn_files_at = 1; src/{a,b,c}.rs; check " + " ".join(args), "rows": rows[:4]}))
    def weight(c):
        g = c["cfg"].g
        return 0 if g.get("max_files") in (0, 1) or g.get("warn_files_at") in (0, 1) else 1
    picked = sorted([c for c in cases if not c["bad"] and c.get("dimpl") and len(c["dimpl"]["files"]) >= 1 and c["flavour"] != "corpus"], key=weight)[:k]

    def one(c):
        with Sandbox(prefix="sgv-structure-fr-") as sb:
            materialise(sb, c["root"], c["gis"], c["cfg"].toml())
            files = sorted(c["dimpl"]["files"], key=lambda p_: (-p_.count("/"), p_))
            f0 = files[c["perm_seed"] % len(files)]
            same = [x for x in files if x != f0 and x.rsplit("/", 1)[0] == f0.rsplit("/", 1)[0]]
            reqs = [[c["spell"] + f0]] + ([[f0, "./" + same[0]]] if same else [])
            bad = []
            for req in reqs:
                args = ["check"] + req + ["--format", "json", "--no-sloc-cache", "--color", "never"] + ([] if c["backend"] == "ignore" else ["--no-gitignore"])
                rc, out, err = sb.run(sgcli, args, env={"RAYON_NUM_THREADS": "2"})
                try:
                    rows = [v for v in canon_cli_results(json.loads(out)) if v[1] in LIMIT_KINDS]
                except Exception:
                    rows = [("ERR", rc, (out + err)[-300:])]
                if rows:
                    bad.append({"roots": req, "rows": rows[:4]})
            return c, len(reqs), bad
    with _cf.ThreadPoolExecutor(max_workers=8) as ex:
        for c, n_, bad in ex.map(one, picked):
            runs += n_
            if bad:
                fails.append((c, {"file-root": bad}))
    return runs, fails


# --------------------------------------------------------------------------- known finding K07_file_root_sibling (D52)
def probe_file_root_sibling(exes):
    """the witness of the finding: True = still reproduces, False = gone, None = the probe itself failed"""
    _, sgcli, _ = exes
    with Sandbox(prefix="sgv-structure-k07-") as sb:
        sb.write(".sloc-guard.toml", 'version = "2"\n\n[[structure.rules]]\nscope = "src/components"\nsiblings = [{ match = "Button.tsx", require = "{stem}.test.tsx" }]\n')
        sb.write("src/components/Button.tsx", "x\n")
        sb.write("src/components/Button.test.tsx", "x\n")
        got = {}
        for name, root in (("dir", "."), ("file", "src/components/Button.tsx")):
            rc, out, err = sb.run(sgcli, ["check", root, "--format", "json", "--no-sloc-cache", "--color", "never"])
            try:
                got[name] = [v for v in canon_cli_results(json.loads(out)) if v[1] == "missing_sibling"]
            except Exception:
                return None, (out + err)[-300:]
        if got["dir"]:
            return None, "the witness is reported under the directory root too: %s" % got["dir"]
        return bool(got["file"]), got["file"]


# --------------------------------------------------------------------------- vm_compute cross-check
def coq_sx_parse(txt):
    """parse Coq's printing of an sx value: L [I 1; I (-2); L []]"""
    t = txt.replace("%Z", " ").replace("[", " [ ").replace("]", " ] ").replace(";", " ").replace("(", " ").replace(")", " ")
    toks = t.split()
    pos = [0]

    def one():
        tk = toks[pos[0]]
        pos[0] += 1
        if tk == "I":
            v = int(toks[pos[0]])
            pos[0] += 1
            return v
        if tk == "L":
            assert toks[pos[0]] == "["
            pos[0] += 1
            out = []
            while toks[pos[0]] != "]":
                out.append(one())
            pos[0] += 1
            return out
        raise ValueError(tk)
    return one()


def sx_coqz(x):
    if isinstance(x, bool):
        return "I 1%Z" if x else "I 0%Z"
    if isinstance(x, int):
        return "I (%d)%%Z" % x
    return "L [" + "; ".join(sx_coqz(y) for y in x) + "]"


def xcheck_structure(ctx, items, k):
    """items: list of (mode, sx, driver_output_line).  Evaluate k of them with vm_compute inside Coq."""
    small = [it for it in items if len(sx_dump(it[1])) < 30000]
    ctx.rng.shuffle(small)
    pick = small[:k]
    fn = {"run": "run_sx", "checkmap": "checkmap_sx", "roots": "roots_sx"}
    exprs = ["%s (%s)" % (fn[mode], sx_coqz(sx)) for mode, sx, _ in pick]
    res = coq_eval("From Coq Require Import ZArith NArith List.\nFrom SG Require Import Structure.Run.", exprs)
    bad = 0
    for (mode, sx, out), r in zip(pick, res):
        try:
            if coq_sx_parse(r) != sx_parse(out):
                bad += 1
        except Exception:
            bad += 1
    ctx.cov["extraction_crosscheck"] = {"cases": len(pick), "disagreements": bad}
    if bad or len(res) != len(pick):
        raise CheckBroken("extracted OCaml and vm_compute disagree on %d/%d cases" % (bad + len(pick) - len(res), len(pick)))


# --------------------------------------------------------------------------- Cfg (de)serialisation for replays / corpus
def cfg_to_json(cfg):
    return {"g": cfg.g, "lists": cfg.lists, "count_exclude": [list(p) for p in cfg.count_exclude],
            "scanner_exclude": None if cfg.scanner_exclude is None else [list(p) for p in cfg.scanner_exclude],
            "cli_exclude": [list(p) for p in cfg.cli_exclude], "rules": cfg.rules}


def cfg_from_json(j):
    cfg = Cfg()
    cfg.g = j["g"]
    cfg.lists = {k: j["lists"].get(k, []) for k in Cfg.GLISTS}
    cfg.count_exclude = [tuple(p) for p in j["count_exclude"]]
    cfg.scanner_exclude = None if j["scanner_exclude"] is None else [tuple(p) for p in j["scanner_exclude"]]
    cfg.cli_exclude = [tuple(p) for p in j.get("cli_exclude", [])]
    cfg.rules = j["rules"]
    return cfg


def case_to_json(c):
    d = describe(c)
    d["cfg"] = cfg_to_json(c["cfg"])
    return d


def case_from_json(j):
    return rebuild(j, cfg_from_json(j["cfg"]))


def load_structure_corpus():
    p = os.path.join(CORPUS, "structure.jsonl")
    out = []
    if os.path.exists(p):
        for line in open(p):
            line = line.strip()
            if line:
                c = case_from_json(json.loads(line))
                c["flavour"] = "corpus"
                out.append(c)
    return out


# --------------------------------------------------------------------------- the check shared by C06 and C07
C06_PARTS = {"corr": ("stats", "limits", "explain", "cli-explain", "config_ok", "model", "cli", "cli-run", "scope-sites"),
             "prop": ("counts", "limits", "roots", "scope-spelling", "valid-config-rejected", "invalid-config-accepted")}
C07_PARTS = {"corr": ("files", "placement", "siblings", "config_ok", "model", "cli", "cli-run", "scope-sites"),
             "prop": ("placement", "file-reported-twice", "count-excluded-not-placed", "roots", "rule-consulted", "directed-sibling", "group-sibling", "scope-spelling",
                      "valid-config-rejected", "invalid-config-accepted")}


def run_structure(ctx, prop, prop_files, flavours, n_cases, n_cli_every, n_maps, nontrivial):
    """prop = 'C06' | 'C07'.  flavours = weighted list.  nontrivial(c, ev) -> bool"""
    exes = prepare_structure(ctx)
    proofs_ok = proofs_step(ctx, prop_files)
    parts = C06_PARTS if prop == "C06" else C07_PARTS
    rng = ctx.rng
    corpus = load_structure_corpus()
    cases = list(corpus)
    for i in range(n_cases):
        if rng.random() < 0.06:
            cases.append(new_case(rng, "limits", bad=True))
        else:
            cases.append(new_case(rng, rng.choice(flavours)))
    hist, tagh = {}, {}
    corr_bad, prop_bad, skipped = [], [], []
    keys_nontrivial = set()
    xitems = []
    validated = 0
    cli_runs = 0
    BATCH = 250
    for b in range(0, len(cases), BATCH):
        chunk = cases[b:b + BATCH]
        cli_idx = [i for i in range(len(chunk)) if (b + i) % n_cli_every == 0 or chunk[i]["flavour"] == "corpus"]
        run_batch(exes, chunk, cli_idx=cli_idx)
        for c in chunk:
            ev = evaluate(c)
            c["ev"] = ev
            k = c["flavour"] + "/" + c["backend"]
            hist[k] = hist.get(k, 0) + 1
            for t in ev["tags"]:
                tagh[t] = tagh.get(t, 0) + 1
            if ev["skip"]:
                skipped.append((c, ev["skip"]))
                continue
            cb = {k_: v for k_, v in ev["corr"].items() if k_ in parts["corr"]}
            pb = {k_: v for k_, v in ev["prop"].items() if k_ in parts["prop"]}
            if "cli" in c:
                cli_runs += 1 + len(c["cli"]["explain"])
            if cb:
                corr_bad.append((c, cb))
            else:
                validated += 1
            if pb:
                prop_bad.append((c, pb))
            if nontrivial(c, ev):
                keys_nontrivial.add(case_key(c))
            if "sx" in c and "model_raw" in c:
                xitems.append(("run", c["sx"], c["model_raw"]))
            # free memory
            c.pop("impl", None) if not (cb or pb) else None
    # ---- arbitrary DirStats maps (C06 only)
    map_bad_corr, map_bad_prop, nmaps = [], [], 0
    if n_maps:
        mcs = run_mapcases(exes, [gen_mapcase(rng) for _ in range(n_maps)])
        for m in mcs:
            ev = eval_mapcase(m)
            nmaps += 1
            for t in ev["tags"]:
                tagh["map:" + t] = tagh.get("map:" + t, 0) + 1
            if ev["corr"]:
                map_bad_corr.append((m, ev["corr"]))
            else:
                validated += 1
            if ev["prop"]:
                map_bad_prop.append((m, ev["prop"]))
            if ev["tags"] - {"rejected-config"}:
                keys_nontrivial.add(_hl.sha256(("map" + m["cfg"].toml() + json.dumps(m["stats"])).encode()).hexdigest())
            xitems.append(("checkmap", m["sx"], m["model_raw"]))
        hist["dirstats-map"] = nmaps
    # ---- resolve_scan_paths on arbitrary requests (both properties: C06 counts of one walk, C07 nothing twice)
    nroots, roots_corr, roots_prop, roots_tags = run_rootcases(exes, rng, 1500 if ctx.tier == "quick" else 10000)
    hist["scan-root-requests"] = nroots
    for t, k_ in roots_tags.items():
        tagh["roots:" + t] = k_
    validated += nroots - len(roots_corr)
    xitems.extend(run_rootcases.xitems)
    # ---- the project root has no name; the witness of the known finding (C07)
    rootname_fails, rootname_runs = [], 0
    if prop == "C07":
        rootname_runs, rootname_fails = run_rootname_leg(exes, cases, 40 if ctx.tier == "quick" else 200)
        cli_runs += rootname_runs
        hist["project-root-name-runs"] = rootname_runs
        still, detail = probe_file_root_sibling(exes)
        if still is True:
            if not ctx.known("K07_file_root_sibling", "missing_sibling for a file given as scan root: %s" % detail):
                ctx.violation({"kind": "property-oracle", "failed": {"file-root-sibling": detail},
                               "witness": "rule scope=src/components siblings=[{match=Button.tsx, require={stem}.test.tsx}], both files present: `check src/components/Button.tsx` reports a missing sibling"})
        elif still is False:
            ctx.notes.append("known finding K07_file_root_sibling: the witness no longer reproduces (a file given as scan root finds its companion); remove the entry")
        else:
            ctx.notes.append({"K07_file_root_sibling probe failed": str(detail)[:300]})
    # ---- a file given as scan root has no directory statistics (C06, fixes/D130)
    fileroot_fails = []
    if prop == "C06":
        fr_runs, fileroot_fails = run_fileroot_leg(exes, cases, 60 if ctx.tier == "quick" else 300)
        cli_runs += fr_runs
        hist["file-root-runs"] = fr_runs
    # ---- Path::extension / file_stem mirror against std, on every name that occurred (C07)
    pf_bad = []
    if prop == "C07":
        names = sorted({n.name for c in cases for n in c["root"].walk()} | {"a.", ".a.b", "...", "a..b", ".é", "x.tar.gz", "..a", "a.b.", ".a."})
        io = _shard(exes[0], [",".join(str(ord(ch)) for ch in nm) for nm in names], ["pathfns"], None)
        mo = _shard(exes[2], ["pathfns " + sx_dump(sx_str(nm)) for nm in names], [], None)
        for nm, a, b in zip(names, io, mo):
            try:
                e, st = sx_parse(b)
                fm = lambda o: "N" if not o else "S" + (",".join(str(x) for x in o[0]) or "-")
                if a != fm(e) + " " + fm(st):
                    pf_bad.append({"name": nm, "std": a, "model": b})
            except Exception:
                pf_bad.append({"name": nm, "std": a, "model": b})
        ctx.cov["pathfns_names_compared"] = len(names)
        if pf_bad:
            corr_bad.append((cases[0], {"pathfns": pf_bad[:5]}))
    # ---- evidence
    ctx.cov["evaluations"] = len(cases) + nmaps + cli_runs
    ctx.cov["distinct_nontrivial"] = len(keys_nontrivial)
    ctx.cov["traces_validated_against_impl"] = validated
    ctx.cov["input_distribution"] = {"cases_by_flavour_and_backend": hist, "feature_tags": dict(sorted(tagh.items())),
                                     "cli_process_runs": cli_runs, "skipped": len(skipped), "corpus_cases": len(corpus)}
    ctx.cov["model_vs_impl_mismatches"] = len(corr_bad) + len(map_bad_corr) + len(roots_corr)
    for c in cases[len(corpus):len(corpus) + 3]:
        d = describe(c)
        d["nodes"] = d["nodes"][:25]
        mdl = c.get("model") or {}
        d["model_violations"] = [list(map(str, v)) for v in (mdl.get("limits", []) + mdl.get("placement", []) + mdl.get("siblings", []))[:8]]
        ctx.sample(d)
    if skipped:
        ctx.notes.append({"skipped_cases": [s for _, s in skipped[:5]], "count": len(skipped)})
    xcheck_structure(ctx, xitems, 30 if ctx.tier == "quick" else 200)
    # ---- verdicts
    for c, pb in prop_bad[:5]:
        obj = {"kind": "property-oracle", "failed": pb, "case": case_to_json(c),
               "impl": {k_: c.get("dimpl", {}).get(k_) for k_ in ("stats", "limits", "placement", "siblings")},
               "replay_cmd": "python3 tools/vp.py check %s --replay <this file>" % prop}
        ctx.violation(obj)
    for m, pb in map_bad_prop[:3]:
        ctx.violation({"kind": "property-oracle", "failed": pb, "toml": m["cfg"].toml(), "dirstats": m["stats"], "impl": m["impl"].get("limits"),
                       "mapcase": {"cfg": cfg_to_json(m["cfg"]), "stats": m["stats"]},
                       "replay_cmd": "python3 tools/vp.py check %s --replay <this file>" % prop})
    for rp_ in roots_prop[:3]:
        ctx.violation({"kind": "property-oracle", "failed": {"scan-roots": rp_["failed"]}, "roots": rp_["roots"], "cwd": rp_["cwd"],
                       "note": "resolve_scan_paths must walk exactly the outermost requested roots (component-wise, after normalisation), the first of equal spellings",
                       "replay_cmd": "python3 tools/vp.py check %s --replay <this file>" % prop})
    for c, bad in rootname_fails[:3]:
        ctx.violation({"kind": "property-oracle", "failed": {"root-name": bad}, "case": case_to_json(c),
                       "note": "the tree t as a project of its own (configuration written to t/.sloc-guard.toml), run from inside with no path / . / the absolute path",
                       "replay_cmd": "python3 tools/vp.py check %s --replay <this file>" % prop})
    for c, bad in fileroot_fails[:3]:
        ctx.violation({"kind": "property-oracle", "failed": {"file-root-dirstats": bad}, **({"case": case_to_json(c)} if c is not None else {}),
                       "note": "a file given as scan root: its parent directory was not walked and has no count; no file_count / dir_count / max_depth result may be reported",
                       "replay_cmd": "python3 tools/vp.py check %s --replay <this file>" % prop})
    if not prop_bad and not map_bad_prop and not roots_prop and not rootname_fails and not fileroot_fails:
        if roots_corr and not (corr_bad or map_bad_corr):
            ctx.violation({"kind": "correspondence-broken", "relation": "resolve_scan_paths of /repo == extracted Structure.Roots.kept on the marked normalised keys",
                           "first_mismatch": roots_corr[0], "mismatches": len(roots_corr)}, no_input=True)
        if corr_bad or map_bad_corr:
            if corr_bad:
                c, cb = corr_bad[0]
                first = {"mismatch": cb, "case": case_to_json(c)}
            else:
                m, cb = map_bad_corr[0]
                first = {"mismatch": cb, "toml": m["cfg"].toml(), "dirstats": m["stats"], "mapcase": {"cfg": cfg_to_json(m["cfg"]), "stats": m["stats"]}}
            ctx.violation({"kind": "correspondence-broken",
                           "relation": "sgv-structure (scanner + StructureChecker of /repo) / sgcli == extracted Structure.Run.run_sx on the same tree, configuration and oracle columns",
                           "first_mismatch": first, "mismatches": len(corr_bad) + len(map_bad_corr),
                           "note": "the model no longer describes the code, so the %s theorems no longer transfer; the property oracles found no violating input among %d cases" % (prop, len(cases) + nmaps)},
                          no_input=True)
        elif not proofs_ok:
            ctx.violation({"kind": "proof-broken", "details": ctx.proof_broken}, no_input=True)
    return cases


def replay_structure(ctx, path):
    j = json.load(open(path))
    exes = prepare_structure(ctx)
    if "mapcase" in j or ("first_mismatch" in j and "mapcase" in j["first_mismatch"]):
        mj = j.get("mapcase") or j["first_mismatch"]["mapcase"]
        m = {"cfg": cfg_from_json(mj["cfg"]), "stats": mj["stats"]}
        run_mapcases(exes, [m])
        print("impl :", json.dumps(m["impl"])[:3000])
        print("model:", m["model_raw"][:3000])
        print("eval :", eval_mapcase(m))
        return 0
    if "roots" in j and "case" not in j:
        import random as _rr
        harness, _, model = exes
        out = _shard(harness, [json.dumps({"roots": j["roots"]})], ["roots"], None)
        print("impl :", out[0])
        print("own  :", [j["roots"][i] for i in py_kept([py_root_key(r_, os.getcwd()) for r_ in j["roots"]])])
        return 0
    if "file-root-dirstats" in (j.get("failed") or {}) and "case" not in j:
        print(run_fileroot_leg(exes, [], 0))
        return 0
    cj = j.get("case") or j["first_mismatch"]["case"]
    c = case_from_json(cj)
    if "root-name" in (j.get("failed") or {}):
        print(run_rootname_leg(exes, [c], 1))
        return 0
    if "file-root-dirstats" in (j.get("failed") or {}):
        run_batch(exes, [c])
        evaluate(c)
        print(run_fileroot_leg(exes, [c], 1))
        return 0
    run_batch(exes, [c], cli_idx=[0])
    ev = evaluate(c)
    print(c["cfg"].toml())
    print("backend:", c["backend"])
    d = c.get("dimpl", {})
    for k in ("stats", "limits", "placement", "siblings"):
        print("impl  %-10s" % k, d.get(k))
        print("model %-10s" % k, (c.get("model") or {}).get(k))
    print("spec  limits    ", (c.get("model") or {}).get("spec_limits"))
    print("spec  placement ", (c.get("model") or {}).get("spec_placement"))
    print("cli             ", c.get("cli"))
    print("correspondence mismatches:", ev["corr"])
    print("property-oracle failures :", ev["prop"])
    return 0
