"""Translator half of the tie: regenerate coq/Gen/Gen_*.v from the freshly built crate."""
import os
from vlib import *  # noqa


def gen_registry():
    import gen_counter
    bins = cargo_build(["sgv-counter"])
    rc, dump = sh([bins["sgv-counter"], "dump"], check=True)
    langs = gen_counter.parse_registry(dump)
    write_if_changed(os.path.join(COQ, "Gen", "Gen_Registry.v"), gen_counter.gen_registry_v(langs))
    return langs


def gen_presets():
    """coq/Gen/Gen_Presets.v: built-in presets and init templates as typed Gate.Validate.config values (C17)."""
    import gen_gate
    gen_gate.write_gen_presets()


def generate_all():
    gen_registry()
    gen_presets()
