"""Helpers for the state-file properties (C13 crash safety, C14 concurrency): build of the
machinery, sandbox projects, readers of the three state files, the model driver protocol."""
import json
import os
import re
from vlib import *  # noqa

STATE_VO = ["State/Fs.vo", "State/AtomicWrite.vo", "State/Concurrency.vo", "Extract/ExtractState.vo"]
CONFIG = 'version = "2"\n[content]\nmax_lines = 3\nextensions = ["rs"]\n'
BIG = "fn a(){}\nfn b(){}\nfn c(){}\nfn d(){}\nfn e(){}\n"      # 5 code lines: over the limit of 3
SMALL = "fn a(){}\n"
NOW0 = 1_700_000_000
BASELINE = ".sloc-guard-baseline.json"
HISTORY = os.path.join(".sloc-guard", "history.json")
CACHE = os.path.join(".sloc-guard", "cache.json")
KIND_FILE = {"baseline": BASELINE, "history": HISTORY, "cache": CACHE}
AW_POINTS_EXPECTED = 10


def prepare_state(ctx):
    """Build the hooked CLI, the Coq model + extraction, the OCaml driver."""
    cli = cargo_build(["sgcli"])["sgcli"]
    ok, log = coq_make(STATE_VO)
    if not ok:
        raise CheckBroken("coq build of State/* failed:\n" + log[-3000:])
    drv = ocaml_build("state_drv", ["state_ex"])
    return cli, drv


def model(drv, lines):
    outs, rc, err = run_lines(drv, lines, timeout=300)
    if len(outs) != len(lines) or any(o.startswith(("ERROR", "BADLINE")) for o in outs):
        raise CheckBroken("state_drv failed: rc=%s %s %s" % (rc, err, [o for o in outs if o.startswith(("ERROR", "BAD"))][:2]))
    return outs


def model_points(drv):
    return model(drv, ["points"])[0].split(",")


CONFIG_AUTO = CONFIG + "[trend]\nauto_snapshot_on_check = true\n"


def new_project(sb, files=None, config=None):
    sb.write(".sloc-guard.toml", config or CONFIG)
    for rel, txt in (files or {"a.rs": BIG, "b.rs": SMALL}).items():
        sb.write(rel, txt)


def old_mtimes(sb, t=1_000_000_000):
    """Source files get an old modification time (a cache may refuse to trust a file modified
    in the current second; copies made with copytree keep the time)."""
    for d, _, fs in os.walk(sb.proj):
        for f in fs:
            if f.endswith(".rs"):
                os.utime(os.path.join(d, f), (t, t))


def base_env(now=NOW0, extra=None):
    e = {"RAYON_NUM_THREADS": "1", "SGV_NOW": str(now)}
    if extra:
        e.update(extra)
    return e


def run_cli(sb, cli, args, now=NOW0, env=None, timeout=60):
    return sb.run(cli, ["--color", "never"] + list(args), env=base_env(now, env), timeout=timeout)


# ---------------------------------------------------------------- reading the state files

def read_state(path):
    """('absent'|'empty'|'torn'|'ok', parsed json or None, size)"""
    if not os.path.exists(path):
        return "absent", None, 0
    raw = open(path, "rb").read()
    if len(raw) == 0:
        return "empty", None, 0
    try:
        return "ok", canon_doc(json.loads(raw.decode("utf-8"))), len(raw)
    except Exception:
        return "torn", None, len(raw)


def norm_key(k):
    """State-file keys may be absolute paths: make them relative to the sandbox project directory
    (every case runs in its own copy of a template, so the absolute prefix differs from run to run)."""
    if k.startswith("/") and "/proj/" in k:
        return "./" + k.split("/proj/", 1)[1]
    return k


def canon_doc(doc):
    """Documents with a map of per-path entries are compared as a sorted list of (normalised key, entry):
    map order is arbitrary, and two absolute spellings of one relative path must stay two entries."""
    if isinstance(doc, dict) and isinstance(doc.get("files"), dict):
        d = dict(doc)
        d["files"] = sorted(([norm_key(k), v] for k, v in doc["files"].items()), key=lambda kv: json.dumps(kv, sort_keys=True))
        return d
    return doc


def entries_of(kind, doc):
    """The entry identifiers of a parsed state document (history: time stamps in order;
    baseline / cache: sorted keys)."""
    if doc is None:
        return None
    try:
        if kind == "history":
            return [e["timestamp"] for e in doc["entries"]]
        return sorted(k for k, _ in doc["files"])
    except Exception:
        return None


def temp_files(dirpath, name):
    """Left-over temp files  .<name>.tmp.<pid>.<n>  (D95; older: .<name>.tmp.<pid>) -> {"<pid>.<n>": size}"""
    out = {}
    if os.path.isdir(dirpath):
        for f in os.listdir(dirpath):
            m = re.fullmatch(re.escape("." + name) + r"\.tmp\.(\d+(?:\.\d+)?)", f)
            if m:
                out[m.group(1)] = os.path.getsize(os.path.join(dirpath, f))
    return out


def temps_of_pid(temps, pid):
    """the entries of a temp_files() result whose pid component is `pid`"""
    return {k: v for k, v in temps.items() if k.split(".")[0] == str(pid)}


def read_trace(path):
    """SGV_TRACE file -> {pid: [names]} in order"""
    out = {}
    if os.path.exists(path):
        for line in open(path):
            f = line.split()
            if len(f) == 2:
                out.setdefault(int(f[0]), []).append(f[1])
    return out


# ---------------------------------------------------------------- synthetic large documents (each ABOVE 1 MiB:
# a loader that reads only a bounded prefix, or a buffer-sized chunk, must show)
LARGE_MIN_BYTES = 1024 * 1024 + 64 * 1024


def large_history(n=8000, start=NOW0 - 10_000_000):
    ents = [{"timestamp": start + 60 * i, "total_files": 2, "total_lines": 6 + i % 7, "code": 6, "comment": i % 7, "blank": 0}
            for i in range(n)]
    return json.dumps({"version": 1, "entries": ents}, indent=2)


def large_baseline(n=8000):
    files = {"./gen/f%05d.rs" % i: {"type": "content", "lines": 10 + i % 50, "hash": "%064x" % (i * 7919 + 1)} for i in range(n)}
    return json.dumps({"version": 2, "files": files}, indent=2)


def large_cache(cache_path, n=5000):
    doc = json.load(open(cache_path))
    for i in range(n):
        doc["files"]["./gen/f%05d.rs" % i] = {"hash": "%064x" % (i * 104729 + 3),
                                              "stats": {"total": 10, "code": 8, "comment": 1, "blank": 1, "ignored": 0},
                                              "mtime": 1_600_000_000 + i, "size": 100 + i}
    return json.dumps(doc, indent=2)
