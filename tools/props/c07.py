"""C07 -- placement rules (deny/allow/naming/siblings) flag exactly the offending entries."""
from gen_structure import *  # noqa

PROP_FILES = ["Structure/Properties_C07.v"]
MANIFEST = dict(
    technique="Coq proof (case analysis of the decision ladders against a declarative clause list; list lemmas for sibling and group rules) on a Gallina model of the scanner's placement checks and StructureChecker::check_siblings, glob/regex answers entering as oracle columns; tied by differential execution on real trees of names through the library pipeline and the real CLI",
    text="Theorems C07_file_at_most_once, C07_entry_at_most_once (directories too, fixes/D48), C07_only_walked_entries_reported, C07_file_exact / C07_dir_exact (the reported violation of an entry is exactly forbidden_spec / forbidden_dir_spec, the documented ladder: first applicable clause), C07_count_exclude_does_not_exempt (fixes/D49), C07_project_root_not_placed (fixes/D51), C07_roots_walked_are_requested / C07_roots_walks_disjoint / C07_roots_cover (several scan roots, fixes/D50), C07_scan_exact (a whole scan of a tree, any processing order, reports exactly the specification - no side condition since every site matches the normalised path), C07_lists_combine_by_or, C07_naming_only_if_permitted, C07_directed_sibling, C07_group, C07_rule_consulted_is_explains, C07_sibling_rule_is_explains / C07_sibling_none_without_rule / C07_sibling_entries_of_named_rule (the sibling entries applied in a directory are exactly those of the rule explain names, the last declared match; they do not accumulate over superseded rules, fixes/D81) hold without bounds. The tie: generated trees of names (extensions, dotfiles, multi-dot, non-ASCII) x global and per-scope allow/deny lists, naming regexes, directed and group sibling rules, overlapping scopes; `check --format json` (violation_type, triggering_rule) and the library pipeline compared with the extracted model and with the Coq spec; the consulted rule compared with the one `explain` names.",
    note="Trusted: Coq kernel, extraction, harness sgv-structure (oracle columns computed with the real globset / regex objects of the real configuration), python generators. Not modelled: regex and glob semantics, non-UTF-8 file names. Known finding K07_file_root_sibling (D52): a FILE given as scan root is scanned alone and its companions are reported missing (C07_directed_sibling_among_visible_refuted / C07_directed_sibling_modulo_known); the witness is re-run on the real CLI by every check.",
    ref="5 (C07)")

FLAVOURS = ["placement"] * 5 + ["siblings"] * 3 + ["mix"] * 2


def nontrivial(c, ev):
    return placement_lists_present(c["cfg"]) and any(x.startswith("v:") for x in ev["tags"])


def run(ctx):
    quick = ctx.tier == "quick"
    run_structure(ctx, "C07", PROP_FILES, FLAVOURS, 2000 if quick else 12000, 4 if quick else 5, 0, nontrivial)
    ctx.cov["rule"] = ("seeded generator: real trees of names (extensions, dotfiles, `foo.`, `..x`, multi-dot, non-ASCII, spaces) x [structure] configurations with global allow or deny lists "
                       "(extensions, file-name patterns, path patterns, directory-only patterns, deny_dirs), 0-4 rules with overlapping scopes carrying allow/deny lists, naming regexes, "
                       "directed and group sibling rules (member and companion templates with a path separator such as __tests__/{stem}.test.tsx, with complete, incomplete and orphan groups; later rules whose scope overlaps a rule with sibling entries; scopes written with a trailing separator, which match no directory at any site), count_exclude / scanner.exclude / command-line -x, name lists whose literal head coincides with the start of the path (t*, t*.rs), requests of several scan roots (22%); run through the library pipeline with both back-ends, every 4th also through `sgcli check` + `explain`; 1500 arbitrary scan-root requests through resolve_scan_paths; the trees of 40 cases with directory name lists as projects of their own under four spellings of the project root. "
                       "non-trivial = distinct case with at least one placement list or sibling rule AND at least one placement/sibling violation reported")
    ctx.cov["trusted_base"] = TRUSTED_COMMON + [
        "oracle columns: every glob / regex answer (per list, per name and per path) is computed by sgv-structure with the real compiled objects and handed to the model as data",
        "std::path::Path::{extension,file_stem} are mirrored in Gallina (Structure/Names.v) and compared with std on every name of every case"]
    ctx.assumptions = ["file names are valid UTF-8", "a single relative scan root, spelled `t` or `./t` (absolute roots: property C08); that the placement site, the limit/explain site and the sibling site give the same scope answers is CHECKED on every directory of every case (scope-sites), and is what lets the model carry one scope column"]


def replay(ctx, path):
    return replay_structure(ctx, path)
