"""C15 -- trend history: append-only, whole-project, retention-bounded, exact deltas."""
import json
from gen_trend import *  # noqa
import trend_cli

PROP_FILES = ["Trend/Properties_C15.v"]
MANIFEST = dict(
    technique="Coq proofs (list induction, lia) on a Gallina model of stats/trend.rs, stats/duration.rs and the three snapshot/trend command paths; tied by differential execution of the extracted model against the library functions (debug and release profile) and against clock-driven CLI histories",
    text="Theorems C15_append_one, C15_old_entries_untouched (result is a subsequence of old ++ [new]), C15_retention_bounds (no overflow, at most max_entries, none older than max_age_days), C15_keeps_most_recent, C15_sorted_preserved, C15_min_interval, C15_since_selects, C15_latest_selects, C15_delta_exact, C15_significant_iff, C15_duration_spec, C15_no_overflow, C15_duration_too_large_is_error, C15_whole_project_totals_snapshot, C15_whole_project_totals_auto_modulo_known (+ C15_whole_project_totals_auto_refuted witness: content.exclude), C15_snapshot_records, C15_auto_snapshot_records, C15_readonly_stats / _dry_run / _check hold for every history (sorted or not), configuration, clock value and duration string (unbounded). The tie to the Rust code is a seeded differential run at library level (sgv-trend, both build profiles) and SGV_NOW-driven CLI sequences of snapshot / check / stats with retention configurations and restricted check runs.",
    note="Trusted: Coq kernel, extraction (ExtrOcamlBasic), harness sgv-trend, the SGV_NOW clock hook, serde_json (de)serialisation of history.json, the scanner / counter (their results enter the totals model as data). is_significant is not consulted by any CLI path; it is tied at library level only.",
    ref="5 (C15)")

KNOWN_OVERFLOW = "K15_overflow"


def prepare(ctx):
    dbg = cargo_build(["sgv-trend", "sgcli"])
    rel = cargo_build(["sgv-trend", "sgcli"], release=True)
    ok, log = coq_make(["Trend/Duration.vo", "Trend/Trend.vo", "Extract/ExtractTrend.vo"])
    if not ok:
        raise CheckBroken("coq model build failed:\n" + log[-3000:])
    model = ocaml_build("trend_drv", ["trend_ex"])
    return dbg, rel, model


def expected_from_model(mo, mode, profile):
    """What the implementation must print if it behaves like the model (overflow: debug panics, release wraps)."""
    if not mo.startswith("OVF "):
        return mo
    if profile == "debug":
        return "PANIC"
    rest = mo[4:]
    if mode == "dur" or mode == "ret":
        return "OK " + rest
    if mode == "snap":
        return "SAVED " + rest
    return rest


def overflow_class(c):
    """Is this case inside the (former) D17 class: a u64 product of the property's arithmetic >= 2^64?"""
    if c["mode"] in ("dur", "since"):
        return spec_duration(c["s"])[0] == "TOOBIG"
    if c["mode"] in ("ret", "snap"):
        d = c["c"].get("max_age_days")
        return d is not None and d * DAY >= U64
    return False


def lib_level(ctx, dbg, rel, model, n):
    corpus = []
    p = os.path.join(CORPUS, "trend.jsonl")
    if os.path.exists(p):
        for line in open(p):
            j = json.loads(line)
            if j.get("level") == "lib":
                j["h"] = [(e[0], tuple(e[1]), e[2]) for e in j.get("h", [])]
                for k in ("tot", "cur"):
                    if k in j:
                        j[k] = tuple(j[k])
                corpus.append(j)
    cases = corpus + lib_cases(ctx.rng, n)
    lines = [c["wire"] for c in cases]
    mouts, merrs = run_sharded(model, lines, timeout=600)
    if merrs or any(m.startswith(("MODELFAIL", "BADLINE")) for m in mouts):
        raise CheckBroken("trend model driver failed: %s" % (merrs[:1] or [m for m in mouts if m.startswith(("MODELFAIL", "BADLINE"))][:1]))
    res = {}
    for prof, exe in (("debug", dbg["sgv-trend"]), ("release", rel["sgv-trend"])):
        outs, errs = run_sharded(exe, lines, timeout=600)
        res[prof] = outs
        if errs:
            ctx.notes.append({"harness_died": prof, "details": errs[:1]})
    mism, fails = [], []
    hist, nontrivial = {}, set()
    for i, c in enumerate(cases):
        hist[c["tag"]] = hist.get(c["tag"], 0) + 1
        mo = mouts[i]
        spec = spec_answer(c)
        for prof in ("debug", "release"):
            io = res[prof][i]
            if io != expected_from_model(mo, c["mode"], prof):
                mism.append((c, prof, io, mo))
            if spec is not None and io != spec:
                fails.append((c, prof, io, spec))
        if mo not in ("NONE", "SKIP", "OK 1", "ERR EMPTY") and not mo.startswith("OK 0 "):
            nontrivial.add(c["wire"])
    return cases, mouts, res, mism, fails, hist, nontrivial


def xcheck(ctx, cases, mouts, k):
    """vm_compute inside Coq on a sub-sample (dur, ret, add, delta) vs the extracted driver."""
    def cn(x):
        return "None" if x is None else "(Some %d)" % x

    def ccfg(c):
        return "(mkC %s %s %s %s)" % tuple(cn(c.get(k)) for k in ("max_entries", "max_age_days", "min_interval_secs", "min_code_delta"))

    def ctot(t):
        return "(mkT %d %d %d %d %d)" % tuple(t)

    def ch(h):
        return "[" + ";".join("mkE %d %s %d" % (e[0], ctot(e[1]), e[2]) for e in h) + "]"
    idx = [i for i, c in enumerate(cases) if c["mode"] in ("dur", "ret", "add", "delta") and len(c.get("h", [])) <= 8]
    ctx.rng.shuffle(idx)
    idx = idx[:k]
    exprs, exp = [], []
    zn = "(fun z : Z => match z with Z0 => [0;0] | Zpos p => [0; Npos p] | Zneg p => [1; Npos p] end)"
    for i in idx:
        c, mo = cases[i], mouts[i]
        if c["mode"] == "dur":
            s = "[" + ";".join(str(ord(ch_)) for ch_ in c["s"]) + "]"
            exprs.append("match parse_duration %s with DOk v => [0; v] | DErr e => [1; match e with EEmpty => 0 | EMissingUnit => 1 | EMissingNumber => 2 | EBadNumber => 3 | EZero => 4 | EBadUnit => 5 | ETooLarge => 6 end] | DOverflow w => [2; w] end" % s)
            f = mo.split(" ")
            if f[0] == "OK":
                exp.append([0, int(f[1])])
            elif f[0] == "OVF":
                exp.append([2, int(f[1])])
            else:
                exp.append([1, ["EMPTY", "NOUNIT", "NONUM", "BADNUM", "ZERO", "BADUNIT", "TOOLARGE"].index(f[1])])
        elif c["mode"] == "add":
            exprs.append("[if should_add %s %d %s then 1 else 0]" % (ccfg(c["c"]), c["now"], ch(c["h"])))
            exp.append([int(mo.split(" ")[1])])
        elif c["mode"] == "ret":
            exprs.append("let (h, ov) := apply_retention %s %d %s in (if ov then 1 else 0) :: flat_map (fun e => [ts e; t_files (e_tot e); t_lines (e_tot e); t_code (e_tot e); t_comment (e_tot e); t_blank (e_tot e); e_tag e]) h"
                         % (ccfg(c["c"]), c["now"], ch(c["h"])))
            f = mo.split(" ")
            e = [1 if f[0] == "OVF" else 0]
            for en in p_entries(f[2]):
                e += [en[0]] + list(en[1]) + [en[2]]
            exp.append(e)
        else:
            exprs.append("match trend_delta %s %d %s %s with None => [] | Some (d, ov) => (if ov then 1 else 0) :: %s (d_files d) ++ %s (d_lines d) ++ %s (d_code d) ++ %s (d_comment d) ++ %s (d_blank d) ++ [d_prev_ts d; d_prev_tag d; if is_significant d %s then 1 else 0] end"
                         % (cn(c["since"]), c["now"], ch(c["h"]), ctot(c["cur"]), zn, zn, zn, zn, zn, ccfg(c["c"])))
            if mo == "NONE":
                exp.append([])
            else:
                ov = mo.startswith("OVF ")
                f = (mo[4:] if ov else mo).split(" ")
                e = [1 if ov else 0]
                for x in f[1:6]:
                    v = int(x)
                    e += [1 if v < 0 else 0, abs(v)]
                e += [int(f[6]), int(f[7]), int(f[8][3:])]
                exp.append(e)
    res = coq_eval("From Coq Require Import NArith ZArith List.\nFrom SG Require Import Trend.Duration Trend.Trend.", exprs)
    bad = 0
    for r, e in zip(res, exp):
        if [int(x) for x in re.findall(r"\d+", r)] != e:
            bad += 1
    ctx.cov["extraction_crosscheck"] = {"cases": len(idx), "disagreements": bad}
    if bad or len(res) != len(idx):
        raise CheckBroken("extracted OCaml and vm_compute disagree on %d/%d trend cases" % (bad, len(idx)))


def run(ctx):
    dbg, rel, model = prepare(ctx)
    proofs_ok = proofs_step(ctx, PROP_FILES)
    quick = ctx.tier == "quick"
    n = 30000 if quick else 150000
    cases, mouts, res, mism, fails, hist, nontrivial = lib_level(ctx, dbg, rel, model, n)
    ncli = 100 if quick else 1200
    cli = trend_cli.run_cli(ctx, dbg, rel, model, ncli)
    ctx.cov["evaluations"] = 2 * len(cases) + cli["evaluations"]
    ctx.cov["distinct_nontrivial"] = len(nontrivial) + cli["nontrivial"]
    ctx.cov["traces_validated_against_impl"] = 2 * len(cases) - len(mism) + cli["validated"]
    ctx.cov["model_vs_impl_mismatches"] = len(mism) + len(cli["mismatches"])
    ctx.cov["rule"] = ("library level: seeded cases for parse_duration (grammar incl. whitespace, case, KELVIN SIGN, numbers at the u64 product boundary and beyond), "
                       "should_add, apply_retention, snapshot composition, compute_delta / compute_delta_since + is_significant on histories with chronological, equal, "
                       "backwards and random timestamps, cut-offs placed on entries, huge values; each case through sgv-trend in the debug and the release profile "
                       "(evaluations counts both) vs the extracted Coq model and vs an independent unbounded-integer spec. CLI level: SGV_NOW-driven sequences of snapshot / check "
                       "(auto_snapshot_on_check, --files, --diff, --staged, --warn-only --fail-fast with most files over the limit) / stats summary|trend|history|files|report; after every step history.json is compared with the model's history "
                       "and the spec; read-only commands must leave its bytes unchanged. non-trivial = library cases whose model answer is not the default (NONE / SKIP / nothing removed / add allowed) "
                       "+ CLI steps that append, drop or select an entry")
    ctx.cov["input_distribution"] = {"library": hist, "cli": cli["distribution"]}
    for c in cases[-3:]:
        i = cases.index(c)
        ctx.sample({"wire": c["wire"], "model": mouts[i], "debug": res["debug"][i], "release": res["release"][i]})
    for s in cli["samples"][:3]:
        ctx.sample(s)
    ctx.cov["trusted_base"] = TRUSTED_COMMON + [
        "SGV_NOW clock hook (state::current_unix_timestamp) and os.utime",
        "serde_json (de)serialisation of history.json; the scanner and the counter (per-file statistics enter the totals model as data)",
        "absence of panics is observed (catch_unwind in sgv-trend, exit status 101 of sgcli), in both build profiles, not proved"]
    ctx.assumptions = ["history entries and current totals below 2^63 for the delta theorems (usize as i64 casts); histories written by the tool itself satisfy this",
                       "str::to_lowercase maps no scalar value other than A-Z and U+212A to ASCII letters only (checked against python's full case mapping in the run)"]
    xcheck(ctx, cases, mouts, 60 if quick else 400)
    # ---------------- verdicts
    reported = 0
    for (c, prof, io, spec) in fails:
        if overflow_class(c) and ctx.known(KNOWN_OVERFLOW, "u64 product overflow"):
            continue
        if reported < 4:
            ctx.violation({"kind": "property-oracle", "level": "library", "profile": prof, "wire": c["wire"], "tag": c["tag"],
                           "impl": io, "spec": spec, "replay_cmd": "python3 tools/vp.py check C15 --replay <this file>"})
        reported += 1
    for v in cli["violations"][:4]:
        ctx.violation(v)
        reported += 1
    for (klass, what, rep) in cli["known"]:
        if not ctx.known(klass, what):
            # the disagreement falls in a class that is not (or no longer) a listed finding: a violation, with its input
            if reported < 6:
                ctx.violation(dict(rep, class_not_listed=klass, replay_cmd="python3 tools/vp.py check C15 --replay <this file>"))
            reported += 1
    if not reported and (mism or cli["mismatches"]):
        # model != implementation but no failing input yet: search harder (fresh, larger batches; oracle only)
        _, _, _, _, fails2, _, _ = lib_level(ctx, dbg, rel, model, 3 * n)
        cli2 = trend_cli.run_cli(ctx, dbg, rel, model, 2 * ncli)
        ctx.cov["search_after_mismatch"] = {"library_cases": 3 * n, "cli_sequences": 2 * ncli}
        for (c, prof, io, spec) in fails2:
            if overflow_class(c) and ctx.known(KNOWN_OVERFLOW, "u64 product overflow"):
                continue
            if reported < 3:
                ctx.violation({"kind": "property-oracle", "level": "library", "profile": prof, "wire": c["wire"], "tag": c["tag"], "impl": io, "spec": spec,
                               "found": "while searching after a model/implementation mismatch"})
            reported += 1
        for v in cli2["violations"][:3]:
            ctx.violation(v)
            reported += 1
    if not reported:
        if mism or cli["mismatches"]:
            first = None
            if mism:
                c, prof, io, mo = mism[0]
                first = {"wire": c["wire"], "profile": prof, "impl": io, "model": mo}
            else:
                first = cli["mismatches"][0]
            ctx.violation({"kind": "correspondence-broken", "relation": "sgv-trend / sgcli == extracted Trend model (per profile: overflow = panic in debug, wrap in release)",
                           "first_mismatch": first, "mismatches": len(mism) + len(cli["mismatches"]),
                           "note": "the model no longer describes the code, so theorems C15_* no longer transfer; no input violating C15 itself was found"},
                          no_input=True)
        elif not proofs_ok:
            ctx.violation({"kind": "proof-broken", "details": ctx.proof_broken}, no_input=True)


def replay(ctx, path):
    j = json.load(open(path))
    dbg, rel, model = prepare(ctx)
    if j.get("level") == "cli" or "steps" in j:
        return trend_cli.replay_cli(ctx, dbg, rel, model, j)
    wire = j.get("wire") or j["first_mismatch"]["wire"]
    for name, exe in (("debug", dbg["sgv-trend"]), ("release", rel["sgv-trend"]), ("model", model)):
        o, _, _ = run_lines(exe, [wire])
        print("%-8s %s" % (name, o))
    return 0
