"""C10 -- ratchet only ever shrinks the baseline, and only for violations really resolved."""
import json
from check_tail import *  # noqa

PROP_FILES = ["Check/Properties_C10.v"]
MANIFEST = dict(
    technique="Coq proof (induction over result lists / stale lists, extensional finite-map lemmas) on a Gallina model of check_baseline_ratchet, "
              "tighten_baseline, handle_baseline_ratchet and the order of operations of runner.rs with the evaluated set explicit; tied by library-level "
              "differential execution and CLI history replay x restriction modes (--files subsets, fail-fast, ratchet by flag and by config)",
    text="Theorems C10_subset, C10_no_add_without_update, C10_auto_fixpoint, C10_stale_only_if_evaluated_and_resolved, C10_removed_only_if_stale, C10_strict_fails_only_for_resolved, C10_stale_needs_keyed_path "
         "hold for every result list, evaluated set, baseline and flag set (unbounded); evaluated = paths of the content results of the run + counted directories (+ paths a scan saw gone): a structure result at the path of a file is not an evaluation of its line count (fix D85). The tie compares stale paths, the tightened baseline file, exit "
         "status and diagnostics of the real CLI with check_step on every step of the replayed histories and evaluates the C10 oracles on the observations.",
    note="Trusted: Coq kernel, extraction, harness sgv-check, python evaluator of the universe. --diff is replayed in one shape only (a git repository, one other file changed, "
         "structure results at the paths of the unchanged recorded files: fix D85); --staged is not replayed (it narrows the file list like --diff does and keeps the directory "
         "statistics; the model covers both through the evaluated-set argument: content results + counted directories).",
    ref="5 (C10)")


def ratchet_history(rng, maxlen=10):
    """update, then edits that resolve / add violations, interleaved with ratchet runs under restrictions"""
    h = [{"op": "edit", "state": "".join(rng.choice("ooOw-u") for _ in UFILES)}] + ([{"op": "noise"}] if rng.random() < 0.3 else []) + \
        [{"op": "update", "mode": "a", "we": False}]
    for _ in range(rng.randint(2, maxlen - 2)):
        r = rng.random()
        prev = [o for o in h if o["op"] == "edit"][-1]["state"]
        if r < 0.35:
            i = rng.randrange(len(UFILES))
            h.append({"op": "edit", "state": prev[:i] + rng.choice("-uwoO") + prev[i + 1:]})
        elif r < 0.42:
            h.append({"op": "update", "mode": rng.choice("aacsn"), "we": rng.random() < 0.5})
        elif r < 0.47:
            h.append({"op": "respell"})
        else:
            fl = {"b": True}
            fl[rng.choice(["rc", "rc", "rg"])] = rng.choice("waas")
            if rng.random() < 0.3:      # flag over configuration, every pair (the flag wins, also a flag of warn over auto / strict)
                fl.pop("rc", None), fl.pop("rg", None)
                fl["rc"], fl["rg"] = rng.choice("wwas"), rng.choice("aasw")
            if rng.random() < 0.3:
                fl[rng.choice(["ff", "ff_cfg"])] = True
            if rng.random() < 0.1:
                fl["wo"] = True
            if rng.random() < 0.15:
                fl["wae"] = True
            files = rand_files(rng, prev) if rng.random() < 0.4 else None
            o = {"op": "check", "flags": fl, "files": files, "threads": rng.choice([1, 1, 2, 4, 16])}
            if files is None and rng.random() < 0.25:
                o["root"] = rng.choice(["d1", "d2"])     # sub-path root: the other directories are not evaluated
            if rng.random() < 0.12:
                fl["ns"] = True                            # structure checks disabled: no directory is evaluated
            if rng.random() < 0.1:
                fl["u"] = rng.choice("ncs")                # tightening and updating in one run
            h.append(o)
    return h


def run(ctx):
    bins, model = prepare_check(ctx)
    proofs_ok = proofs_step(ctx, PROP_FILES)
    lib = lib_phase(ctx, bins, model, 8000 if ctx.tier == "quick" else 60000, only=("ratchet", "tighten", "apply", "exit"))
    corpus = load_corpus_histories()
    rng = ctx.rng
    if ctx.tier == "quick":
        hists = [ratchet_history(rng) for _ in range(220)]
        dist = {"ratchet_histories_len<=10": len(hists)}
    else:
        ex = list(exhaustive_histories(3, start_states=("oo---",)))
        hists = ex + [ratchet_history(rng) for _ in range(2000)]
        dist = {"exhaustive_len<=3": len(ex), "ratchet_histories_len<=10": 2000}
    allh = [c["history"] for c in corpus] + hists
    depth = [bool(c.get("depth0")) for c in corpus] + [i % 7 == 6 for i in range(len(hists))]
    hp = history_phase(ctx, bins, model, allh, depth_flags=depth)
    br = big_ratchet_phase(ctx, bins, model, 3 if ctx.tier == "quick" else 10)
    sd = subdir_ratchet_phase(ctx, bins, model, 8 if ctx.tier == "quick" else 40)
    nu = nonutf8_phase(ctx, bins, model)
    sr = sibling_ratchet_phase(ctx, bins, model, ctx.tier == "quick")
    ov = overlapping_runs_phase(ctx, bins, model)
    ur = unreadable_dir_phase(ctx, bins, model)
    xcheck_model(ctx, model, 40 if ctx.tier == "quick" else 300)
    modes = {}
    for h in allh:
        for o in h:
            if o["op"] == "check":
                fl = o["flags"]
                m = (fl.get("rc") or "-") + "/" + (fl.get("rg") or "-") + ("/files" if o.get("files") else "") + ("/ff" if is_ff(fl) else "")
                modes[m] = modes.get(m, 0) + 1
    ctx.cov["evaluations"] = lib["cases"] + hp["steps"] + br["steps"] + sd["steps"] + nu["steps"] + sr["steps"] + ov["steps"] + ur["steps"]
    ctx.cov["distinct_nontrivial"] = hp["nontrivial"]
    ctx.cov["traces_validated_against_impl"] = hp["steps"] + br["steps"] + sd["steps"] + nu["steps"] + sr["steps"] - len(hp["mismatches"]) - len(br["mismatches"]) - len(sd["mismatches"]) - len(nu["mismatches"]) - len(sr["mismatches"])
    ctx.cov["rule"] = ("library level: check_baseline_ratchet / tighten_baseline on seeded result lists x baselines vs the extracted model; CLI level: histories (update, edits "
                       "resolving or adding violations, ratchet runs warn/auto/strict by flag and by [baseline] ratchet, x --files subsets incl. repeated and missing files, x fail-fast by "
                       "flag and config with 1..16 threads, x sub-path roots, x runs from a sub-directory pkg/ of the project (marker .sloc-guard.toml or .git above) with the relative `--baseline base.json` "
                       "and a same-named file at the project root: the file named is the one tightened, no other file appears or changes); paths that are not valid UTF-8 (two names with one lossy form) "
                       "under --files x strict / auto; recorded files that lack the sibling a [[structure.rules]] siblings rule (severity warn / error) asks for, so that the structure block reports a result at the path of a "
                       "file the file loop never counted - after a fail-fast short-circuit (one worker, new violators first / last / in the middle) and under `--diff HEAD~1` in a git repository where another file changed - x warn / auto / strict by flag and config, "
                       "then the full check afterwards; every auto run is rerun once for the fixpoint; large projects (40-60 files over the limit, more than 20 fixed at once) through strict / auto / auto / strict; observables: baseline file, stale paths in the diagnostics, exit. "
                       "non-trivial = histories with at least one update, one edit and a non-empty baseline on disk at some step")
    ctx.cov["input_distribution"] = {"library": lib["dist"], "histories": dict(dist, corpus=len(corpus)), "cli_steps": hp["steps"], "cli_spawns": hp["spawns"],
                                     "ratchet_cli/cfg/restriction": modes, "fail_fast_steps": hp["ff_traces"],
                                     "large_project_steps(40-60 files, >20 entries resolved at once)": br["steps"],
                                     "steps_run_from_a_sub_directory": sd["steps"], "steps_with_non_utf8_paths": nu["steps"],
                                     "steps_with_a_structure_result_at_an_uncounted_file(fail-fast, --diff)": sr["steps"],
                                     "steps_two_runs_on_one_baseline_file(overlapping: known finding; sequential both orders)": ov["steps"],
                                     "steps_recorded_file_below_an_unreadable_directory(run without the privilege to look inside)": ur.get("skipped") or ur["steps"]}
    ctx.cov["model_vs_impl_mismatches"] = len(lib["mismatches"]) + len(hp["mismatches"]) + len(br["mismatches"]) + len(sd["mismatches"]) + len(nu["mismatches"]) + len(sr["mismatches"])
    for s in lib["sample"][:1] + hp["sample"][:2]:
        ctx.sample(s)
    ctx.cov["trusted_base"] = TRUSTED_COMMON + ["python evaluator of the 5-file universe (compared with a plain run in every visited state)",
                                                "parsing of the ratchet diagnostics on stderr (stale path list)"]
    ctx.assumptions = ["--diff/--staged narrow the files of the file loop and keep the structure block (one --diff shape replayed; otherwise covered by the evaluated-set argument of the model)",
                       "baseline keys are relative to the working directory of the run; one baseline file is used from one working directory",
                       "runs on one baseline file do not overlap in time: the theorems are about sequences of runs (two overlapping runs can lose an update: known finding K10_overlapping_runs_lost_update, D87)"]
    fails = [f for f in lib["oracle_failures"] if f["prop"] == "C10"]
    for f in fails[:3]:
        ctx.violation({"kind": "property-oracle", "what": f["what"], "first_mismatch": {"case": f["case"]}})
    n = report_findings(ctx, "C10", hp["findings"] + br["findings"] + sd["findings"] + nu["findings"] + sr["findings"] + ov["findings"] + ur["findings"])
    if not fails and not n:
        tie = lib["mismatches"] + hp["mismatches"] + hp["structural"] + br["mismatches"] + sd["mismatches"] + nu["mismatches"] + sr["mismatches"] + ov["mismatches"] + ur["mismatches"]
        report_tie(ctx, "C10", "sgv-check / sloc-guard check == extracted Check.Ratchet + Check.Baseline.check_step", tie, proofs_ok, lib["errs"])


def replay(ctx, path):
    return replay_file(ctx, path, "C10")
