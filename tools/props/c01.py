"""C01 -- check is a sound and complete gate: exit code and statuses follow the rules."""
import json
import math
import struct
from vlib import *  # noqa

PROP_FILES = ["Check/Properties_C01.v"]
MANIFEST = dict(
    technique="Coq proof of the gate theorems (statuses exact, exit 0 sound, exit 1 iff, warn-only forces 0, exit 2 only errors) on a pipeline model that composes baseline comparison, "
              "ratchet and exit code over per-path facts, composed (Check/Compose.v, C01_composed_*) with the threshold model of C05 so that scope decision, effective count, limit, warn point "
              "and the post-override configuration error are computed in Coq; tie = end-to-end CLI differential: generated projects x configurations x flag sets are run through the extracted "
              "composition `check_command` (content configuration, CLI overrides and, per file, walk result, raw line stats, extension, exclude bits and rule match vector computed with the real "
              "globset) and its statuses and exit code are compared with the tool's; the earlier python re-computation of the facts is kept as a cross-check on a sub-sample",
    text="C01_statuses_exact, C01_exit0_sound, C01_exit1_iff, C01_warn_only_forces_0, C01_exit2_only_errors, C01_ratchet_fails_only_when_strict_and_stale hold for every list of per-file facts, "
         "every list of structure results, every baseline and every flag combination (unbounded); C01_composed_statuses, C01_composed_config_error, C01_composed_nothing_else_reported state the "
         "same for the facts the threshold model derives from a configuration, overrides and match vectors. The correspondence run executes exactly that composition (extracted check_command): "
         "selected / counted / effective count / limit / warn point / verdict / configuration error / exit code come from the extracted Coq functions; python supplies only what Coq does not model "
         "(the walk: ignore files, scanner excludes, which files exist; global directory limits as structure results; glob matching as oracle data through sgv-glob). On a sub-sample the facts and "
         "the outcome are also recomputed by the independent python oracle and the fact-level model check_run, and the two must agree.",
    note="Trusted: Coq kernel, extraction, the python walk model (ignore files, scanner excludes) and structure-limit oracle, globset (oracle data), walkdir/ignore crates. Structure rules beyond "
         "global limits are C06/C07's; path spellings are C08's (canonical spellings here); counting is C02-C04 (files hold trivially classifiable lines).",
    ref="5 (C01)")

EXT_LANG = {"rs": "//", "py": "#", "go": "//", "js": "//"}


class Proj:
    def __init__(self, rng):
        self.rng = rng
        self.files = {}      # rel -> (code, comment, blank, ext or None)
        self.ign = {}        # rel -> number of lines under an ignore-next directive (the directive is one of the comments)
        self.dirs = set(["."])

    def add_file(self, rel, code, comment, blank, ignored=0):
        name = rel.rsplit("/", 1)[-1]
        ext = name.rsplit(".", 1)[1] if "." in name.strip(".") and not name.endswith(".") else None
        if name.startswith(".") and name.count(".") == 1:
            ext = None
        if ignored and ext in EXT_LANG:
            comment += 1
            self.ign[rel] = ignored
        else:
            self.ign.pop(rel, None)
        self.files[rel] = (code, comment, blank, ext)
        d = rel
        while "/" in d:
            d = d.rsplit("/", 1)[0]
            self.dirs.add(d)

    def body(self, rel):
        code, comment, blank, ext = self.files[rel]
        pre = EXT_LANG.get(ext, "//")
        k = self.ign.get(rel, 0)
        lines = ["x%d = %d" % (i, i) for i in range(code)] + [pre + " c%d" % i for i in range(comment - (1 if k else 0))] + [""] * blank
        self.rng.shuffle(lines)
        if k:
            # lines the file itself takes out of every count, whatever the counting mode
            at = self.rng.randint(0, len(lines))
            lines[at:at] = [pre + " sloc-guard:ignore-next %d" % k] + ["ig%d = %d" % (i, i) for i in range(k)]
        return "".join(l + "\n" for l in lines)


def gen_project(rng, lim):
    p = Proj(rng)
    dirs = ["", "src/", "src/gen/", "src/util/", "vendor/", "vendor/deep/", "tests/", "docs/", "a/b/c/", "docs/build/", "src/build/", "src2/", "tests-e2e/"]
    names = ["a.rs", "b.rs", "c.py", "d.go", "e.js", "notes.txt", "Makefile", "x.gen.rs", ".hidden.rs", "big.rs", "w.rs", "t_test.rs", "data.bin", "gen.rs"]
    n = rng.randint(4, 14)
    for _ in range(n):
        d, nm = rng.choice(dirs), rng.choice(names)
        size = rng.choice([0, 1, lim - 2, lim - 1, lim, lim + 1, lim + 3, 2 * lim, max(1, lim // 2)])
        size = max(0, size)
        comment = rng.choice([0, 0, 1, 3])
        blank = rng.choice([0, 0, 2])
        p.add_file(d + nm, size, comment, blank, ignored=rng.choice([0, 0, 0, 1, 3, lim]))
    return p


def gen_config(rng, lim, anchored_ok):
    def pat(x):
        # root-anchored patterns take effect under the canonical spelling only after the path-spelling repair
        return x if (anchored_ok and rng.random() < 0.5) else "**/" + x
    c = {"max_lines": lim, "extensions": rng.choice([["rs"], ["rs", "py"], ["rs", "py", "go", "js"], []]),
         "warn": rng.choice([("thr", 0.9), ("thr", 0.5), ("thr", 1.0), ("at", max(0, lim - 2)), ("thr", 0.8)]),
         "skip_comments": rng.random() < 0.8, "skip_blank": rng.random() < 0.8,
         "content_exclude": rng.choice([[], [pat("src/gen/**")], ["**/*.gen.rs"], [pat("docs/**"), "**/t_*.rs"]]),
         "scanner_exclude": rng.choice([[], ["**/vendor/**"], ["*.bin"], ["**/vendor/**", "*.txt"]] +
                                       ([["docs/build/**"], ["gen.rs", "*.bin"], ["docs/build/**", "gen.rs"]] if anchored_ok else [])),
         "rules": [], "gitignore": rng.choice([[], ["vendor/"], ["*.py"], ["src/gen/g*.rs", "docs/"], ["/tests/"]]),
         "structure": rng.choice([None, None, {"max_files": rng.choice([1, 2, 3, 5])}, {"max_dirs": rng.choice([0, 1, 2])},
                                  {"max_files": 3, "max_dirs": 2, "max_depth": rng.choice([1, 2, 3])}]),
         "wae_cfg": rng.random() < 0.15}
    for _ in range(rng.choice([0, 0, 1, 2, 3])):
        r = {"pattern": rng.choice([pat("src/**"), pat("tests/**"), "**/*.py", "**/Makefile", pat("src/util/*"), "**/big.rs", "**/*.rs", pat("vendor/**")]),
             "max_lines": rng.choice([1, lim - 1, lim + 2, 3 * lim, 0])}
        r["max_lines"] = max(0, r["max_lines"])
        w = rng.random()
        if w < 0.25 and r["max_lines"] > 1:
            r["warn_at"] = rng.randint(0, r["max_lines"] - 1)
        elif w < 0.5:
            r["warn_threshold"] = rng.choice([0.5, 0.75, 0.9, 1.0, 0.0])
        if rng.random() < 0.2:
            r["skip_comments"] = rng.random() < 0.5
        c["rules"].append(r)
    return c


def toml_of(c):
    t = ['version = "2"', "[scanner]", "gitignore = true",
         "exclude = [%s]" % ", ".join(json.dumps(x) for x in [".git/**"] + c["scanner_exclude"]),
         "[content]", "max_lines = %d" % c["max_lines"], "extensions = %s" % json.dumps(c["extensions"]),
         "skip_comments = %s" % str(c["skip_comments"]).lower(), "skip_blank = %s" % str(c["skip_blank"]).lower()]
    if c["warn"][0] == "thr":
        t.append("warn_threshold = %s" % repr(float(c["warn"][1])))
    else:
        t += ["warn_threshold = 1.0", "warn_at = %d" % c["warn"][1]]
    if c["content_exclude"]:
        t.append("exclude = %s" % json.dumps(c["content_exclude"]))
    for r in c["rules"]:
        t += ["[[content.rules]]", "pattern = %s" % json.dumps(r["pattern"]), "max_lines = %d" % r["max_lines"]]
        for k in ("warn_at", "warn_threshold"):
            if k in r:
                t.append("%s = %s" % (k, repr(float(r[k])) if k == "warn_threshold" else r[k]))
        if "skip_comments" in r:
            t.append("skip_comments = %s" % str(r["skip_comments"]).lower())
    if c["structure"]:
        t.append("[structure]")
        for k, v in c["structure"].items():
            t.append("%s = %d" % (k, v))
    if c["wae_cfg"]:
        t += ["[check]", "warnings_as_errors = true"]
    return "\n".join(t) + "\n"


def gen_flags(rng, lim):
    f = {"max_lines": None, "ext": None, "exclude": [], "warn_only": rng.random() < 0.15, "wae": rng.random() < 0.2,
         "no_gitignore": rng.random() < 0.2, "count_comments": rng.random() < 0.15, "count_blank": rng.random() < 0.1,
         "baseline": rng.random() < 0.35, "warn_threshold": None, "fail_fast": rng.random() < 0.15}
    if rng.random() < 0.2:
        f["max_lines"] = rng.choice([lim - 1, lim + 1, 1])
    if rng.random() < 0.15:
        f["ext"] = rng.choice(["rs", "py,go", "rs,js"])
    if rng.random() < 0.15:
        f["exclude"] = [rng.choice(["**/tests/**", "*.py", "**/a/**"])]
    if f["baseline"] and rng.random() < 0.35:
        # fail-fast with a baseline: a grandfathered failure must not stop the run before a new violator is seen
        f["fail_fast"] = True
    if f["baseline"] and rng.random() < 0.4:
        # the ratchet can fail the run (strict + stale entry) but never under --warn-only
        f["ratchet"] = rng.choice(["warn", "strict", "strict", "auto"])
        f["warn_only"] = f["warn_only"] or rng.random() < 0.3
    if rng.random() < 0.1:
        f["warn_threshold"] = rng.choice([0.5, 0.7, 1.0, 0.5, 1.0, 1.5])      # 1.5: rejected by the post-override validation (exit 2)
    return f


class Glob:
    def __init__(self, exe):
        self.exe, self.cache = exe, {}

    def match_many(self, pairs):
        todo = [p for p in set(pairs) if p not in self.cache]
        if todo:
            out, rc, err = run_lines(self.exe, ["%s\t%s" % p for p in todo])
            if len(out) != len(todo):
                raise CheckBroken("sgv-glob died")
            for p, o in zip(todo, out):
                self.cache[p] = (o == "1")
        return [self.cache[p] for p in pairs]

    def m(self, pat, path):
        return self.match_many([(pat, path)])[0]


def gitignored(rel, is_dir, patterns):
    """the generator's own simple patterns: `dir/`, `/dir/`, `*.ext`, `path/glob*.ext`"""
    import fnmatch
    parts = rel.split("/")
    for pat in patterns:
        if pat.endswith("/"):
            d = pat.strip("/")
            anchored = pat.startswith("/")
            # any directory component named d (anchored: only at the root)
            comps = parts if is_dir else parts[:-1]
            if anchored:
                if comps and comps[0] == d:
                    return True
            elif d in comps:
                return True
        elif "/" in pat:
            if fnmatch.fnmatchcase(rel, pat):
                return True
        else:
            if any(fnmatch.fnmatchcase(c, pat) for c in parts):
                return True
    return False


def ceil_pct(limit, t):
    v = math.ceil(float(limit) * float(t))
    return max(0, int(v))


def oracle(proj, cfg, flags, glob, baseline_keys, basename_reading=False):
    """documented scoping + limit semantics -> (facts, structure results, exit-relevant booleans).
    Paths are the canonical walked spelling ./rel ; patterns are matched against rel.
    A scanner exclude takes out what it matches as a path (filter.rs; a directory is pruned when the pattern
    without its trailing /** matches it, i.e. when all of its content is covered). basename_reading=True
    computes instead what StructureScanConfig::is_scanner_excluded does when a [structure] section exists
    (bare-name matches and the directory-name fallback): used ONLY to classify a disagreement as the
    recorded finding K01_basename_exclude, never as the expected answer."""
    use_gi = not flags["no_gitignore"]
    sc_ex = [".git/**"] + cfg["scanner_exclude"] + flags["exclude"]
    exts = flags["ext"].split(",") if flags["ext"] else cfg["extensions"]
    glob_lim = flags["max_lines"] if flags["max_lines"] is not None else cfg["max_lines"]
    skipc = cfg["skip_comments"] and not flags["count_comments"]
    skipb = cfg["skip_blank"] and not flags["count_blank"]
    # which directories survive (pruned: ignored or scanner-excluded); with a [structure] section the
    # directory-name fallback of `…/**` patterns also prunes by basename
    dir_names = []
    dir_pats = [p[:-3] for p in sc_ex if p.endswith("/**") and p[:-3]]
    quirk = basename_reading and bool(cfg["structure"])
    if quirk:
        for p in sc_ex:
            if p.endswith("/**"):
                last = p[:-3].rsplit("/", 1)[-1]
                if last and "*" not in last:
                    dir_names.append(last)

    def dir_pruned(d):
        if d == ".":
            return False
        comps = d.split("/")
        for i in range(1, len(comps) + 1):
            sub = "/".join(comps[:i])
            if use_gi and gitignored(sub, True, cfg["gitignore"]):
                return True
            name = comps[i - 1]
            if any(glob.m(p, sub) for p in sc_ex) or any(glob.m(q, sub) for q in dir_pats):
                return True
            if quirk and (any(glob.m(p, name) for p in sc_ex) or name in dir_names):
                return True
        return False

    facts, scanned_files = [], []
    for rel in sorted(proj.files):
        code, comment, blank, ext = proj.files[rel]
        d = rel.rsplit("/", 1)[0] if "/" in rel else "."
        name = rel.rsplit("/", 1)[-1]
        scanned = not dir_pruned(d)
        if scanned and use_gi and gitignored(rel, False, cfg["gitignore"]):
            scanned = False
        if scanned and any(glob.m(p, rel) or (quirk and glob.m(p, name)) for p in sc_ex):
            scanned = False
        if rel in (".sloc-guard.toml", ".gitignore"):
            pass
        if scanned:
            scanned_files.append(rel)
        # should_process
        excluded = any(glob.m(p, rel) for p in cfg["content_exclude"])
        rule_hits = [i for i, r in enumerate(cfg["rules"]) if glob.m(r["pattern"], rel)]
        selected = (not excluded) and (not exts or (ext is not None and ext in exts) or bool(rule_hits))
        counted = ext in EXT_LANG
        rule = cfg["rules"][rule_hits[-1]] if rule_hits else None
        limit = rule["max_lines"] if rule else glob_lim
        sc = rule["skip_comments"] if rule and "skip_comments" in rule else skipc
        if flags["count_comments"]:
            sc = False if not (rule and "skip_comments" in rule) else rule["skip_comments"]
        count = code + (0 if sc else comment) + (0 if skipb else blank)
        gthr = flags["warn_threshold"] if flags["warn_threshold"] is not None else (cfg["warn"][1] if cfg["warn"][0] == "thr" else 1.0)
        if rule and "warn_at" in rule:
            warn = rule["warn_at"]
        elif rule and "warn_threshold" in rule:
            warn = ceil_pct(rule["max_lines"], rule["warn_threshold"])
        elif cfg["warn"][0] == "at":
            warn = cfg["warn"][1]
        else:
            warn = ceil_pct(limit, gthr)
        facts.append({"path": "./" + rel, "scanned": scanned, "selected": selected, "counted": counted, "count": count, "limit": limit, "warn": warn})
    # structure: global limits only, on every scanned directory
    sres = []
    st = cfg["structure"]
    if st:
        for d in sorted(proj.dirs):
            if dir_pruned(d):
                continue
            fcount = sum(1 for f in scanned_files if (f.rsplit("/", 1)[0] if "/" in f else ".") == d)
            subdirs = [x for x in proj.dirs if x != "." and (x.rsplit("/", 1)[0] if "/" in x else ".") == d and not dir_pruned(x)]
            depth = 0 if d == "." else d.count("/") + 1
            path = "." if d == "." else "./" + d
            # within the limit a directory is warned above the rounded-up default share (0.8) of the limit
            for key, vt, val in (("max_files", "f", fcount), ("max_dirs", "d", len(subdirs)), ("max_depth", "m", depth)):
                if key in st and st[key] != -1:
                    if val > st[key]:
                        sres.append({"path": path, "vt": vt, "status": "F", "code": val, "limit": st[key]})
                    elif val > ceil_pct(st[key], 0.8):
                        sres.append({"path": path, "vt": vt, "status": "W", "code": val, "limit": st[key]})
    return facts, sres


def enc(s):
    return ",".join(str(ord(c)) for c in s) if s else "-"


def config_error(cfg, flags):
    """the documented domain after CLI overrides: an absolute warn point must stay below its limit"""
    glob_lim = flags["max_lines"] if flags["max_lines"] is not None else cfg["max_lines"]
    if cfg["warn"][0] == "at" and cfg["warn"][1] >= glob_lim:
        return True
    thr = flags["warn_threshold"]
    if thr is not None and not (0.0 <= thr <= 1.0):
        return True
    return False


def tail_records(sres, baseline):
    recs = []
    for s in sres:
        recs.append("S %s %s %s %d %d" % (enc(s["path"]), s["vt"], s["status"], s["code"], s["limit"]))
    if baseline is None:
        recs.append("NOBL")
    else:
        for k, e in baseline.items():
            if e["type"] == "content":
                recs.append("BC %s %d" % (enc(k), e["lines"]))
            else:
                recs.append("BS %s %s %d" % (enc(k), "f" if e["violation_type"] == "files" else "d", e["count"]))
    return recs


def model_line(facts, sres, flags, cfg, baseline):
    """fact-level model (check_run): every per-file fact comes from the python oracle (cross-check path)"""
    recs = ["RUN %d %d %s - %d %d" % (int(config_error(cfg, flags)), 1 if flags["baseline"] else 0, (flags.get("ratchet") or "-")[0], int(flags["warn_only"]), int(flags["wae"] or cfg["wae_cfg"]))]
    for f in facts:
        recs.append("F %s %d %d %d %d %d %d" % (enc(f["path"]), f["scanned"], f["selected"], f["counted"], f["count"], f["limit"], f["warn"]))
    return ";".join(recs + tail_records(sres, baseline))


def f64bits(x):
    return struct.unpack("<Q", struct.pack("<d", float(x)))[0]


def opt(x, f=str):
    return "~" if x is None else f(x)


def cmd_records(cfg, flags):
    """the content configuration and the check overrides, as the extracted check_command takes them"""
    if cfg["warn"][0] == "thr":
        wt, wa = f64bits(cfg["warn"][1]), None
    else:
        wt, wa = f64bits(1.0), cfg["warn"][1]          # toml_of writes warn_threshold = 1.0 next to warn_at
    recs = ["CMD %d %d %s %d %d" % (cfg["max_lines"], wt, opt(wa), int(cfg["skip_comments"]), int(cfg["skip_blank"]))]
    recs += ["E %s" % enc(e) for e in cfg["extensions"]]
    recs += ["X %s" % enc(p) for p in cfg["content_exclude"]]
    for r in cfg["rules"]:
        recs.append("R %s %d %s %s %s %s" % (enc(r["pattern"]), r["max_lines"], opt(r.get("warn_threshold"), lambda t: str(f64bits(t))), opt(r.get("warn_at")),
                                             opt(r.get("skip_comments"), lambda v: str(int(v))), opt(r.get("skip_blank"), lambda v: str(int(v)))))
    recs.append("CLI %s %d %d %s %s" % (opt(flags["max_lines"]), int(flags["count_comments"]), int(flags["count_blank"]),
                                        opt(flags["warn_threshold"], lambda t: str(f64bits(float(str(t))))),
                                        opt(flags["ext"], lambda e: "+".join(enc(x) for x in e.split(",")))))
    return recs


def input_records(proj, cfg, glob, facts):
    """per file what the walk, the counter and globset deliver: scanned (python walk model), raw line stats (None when the
    extension has no language), Path::extension, content.exclude bits and the rule match vector (sgv-glob, real globset)"""
    rels = sorted(proj.files)
    glob.match_many([(p, rel) for rel in rels for p in cfg["content_exclude"]] + [(r["pattern"], rel) for rel in rels for r in cfg["rules"]])
    recs = []
    for rel, f in zip(rels, facts):
        assert f["path"] == "./" + rel
        code, comment, blank, ext = proj.files[rel]
        ev = "".join("1" if glob.m(p, rel) else "0" for p in cfg["content_exclude"]) or "-"
        mv = "".join("1" if glob.m(r["pattern"], rel) else "0" for r in cfg["rules"]) or "-"
        ign = proj.ign.get(rel, 0)
        stats = "%d,%d,%d,%d,%d" % (code + comment + blank + ign, code, comment, blank, ign) if ext in EXT_LANG else "~"
        recs.append("I %s %d %s %s %s %s" % (enc(f["path"]), int(f["scanned"]), ev, mv, opt(ext, enc), stats))
    return recs


def command_line(proj, cfg, flags, glob, facts, sres, baseline):
    """composed model (Check/Compose.v check_command): python supplies the walk (`scanned`), the structure results and the
    glob oracle data; selected / counted / count / limit / warn / verdict / config error / exit are computed by the extraction"""
    recs = ["RUN 0 %d %s - %d %d" % (1 if flags["baseline"] else 0, (flags.get("ratchet") or "-")[0], int(flags["warn_only"]), int(flags["wae"] or cfg["wae_cfg"]))]
    return ";".join(recs + cmd_records(cfg, flags) + input_records(proj, cfg, glob, facts) + tail_records(sres, baseline))


KIND = {"c": "content", "sf": "file_count", "sd": "dir_count", "sm": "max_depth"}
STAT = {"P": "passed", "W": "warning", "F": "failed", "G": "grandfathered"}


def parse_model(out):
    out = out.split(" ## ")[0]
    f = out.split(" ")
    res = []
    for x in f[1:]:
        if not x:
            continue
        p, k, s = x.split("|")
        path = "".join(chr(int(t)) for t in p.split(",")) if p != "-" else ""
        res.append((path, KIND.get(k, k), STAT[s]))
    return int(f[0]), sorted(res)


def parse_command(out):
    """answer of the composed model: (exit, results, config rejected, computed facts)"""
    mexit, mres = parse_model(out)
    tail = out.split(" ## ")[1].split(" ")
    rej = tail[0] == "rej=1"
    facts = []
    for x in tail[1:]:
        if not x:
            continue
        p, sc, sel, cnt, count, limit, warn = x.split("|")
        facts.append({"path": "".join(chr(int(t)) for t in p.split(",")), "scanned": sc == "1", "selected": sel == "1", "counted": cnt == "1",
                      "count": int(count), "limit": int(limit), "warn": int(warn)})
    return mexit, mres, rej, facts


def facts_differ(py, coq):
    """python oracle facts vs facts computed by the extracted threshold model (count / limit / warn only matter when counted)"""
    out = []
    for a, c in zip(py, coq):
        ka = (a["path"], a["scanned"], a["selected"], a["counted"]) + ((a["count"], a["limit"], a["warn"]) if a["counted"] else ())
        kc = (c["path"], c["scanned"], c["selected"], c["counted"]) + ((c["count"], c["limit"], c["warn"]) if c["counted"] else ())
        if ka != kc:
            out.append({"python": ka, "coq": kc})
    if len(py) != len(coq):
        out.append({"python": len(py), "coq": len(coq)})
    return out


def parse_cli(out):
    j = json.loads(out)
    res = []
    for r in j["results"]:
        vc = r.get("violation_category")
        kind = "content"
        if isinstance(vc, dict) and vc.get("category") == "structure":
            kind = (vc.get("violation_type") or {}).get("type", "structure")
        res.append((r["path"], kind, r["status"]))
    return sorted(res)


def cli_args(flags, bl_path):
    a = ["check", "--format", "json", "--color", "never", "--no-sloc-cache"]
    if flags["max_lines"] is not None:
        a += ["--max-lines", str(flags["max_lines"])]
    if flags["ext"]:
        a += ["--ext", flags["ext"]]
    for x in flags["exclude"]:
        a += ["-x", x]
    if flags["warn_only"]:
        a.append("--warn-only")
    if flags["wae"]:
        a.append("--warnings-as-errors")
    if flags["no_gitignore"]:
        a.append("--no-gitignore")
    if flags["count_comments"]:
        a.append("--count-comments")
    if flags["count_blank"]:
        a.append("--count-blank")
    if flags["warn_threshold"] is not None:
        a += ["--warn-threshold", str(flags["warn_threshold"])]
    if flags["baseline"]:
        a += ["--baseline", bl_path]
    if flags.get("fail_fast"):
        a.append("--fail-fast")
    if flags.get("ratchet"):
        a += ["--ratchet", flags["ratchet"]]
    return a


def run(ctx):
    bins = cargo_build(["sgcli", "sgv-glob"])
    exe = bins["sgcli"]
    glob = Glob(bins["sgv-glob"])
    proofs_ok = proofs_step(ctx, PROP_FILES, extra_targets=["Extract/ExtractPipeline.vo"])
    model = ocaml_build("pipeline_drv", ["pipeline_ex"])
    anchored_ok = os.path.exists(os.path.join(ROOT, "known_findings", "C08.json")) and \
        any(x.get("class") == "D7" or "D7" in x.get("what", "") for x in json.load(open(os.path.join(ROOT, "known_findings", "C08.json"))).get("fixed", []))
    n = 120 if ctx.tier == "quick" else 1500
    mism, fails, hist, nontrivial = [], [], {}, set()
    hist_mtime = {}
    evals = 0
    xc = {"cases": 0, "disagreements": 0, "first": None}      # python-fact path vs composed Coq path
    xc_every = 3 if ctx.tier == "quick" else 4
    for k in range(n):
        rng = ctx.rng
        lim = rng.choice([3, 5, 8, 10])
        proj = gen_project(rng, lim)
        cfg = gen_config(rng, lim, anchored_ok)
        # files sized around each RULE's own limit and warn point (the project's sizes are drawn around the global
        # limit): a rule that lowers the limit below a global absolute warn point, or sets none of its own, is judged
        # at its own boundaries
        concrete = {"src/**": "src/r_a.rs", "tests/**": "tests/r_b.rs", "**/*.py": "src/r_c.py", "src/util/*": "src/util/r_d.rs",
                    "**/big.rs": "src/gen/big.rs", "**/*.rs": "r_e.rs", "vendor/**": "vendor/r_f.rs"}
        for r in cfg["rules"]:
            path = concrete.get(r["pattern"][3:] if r["pattern"].startswith("**/") and r["pattern"][3:] in concrete else r["pattern"])
            if path and rng.random() < 0.6:
                rl = r["max_lines"]
                size = max(0, rng.choice([rl - 1, rl, rl + 1, ceil_pct(rl, 0.9), ceil_pct(rl, 0.5), rl // 2]))
                proj.add_file(path, size, rng.choice([0, 0, 2]), rng.choice([0, 1]))
        with Sandbox() as sb:
            for rel in proj.files:
                fp = sb.write(rel, proj.body(rel))
                # the modification time of a readable file has no say in the verdict: some files are dated before 1970
                # (archives unpacked without time stamps, a clock that was never set), some far in the future
                r = rng.random()
                if r < 0.12:
                    os.utime(fp, (-315619200, -315619200))
                    hist_mtime["pre-1970"] = hist_mtime.get("pre-1970", 0) + 1
                elif r < 0.18:
                    os.utime(fp, (4102444800, 4102444800))
                    hist_mtime["year-2100"] = hist_mtime.get("year-2100", 0) + 1
            # the configuration and ignore files are entries of the root directory like any other
            if cfg["gitignore"]:
                sb.write(".gitignore", "\n".join(cfg["gitignore"]) + "\n")
                proj.add_file(".gitignore", 0, 0, 0)
            sb.write(".sloc-guard.toml", toml_of(cfg))
            proj.add_file(".sloc-guard.toml", 0, 0, 0)
            for fi in range(rng.choice([1, 2, 3])):
                flags = gen_flags(rng, lim)
                bl_path = os.path.join(sb.base, "bl.json")
                baseline = None
                if flags["baseline"]:
                    # a baseline holding a random subset of plausible keys (some violating, some not, some absent)
                    baseline = {}
                    for rel in proj.files:
                        if rng.random() < 0.4:
                            baseline["./" + rel] = {"type": "content", "lines": proj.files[rel][0], "hash": "0" * 64}
                    for d in proj.dirs:
                        if rng.random() < 0.3 and not flags.get("ratchet"):
                            baseline["." if d == "." else "./" + d] = {"type": "structure", "violation_type": rng.choice(["files", "dirs"]), "count": 9}
                    json.dump({"version": 2, "files": baseline}, open(bl_path, "w"))
                facts, sres = oracle(proj, cfg, flags, glob, baseline)
                rc, out, err = sb.run(exe, cli_args(flags, bl_path), env={"RAYON_NUM_THREADS": "1" if flags.get("fail_fast") else "2"})
                evals += 1
                # the composed model decides: scope, count, limit, warn point, verdicts, configuration error, exit code
                mo, _, _ = run_lines(model, [command_line(proj, cfg, flags, glob, facts, sres, baseline)])
                if not mo or " ## " not in mo[0]:
                    raise CheckBroken("pipeline driver died: %s" % (mo[:1],))
                mexit, mres, rejected, cfacts = parse_command(mo[0])
                if evals % xc_every == 0:
                    # cross-check: the independent python facts through the fact-level model check_run must give the same answer
                    oo, _, _ = run_lines(model, [model_line(facts, sres, flags, cfg, baseline)])
                    if not oo:
                        raise CheckBroken("pipeline driver died (fact-level line)")
                    oexit, ores = parse_model(oo[0])
                    xc["cases"] += 1
                    fd = [] if rejected else facts_differ(facts, cfacts)
                    if (oexit, ores) != (mexit, mres) or fd or rejected != config_error(cfg, flags):
                        xc["disagreements"] += 1
                        if xc["first"] is None:
                            xc["first"] = {"config": toml_of(cfg), "flags": flags, "files": {f: list(v) for f, v in proj.files.items()}, "facts": fd[:6],
                                           "python_path": [oexit, ores[:8]], "coq_path": [mexit, mres[:8]],
                                           "config_error": {"python": config_error(cfg, flags), "coq": rejected}}
                if mexit == 2 and rc == 2 and not out.strip():
                    hist["config_error"] = hist.get("config_error", 0) + 1
                    if not err.strip():
                        fails.append(("exit 2 without a diagnostic", cfg, flags, proj))
                    continue
                try:
                    cres = parse_cli(out)
                except Exception:
                    fails.append(("unparsable output (exit %d): %s %s" % (rc, out[:200], err[:300]), cfg, flags, proj))
                    continue
                for key in ("structure", "baseline", "warn_only", "wae", "no_gitignore"):
                    v = cfg.get(key) if key == "structure" else flags.get(key)
                    if v:
                        hist[key] = hist.get(key, 0) + 1
                hist["rules%d" % len(cfg["rules"])] = hist.get("rules%d" % len(cfg["rules"]), 0) + 1
                if any(s != "passed" for (_, _, s) in cres):
                    nontrivial.add(json.dumps([toml_of(cfg), sorted(proj.files.items()), sorted(flags.items(), key=str)], default=str))
                if flags.get("fail_fast") and rc == mexit and all(x in mres for x in cres):
                    # fail-fast may stop early: what it reports must be part of the full answer and the
                    # exit code must be the full run's (C11 decides the rest)
                    hist["fail_fast"] = hist.get("fail_fast", 0) + 1
                    continue
                if (cres != mres or rc != mexit) and cfg["structure"]:
                    # the recorded finding: the structure-aware scanner also applies excludes to bare names
                    qf, qs = oracle(proj, cfg, flags, glob, baseline, basename_reading=True)
                    if [f["scanned"] for f in qf] != [f["scanned"] for f in facts] or qs != sres:
                        qo, _, _ = run_lines(model, [command_line(proj, cfg, flags, glob, qf, qs, baseline)])
                        qexit, qres = parse_model(qo[0]) if qo else (None, None)
                        lost = sorted(f["path"] for f, g in zip(facts, qf) if f["scanned"] and not g["scanned"])
                        # the same pruning by bare name can also take out a DIRECTORY that holds no scanned file (all of
                        # them ignored): no file is lost then, but the directory counts of its parent change
                        lost_dirs = qs != sres
                        if qres == cres and qexit == rc and (lost or lost_dirs) and ctx.known("K01_basename_exclude", "files dropped: %s%s" % (lost[:4], "; directory results differ" if lost_dirs else "")):
                            hist["known_basename_exclude"] = hist.get("known_basename_exclude", 0) + 1
                            if "known_example" not in ctx.cov:
                                ctx.cov["known_example"] = {"config": toml_of(cfg), "lost": lost[:6], "cli_exit": rc, "spec_exit": mexit}
                            continue
                if cres != mres or rc != mexit:
                    d1 = [x for x in cres if x not in mres]
                    d2 = [x for x in mres if x not in cres]
                    mism.append({"config": toml_of(cfg), "gitignore": cfg["gitignore"], "flags": flags, "files": {f: list(v) for f, v in proj.files.items()},
                                 "baseline": baseline, "cli_exit": rc, "spec_exit": mexit, "only_cli": d1[:8], "only_spec": d2[:8], "stderr": err[:300]})
                if len(ctx.cov["samples"]) < 3:
                    ctx.sample({"config": toml_of(cfg), "flags": {a: b for a, b in flags.items() if b}, "files": {f: list(v[:3]) for f, v in proj.files.items()}, "exit": rc, "results": cres[:6]})
            # several scan roots at once (also roots whose names start with another root's name): every in-scope
            # file below any of them is evaluated, and the exit code follows from those files alone
            # (a root that an ignore file or a scanner exclude of its parent would skip is still scanned when it is
            # named explicitly, as in git and ripgrep: such roots are left out here)
            sc0 = [".git/**"] + cfg["scanner_exclude"]
            tops = sorted({rel.split("/")[0] for rel in proj.files if "/" in rel})
            tops = [t for t in tops if not gitignored(t, True, cfg["gitignore"])
                    and not any(glob.m(q, t) or (q.endswith("/**") and glob.m(q[:-3], t)) for q in sc0)]
            f0 = {"max_lines": None, "ext": None, "exclude": [], "warn_only": False, "wae": False, "no_gitignore": False, "count_comments": False,
                  "count_blank": False, "baseline": False, "warn_threshold": None, "fail_fast": False}
            # an ignore file of the project root that hides something BELOW one of the candidate roots: always run, with
            # a single sub-directory root too (the ignore file then lies above the scan root)
            ign_below = bool(cfg["gitignore"]) and any("/" in rel and rel.split("/")[0] in tops and
                                                       any(gitignored("/".join(rel.split("/")[:i]), i < rel.count("/") + 1, cfg["gitignore"]) for i in range(2, rel.count("/") + 2))
                                                       for rel in proj.files)
            if cfg["structure"] is None and len(tops) >= 1 and not config_error(cfg, f0) and (ign_below or (len(tops) >= 2 and rng.random() < 0.5)):
                roots = rng.sample(tops, rng.randint(1 if ign_below else 2, min(3, len(tops))))
                if ign_below:
                    hist["multi_root_ignore_file_above"] = hist.get("multi_root_ignore_file_above", 0) + 1
                use_include = rng.random() < 0.3
                facts0, _ = oracle(proj, cfg, f0, glob, None)
                sub = [f for f in facts0 if any(f["path"][2:].startswith(r + "/") for r in roots)]
                oo, _, _ = run_lines(model, [model_line(sub, [], f0, cfg, None)])
                if not oo:
                    raise CheckBroken("pipeline driver died (multi-root line)")
                mexit, mres = parse_model(oo[0])
                targets = [x for r in roots for x in ("--include", r)] if use_include else roots
                rc, out, err = sb.run(exe, ["check", *targets, "--format", "json", "--color", "never", "--no-sloc-cache"], env={"RAYON_NUM_THREADS": "2"})
                evals += 1
                hist["multi_root"] = hist.get("multi_root", 0) + 1
                strip = lambda rs: sorted((p[2:] if p.startswith("./") else p, k, st) for (p, k, st) in rs)
                try:
                    cres = strip(parse_cli(out))
                except Exception:
                    cres = None
                if cres != strip(mres) or rc != mexit:
                    mism.append({"config": toml_of(cfg), "gitignore": cfg["gitignore"], "roots": targets, "files": {f: list(v) for f, v in proj.files.items()},
                                 "cli_exit": rc, "spec_exit": mexit, "only_cli": [x for x in (cres or []) if x not in strip(mres)][:8],
                                 "only_spec": [x for x in strip(mres) if x not in (cres or [])][:8], "stderr": err[:300]})
    ctx.cov["evaluations"] = evals
    ctx.cov["distinct_nontrivial"] = len(nontrivial)
    ctx.cov["traces_validated_against_impl"] = evals - len(mism)
    ctx.cov["rule"] = ("generated project trees (nested directories, known/unknown/no extension, dotfiles, boundary sizes limit-1/limit/limit+1, comment and blank lines) "
                       "x configurations (global limit, warn threshold or absolute warn point, skip flags, extensions incl. empty, content.exclude, scanner.exclude, "
                       "0-3 overlapping content rules with own warn settings, .gitignore, global directory limits, [check]) x flag sets (--max-lines, --ext, -x, --warn-only, "
                       "--warnings-as-errors, --no-gitignore, --count-comments/--count-blank, --warn-threshold, --baseline with random entries); the per-path facts are recomputed "
                       "from the tree by tools/props/c01.py (globset as oracle), fed to the extracted pipeline model, and statuses + exit code compared with the CLI; "
                       "non-trivial = distinct case with at least one non-passed result")
    hist["file_mtime"] = hist_mtime
    ctx.cov["input_distribution"] = hist
    ctx.cov["model_vs_impl_mismatches"] = len(mism)
    ctx.cov["oracle_cross_check"] = dict(xc, what="python re-computation of the per-file facts + fact-level model check_run against the extracted composition check_command "
                                                  "(facts, configuration error, statuses, exit code); every %d-th run" % xc_every)
    ctx.cov["trusted_base"] = TRUSTED_COMMON + ["the walk model in tools/props/c01.py (ignore files, scanner excludes, directory pruning) and its global-directory-limit oracle are the executable reading of the documented rules; .gitignore semantics only for the generator's own simple patterns",
                                                "glob matching enters the composition as data computed by sgv-glob (real globset); Path::extension and the raw line stats of the generated files are computed by the generator"]
    ctx.assumptions = ["canonical spelling (no path argument); structure rules and placement are C06/C07; counting is C02-C04 (files here hold trivially classifiable lines)"]
    if xc["disagreements"]:
        # the two oracles (python facts / extracted composition) disagree: the machinery, not the tool, is inconsistent
        raise CheckBroken("python fact oracle and extracted check_command disagree on %d/%d cross-checked runs; first: %s" % (xc["disagreements"], xc["cases"], json.dumps(xc["first"], default=str)[:1500]))
    for m in mism[:5]:
        # a disagreement between the tool and the documented rules IS a violation of C01 with the project as replay
        ctx.violation({"kind": "property-oracle", "what": "statuses / exit code differ from the documented rules", **m})
    if not mism and not proofs_ok:
        ctx.violation({"kind": "proof-broken", "details": ctx.proof_broken}, no_input=True)
    for f in fails[:3]:
        ctx.violation({"kind": "property-oracle", "what": f[0], "config": toml_of(f[1]), "flags": f[2]})


def replay(ctx, path):
    print(open(path).read()[:4000])
    return 0
