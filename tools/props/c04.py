"""C04 -- comments and blank lines never change the code count."""
import glob
import json
from gen_counter import *  # noqa

PROP_FILES = ["Counter/Properties_C04.v"]
MANIFEST = dict(
    technique="Coq proof (per-line neutrality lemma lifted by induction over the line list) on the Gallina port of sloc.rs+comment.rs; tie = differential run of the extracted model plus the metamorphic insertion/deletion relation evaluated on SlocCounter itself",
    text="Theorems C04_blank_neutral, C04_line_comment_neutral (a whitespace-only or pure single-line-comment line leaves the machine state unchanged, whatever text follows the prefix), C04_insert_delete (every other line keeps its class, code count unchanged) hold for every syntax with well-formed markers, every state outside block comments and ignore regions, every comment body; the built-in registry (regenerated from the crate on every run) is shown well-formed by computation. The metamorphic relation is additionally checked on the implementation for generated programs and real source files at every sampled insertion point the tool itself places outside a block comment.",
    note="Trusted: Coq kernel, extraction, harness sgv-counter. Insertion points are decided through the public API only (a probe line must gain exactly one code line).",
    ref="5 (C04)")

PROBE = "zz9"
CORPUS_GLOBS = [("rs", "/repo/src/counter/*.rs"), ("rs", "/repo/src/checker/*.rs"), ("py", "/verif/tools/*.py"),
                ("py", "/usr/lib/python3/dist-packages/*.py"), ("c", "/usr/include/z*.h"), ("sh", "/repo/scripts/*.sh"),
                ("js", "/usr/share/javascript/*/*.js"), ("lua", "/usr/share/lua/*/*.lua"), ("rb", "/usr/lib/ruby/*/*.rb")]


def neutral_line(rng, sy):
    if rng.random() < 0.25 or not sy.single:
        return rng.choice(["", " ", "\t", "   ", " \t ", " ", "　"])
    for _ in range(20):
        body = directed_comment_body(rng, sy) if rng.random() < 0.45 else rand_text(rng, sy, rng.randint(0, 6), hostile=True)
        r = rng.random()
        if rng.random() < 0.08:
            # text glued to the prefix that some languages give another meaning (attributes, shebangs, doc markers)
            body = rng.choice(["[1] note", "[todo: x]", "![x]", "!/bin/sh", "(x)", "{x}", "<x>", "@x", ":x", "=x", "+x", "~", "%", "$x", "&x", "|x", "?x"]) + body
        if rng.random() < 0.05:
            # characters that other tools treat as line breaks but str::lines does not: they stay inside the comment
            k = rng.randint(0, len(body))
            body = body[:k] + rng.choice(["\u2028", "\u2029", "\u0085", "\r", "\x0b", "\x0c", "\u2028x\u2029"]) + "x" + body[k:]
        if r < 0.015:
            # a very long comment (inline source maps, licence banners on one line): still a comment
            body = (body + " data:application/json;base64," + "QUJD" * rng.choice([700, 2100, 2048, 4100, 20000]))
        elif r < 0.04:
            # endings that some languages treat as a line continuation
            body = body + rng.choice(["\\", " \\", "C:\\out\\", " ^", " _", " &", ",", " ..."])
        if "sloc-guard:ignore" in body:
            continue
        line = rng.choice(["", "", "  ", "\t"]) + rng.choice(sy.single) + rng.choice(["", " "]) + body
        t = line.strip()
        # a line that lexically STARTS a block comment is not a pure line comment (Lua --[[, or opener == prefix)
        if any(t.startswith(m[0]) for m in sy.multi if m[4] == 0 and m[0]):
            continue
        if any(m[4] == 1 for m in sy.multi) and re.match(r"--\[=*\[", t):
            continue
        if "\n" in line or line.endswith("\r"):
            continue
        return line
    return rng.choice(sy.single)


GLUED = ["[1] note", "[todo: x]", "![x]", "!/bin/sh", "(x)", "{x}", "<x>", "@x", ":x", "=x", "+x", "~", "%", "$x", "&x", "|x", "?x", "*", "-", "#", "/", "\\"]


def gen_cases(ctx, langs, n):
    rng = ctx.rng
    cases = []
    # directed: every language x every line-comment prefix x text glued to the prefix, inserted into a tiny code file
    for sy in langs:
        for pre in sy.single:
            for g in (GLUED if ctx.tier != "quick" else GLUED[:4] + rng.sample(GLUED[4:], 5)):
                line = pre + g
                t = line.strip()
                if any(t.startswith(m[0]) for m in sy.multi if m[4] == 0 and m[0]):
                    continue
                if any(m[4] == 1 for m in sy.multi) and re.match(r"--\[=*\[", t):
                    continue
                cases.append({"sy": sy, "L": ["x = 1", "y = 2"], "i": rng.randint(0, 2), "nl": line, "tag": "directed-glue"})
    # directed: a comment-only line whose TEXT mentions a block opener of the language, behind indentation of one-,
    # two- and three-byte white space (positions counted in characters and in bytes differ there)
    WIDE = ["", "  ", "\t", "\u3000\u3000", "\u00a0\u2003\u3000", "\u3000 \u3000\u3000\u3000"]
    for sy in langs:
        ops = [m[0] for m in sy.multi if m[0] and m[4] == 0]
        if any(m[4] == 1 for m in sy.multi):
            ops += ["--[[", "--[=[", "--[==["]
        for pre in sy.single:
            for op in ops:
                for ind in (WIDE if ctx.tier != "quick" else WIDE[:1] + rng.sample(WIDE[1:], 3)):
                    for sep in (" ", ""):
                        line = ind + pre + sep + op + " disabled for now"
                        t = line.strip()
                        if any(t.startswith(m[0]) for m in sy.multi if m[4] == 0 and m[0]):
                            continue
                        if any(m[4] == 1 for m in sy.multi) and re.match(r"--\[=*\[", t):
                            continue
                        cases.append({"sy": sy, "L": ["x = 1", "y = 2", "z = 3"], "i": rng.randint(0, 2), "nl": line, "tag": "directed-opener-in-comment-text"})
    for _ in range(n):
        sy = weighted_lang(rng, langs)
        nl = rng.randint(0, 8)
        L = [rand_line(rng, sy).replace("\r", "").replace("\n", "") for _ in range(nl)]
        i = rng.randint(0, nl)
        if L and rng.random() < 0.1:
            # a first line that interpreters treat specially, with the insertion in front of it: the class of a
            # line must not depend on its line number
            L[0] = rng.choice(["#!/usr/bin/env run", "#!/bin/sh", "#![allow(x)]", "<?xml version=1?>", "%!PS", "@echo off"])
            i = rng.choice([0, 0, i])
        cases.append({"sy": sy, "L": L, "i": i, "nl": neutral_line(rng, sy), "tag": "generated"})
    return cases


def corpus_cases(ctx, langs, per_file, maxfiles):
    rng = ctx.rng
    by_ext = {e: l for l in langs for e in l.exts}
    out = []
    for ext, pat in CORPUS_GLOBS:
        if ext not in by_ext:
            continue
        files = sorted(glob.glob(pat))[:maxfiles]
        for f in files:
            try:
                text = open(f, encoding="utf-8").read()
            except Exception:
                continue
            L = text.split("\n")[:160]
            L = [x.rstrip("\r") for x in L]
            for _ in range(per_file):
                i = rng.randint(0, len(L))
                out.append({"sy": by_ext[ext], "L": L, "i": i, "nl": neutral_line(rng, by_ext[ext]), "tag": "corpus:" + ext, "file": f})
    return out


def src(L):
    return "".join(l + "\n" for l in L)


def run(ctx):
    impl, model, langs = prepare_counter(ctx)
    proofs_ok = proofs_step(ctx, PROP_FILES)
    n = 4000 if ctx.tier == "quick" else 60000
    cases = load_corpus(langs) + gen_cases(ctx, langs, n) + corpus_cases(ctx, langs, 3 if ctx.tier == "quick" else 12, 6 if ctx.tier == "quick" else 40)
    reqs = []
    for c in cases:
        L, i = c["L"], c["i"]
        w = c["sy"].wire()
        reqs.append("classes\t%s\t%s" % (w, enc(src(L))))
        reqs.append("classes\t%s\t%s" % (w, enc(src(L[:i] + [PROBE] + L[i:]))))
        reqs.append("classes\t%s\t%s" % (w, enc(src(L[:i] + [c["nl"]] + L[i:]))))
    outs, errs = run_sharded(impl, reqs, timeout=900, args=["run"])
    mouts, merrs = run_sharded(model, reqs, timeout=900)
    if merrs:
        raise CheckBroken("model driver failed: %s" % merrs[:1])
    mism, fails = [], []
    hist, nontrivial, applicable = {}, set(), 0
    for k, c in enumerate(cases):
        o = [parse_out(x) if x != "<NOANSWER>" else {"kind": "<NOANSWER>", "raw": x} for x in outs[3 * k:3 * k + 3]]
        m = [parse_out(x) for x in mouts[3 * k:3 * k + 3]]
        hist[c["tag"]] = hist.get(c["tag"], 0) + 1
        for a, b in zip(o, m):
            if a.get("classes") != b.get("classes") or a["kind"] != b["kind"]:
                mism.append((c, a["raw"][:200], b["raw"][:200]))
                break
        if any(x["kind"] != "CLS" for x in o):
            fails.append((c, "panic / no answer: %s" % [x["raw"][:40] for x in o]))
            continue
        base, probe, mod = o[0]["classes"], o[1]["classes"], o[2]["classes"]
        i = c["i"]
        if "F" in base or "F" in probe or "F" in mod:
            continue   # ignore-file window: by design (documented 10-line window), not part of C04
        # insertion point is outside block comments and ignore regions iff the probe gains exactly one code line
        if not (len(probe) == len(base) + 1 and probe[i] == "C" and probe[:i] == base[:i]):
            continue
        applicable += 1
        want = "B" if c["nl"].strip() == "" else "M"
        exp = base[:i] + want + base[i:]
        if c["nl"].strip() != "":
            nontrivial.add((c["sy"].name, tuple(c["L"]), i, c["nl"]))
        if mod != exp:
            fails.append((c, "inserting %r at line %d changed classes: expected %s got %s" % (c["nl"], i, exp, mod)))
    ctx.cov["evaluations"] = len(cases)
    ctx.cov["applicable_insertion_points"] = applicable
    ctx.cov["distinct_nontrivial"] = len(nontrivial)
    ctx.cov["traces_validated_against_impl"] = len(cases) - len(mism)
    ctx.cov["rule"] = ("cases = (built-in language, line list, insertion index, neutral line); the insertion point counts only if a probe code line "
                       "inserted there gains exactly one code line (decided through SlocCounter::count only); neutral line = whitespace-only or "
                       "single-line-comment prefix + text over markers, quotes, escapes, openers, non-ASCII; per-line classes come from prefix counts; "
                       "non-trivial = distinct applicable case whose neutral line is a comment")
    ctx.cov["input_distribution"] = hist
    ctx.cov["model_vs_impl_mismatches"] = len(mism)
    for c in cases[:3]:
        ctx.sample({"lang": c["sy"].name, "lines": c["L"][:12], "insert_at": c["i"], "neutral_line": c["nl"]})
    ctx.cov["trusted_base"] = TRUSTED_COMMON
    ctx.assumptions = ["per-line classes are reconstructed from prefix counts of the public API"]
    for (c, f) in fails[:5]:
        ctx.violation({"kind": "property-oracle", "what": f, "lang": c["sy"].name, "syntax": c["sy"].wire(), "lines": c["L"], "insert_at": c["i"],
                       "neutral_line": c["nl"], "file": c.get("file")})
    if not fails:
        if mism:
            c, a, b = mism[0]
            ctx.violation({"kind": "correspondence-broken", "relation": "sgv-counter classes == extracted Counter.Sloc.classes_of",
                           "first_mismatch": {"lang": c["sy"].name, "syntax": c["sy"].wire(), "lines": c["L"], "insert_at": c["i"], "neutral_line": c["nl"], "impl": a, "model": b},
                           "mismatches": len(mism)}, no_input=True)
        elif not proofs_ok:
            ctx.violation({"kind": "proof-broken", "details": ctx.proof_broken}, no_input=True)
        elif errs:
            ctx.violation({"kind": "harness-died", "details": errs[:2]})


def load_corpus(langs):
    p = os.path.join(CORPUS, "c04.jsonl")
    out = []
    if os.path.exists(p):
        by_ext = {e: l for l in langs for e in l.exts}
        for line in open(p):
            j = json.loads(line)
            if j["ext"] in by_ext:
                out.append({"sy": by_ext[j["ext"]], "L": j["lines"], "i": j["insert_at"], "nl": j["neutral_line"], "tag": "corpus-min"})
    return out


def replay(ctx, path):
    j = json.load(open(path))
    if "first_mismatch" in j:
        j = j["first_mismatch"]
    impl, model, langs = prepare_counter(ctx)
    L, i, nl, w = j["lines"], j["insert_at"], j["neutral_line"], j["syntax"]
    reqs = ["classes\t%s\t%s" % (w, enc(src(x))) for x in (L, L[:i] + [PROBE] + L[i:], L[:i] + [nl] + L[i:])]
    print("impl :", run_lines(impl, reqs, args=["run"])[0])
    print("model:", run_lines(model, reqs)[0])
    return 0
