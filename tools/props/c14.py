"""C14 -- concurrent invocations neither corrupt nor lose persisted state."""
import concurrent.futures as cf
import json
import shutil
import time
from gen_state import *  # noqa
import sched as schedmod

PROP_FILES = ["State/Properties_C14.v"]
MANIFEST = dict(
    technique="Coq proof by invariants preserved by every atomic step of n processes over a file-system model (names/inodes/flock), for arbitrary schedules (list pid, lock time-outs as a scheduling outcome of try-lock-with-deadline); tied to /repo by driving real processes through explicit schedules with the verif-hooks barriers (tools/sched.py) and comparing final files, exit codes, messages, hook traces and lock waits with the model",
    text="Theorems C14_no_torn_read, C14_final_is_some_writers, C14_written_is_complete, C14_never_blocked, C14_wait_bounded, C14_finishes_under_any_schedule, C14_lock_wait_within_timeout (the polling loop as a state machine over elapsed/interval: gives up in [time-out, time-out + one poll interval); C14_doubling_backoff_overshoots is the counterexample for a doubling interval), C14_snapshot_not_lost, C14_update_lock_exclusive, C14_update_lock_name_stable (the lock is taken on the inode <file>.lock denoted at open time; that name is never unbound or rebound), C14_lost_update_characterised hold for every number of processes, every command mix, every poll budget and every schedule (unbounded; D14, D15, D27 repaired, no known class; C14_unlocked_update_lost keeps the D15 witness for writers without the update lock). Tie: systematic + sampled (quick) or all (thorough) interleavings of the update-lock / load / lock / rename / unlock points of two real processes (sampled: three) for each command pair sharing a file (snapshot+snapshot, check+check on the cache, update-baseline+check --baseline, update-baseline x2 incl. temp-file points, snapshot+stats history, check with auto_snapshot_on_check + snapshot, two snapshots reading the same clock second; a reader-only command must list a number of entries the file held at some moment of the run; the reader-holds-the-lock pairs also with the state file reached through a symbolic link) and each initial state, a reader run by the controller after every event (open, shared lock without waiting, read: never empty or torn), dedicated wall-clock measurements of a waiter blocked for good on the update lock / the exclusive / the shared lock with a 1000 ms time-out (bound: time-out + 50 ms + 0.25 s), a three-snapshot schedule family around upd:before_lock / upd:after_lock / snap:after_load, the inode number of <file>.lock sampled after every event (must never change or vanish), model-free continuation of a schedule after a divergence so that the property oracle still judges its outcome, lock time-outs forced with SGV_LOCK_TIMEOUT_MS=200.",
    note="The wait bound is per lock acquisition (a command makes up to three in a row: update, shared, exclusive), not per process. Trusted: Coq kernel, extraction, kernel flock/rename semantics (State/Fs.v), the barrier hooks (a process is paused only AT a hook point); wall-clock bounds (no lock wait beyond the time-out) are measured on each run, not proved; C14_wait_bounded is the model-level statement (bounded number of own steps, never blocked).",
    ref="5 (C14), 9")

LOCK_MS = 200
POLL_MS = 50
SLACK_S = 1.5
PTS_FULL = ["load:after_open", "load:after_lock", "aw:after_open_target", "aw:after_lock", "aw:after_rename"]
# two snapshots contend only for the update lock: inside it nobody else touches the target's locks
PTS_SNAP = ["upd:before_lock", "load:after_lock", "aw:after_lock", "aw:after_rename"]
PTS_SNAP_READER = ["upd:before_lock"] + PTS_FULL
# three snapshots paused around the update lock: lock file opened / lock held / history loaded
PTS_UPD = ["upd:before_lock", "upd:after_lock", "snap:after_load"]
# check with trend.auto_snapshot_on_check against a snapshot
PTS_AUTO = ["upd:before_lock", "upd:after_lock", "snap:after_load", "aw:after_rename"]
TIMING_MS = 1000            # lock time-out of the dedicated wait measurements
TIMING_SLACK_S = 0.25       # allowed beyond time-out + one poll interval (an un-clamped doubling interval overshoots by 0.5 s)
# two first-time writers paused inside the private part of the save as well (temp file creation / content)
PTS_TEMP = ["load:after_open", "load:after_lock", "aw:after_create_temp", "aw:after_flush", "aw:after_open_target", "aw:after_lock", "aw:after_rename"]


class Scen:
    def __init__(self, name, kind, files, procs, init_cmds, pts=PTS_FULL, config=None, link=False, ns=False):
        self.name, self.kind, self.files, self.procs, self.init_cmds, self.pts, self.config = name, kind, files, procs, init_cmds, pts, config
        # link: the state file is a symbolic link into <project>/shared/ (a state file shared between checkouts);
        # `absent` is then a dangling link. The model is the same: a link is a name like any other, the save renames over it.
        self.link = link
        # ns: every process is pid 1 of its own PID namespace (two containers sharing the project directory)
        self.ns = ns


def scenarios():
    snap = lambda i: {"args": ["snapshot", "--no-sloc-cache", "--force"], "now": NOW0 + i, "model": "snap"}
    proj = {"a.rs": BIG, "b.rs": SMALL}
    dirs = {"sa/x.rs": SMALL, "sb/y.rs": SMALL, "sc/z.rs": SMALL}
    bigs = {"sa/x.rs": BIG, "sb/y.rs": BIG + "fn g(){}\n", "sc/z.rs": BIG}
    init_hist = [(["snapshot", "--no-sloc-cache", "--force"], NOW0 - 200), (["snapshot", "--no-sloc-cache", "--force"], NOW0 - 100)]
    S = [
        Scen("snapshot+snapshot", "history", proj, {1: snap(1), 2: snap(2)}, init_hist, PTS_SNAP),
        Scen("check+check(cache)", "cache", dirs, {1: {"args": ["check", "sa"], "now": NOW0 + 1, "model": "cc"},
                                                   2: {"args": ["check", "sb"], "now": NOW0 + 2, "model": "cc"}},
             [(["check", "sc"], NOW0 - 100)]),
        Scen("update-baseline+check--baseline", "baseline", dict(proj, **{"c.rs": BIG + "fn f(){}\n"}),
             {1: {"args": ["check", ".", "--no-sloc-cache", "--baseline", BASELINE, "--update-baseline", "all"], "now": NOW0 + 1, "model": "ub"},
              2: {"args": ["check", ".", "--no-sloc-cache", "--baseline", BASELINE], "now": NOW0 + 2, "model": "cb"}},
             [(["check", "a.rs", "--no-sloc-cache", "--update-baseline", "all"], NOW0 - 100)]),
        Scen("update-baseline+update-baseline", "baseline", bigs,
             {1: {"args": ["check", "sa", "--no-sloc-cache", "--baseline", BASELINE, "--update-baseline", "all"], "now": NOW0 + 1, "model": "ub"},
              2: {"args": ["check", "sb", "--no-sloc-cache", "--baseline", BASELINE, "--update-baseline", "all"], "now": NOW0 + 2, "model": "ub"}},
             [(["check", "sc", "--no-sloc-cache", "--update-baseline", "all"], NOW0 - 100)]),
        Scen("update-baseline+update-baseline(temp files)", "baseline", bigs,
             {1: {"args": ["check", "sa", "--no-sloc-cache", "--baseline", BASELINE, "--update-baseline", "all"], "now": NOW0 + 1, "model": "ub"},
              2: {"args": ["check", "sb", "--no-sloc-cache", "--baseline", BASELINE, "--update-baseline", "all"], "now": NOW0 + 2, "model": "ub"}},
             [(["check", "sc", "--no-sloc-cache", "--update-baseline", "all"], NOW0 - 100)], PTS_TEMP),
        Scen("check(auto-snapshot)+snapshot", "history", dirs,
             {1: {"args": ["check", ".", "--no-sloc-cache"], "now": NOW0 + 1, "model": "asnap"}, 2: snap(2)}, init_hist, PTS_AUTO, CONFIG_AUTO),
        Scen("check(auto-snapshot)+stats-history", "history", dirs,
             {1: {"args": ["check", ".", "--no-sloc-cache"], "now": NOW0 + 1, "model": "asnap"},
              2: {"args": ["stats", "history"], "now": NOW0 + 2, "model": "hist"}}, init_hist, PTS_SNAP_READER, CONFIG_AUTO),
        Scen("snapshot+stats-history", "history", proj, {1: snap(1), 2: {"args": ["stats", "history"], "now": NOW0 + 2, "model": "hist"}}, init_hist, PTS_SNAP_READER),
        Scen("snapshot x3", "history", proj, {1: snap(1), 2: snap(2), 3: snap(3)}, init_hist, PTS_SNAP),
        Scen("snapshot x3 (update lock)", "history", proj, {1: snap(1), 2: snap(2), 3: snap(3)}, init_hist, PTS_UPD),
    ]
    # two snapshots whose clocks read the SAME second (B queued on the update lock behind A): both entries must stay
    S.append(Scen("snapshot+snapshot (same second)", "history", proj, {1: snap(1), 2: snap(1)}, init_hist, PTS_SNAP))
    # the reader-holds-the-lock pairs once more with the state file reached through a symbolic link
    for base, label in (("update-baseline+check--baseline", "baseline"), ("snapshot+stats-history", "history"), ("check+check(cache)", "cache")):
        b = [x for x in S if x.name == base][0]
        S.append(Scen("%s [symlinked %s]" % (base, label), b.kind, b.files, b.procs, b.init_cmds, b.pts, b.config, link=True))
    if ns_available():
        b = [x for x in S if x.name == "update-baseline+update-baseline(temp files)"][0]
        S.append(Scen(b.name + " [each pid 1 of its own PID namespace]", b.kind, b.files, b.procs, b.init_cmds, b.pts, b.config, ns=True))
    return S


def ns_available():
    import subprocess
    try:
        p = subprocess.run(["unshare", "--pid", "--fork", "sh", "-c", "echo $$"], capture_output=True, text=True, timeout=20)
        return p.returncode == 0 and p.stdout.strip() == "1"
    except Exception:
        return False


class Setup:
    """Templates (one per initial state), the entries each command writes on its own, the id universe."""

    def __init__(self, cli, sc):
        self.sc = sc
        self.templates = {}
        self.init_entries = {}
        for init in ("absent", "valid"):
            sb = Sandbox(prefix="sgv-c14t-")
            new_project(sb, sc.files, sc.config)
            old_mtimes(sb)
            if init == "valid":
                for args, now in sc.init_cmds:
                    run_cli(sb, cli, args, now=now)
            target = os.path.join(sb.proj, KIND_FILE[sc.kind])
            if sc.link:
                real = os.path.join(sb.proj, "shared", os.path.basename(target))
                os.makedirs(os.path.dirname(real), exist_ok=True)
                os.makedirs(os.path.dirname(target), exist_ok=True)
                if os.path.exists(target):
                    shutil.move(target, real)
                os.symlink(os.path.relpath(real, os.path.dirname(target)), target)
            st, doc, _ = read_state(target)
            if st != ("absent" if init == "absent" else "ok") or (sc.link and not os.path.islink(target)):
                raise CheckBroken(f"template {sc.name}/{init}: state file is {st}")
            self.templates[init] = sb
            self.init_entries[init] = entries_of(sc.kind, doc) if doc else None
        # what each command writes when it runs alone on the absent state, and its exit status
        self.own, self.solo_rc = {}, {}
        for pid, pr in sc.procs.items():
            with copy_of(self.templates["absent"]) as sb:
                rc, so, se = run_cli(sb, cli, pr["args"], now=pr["now"], env={"SGV_LOCK_TIMEOUT_MS": str(LOCK_MS)})
                st, doc, _ = read_state(os.path.join(sb.proj, KIND_FILE[sc.kind]))
                self.own[pid] = entries_of(sc.kind, doc) if doc else []
                self.solo_rc[pid] = rc
        keys = set()
        for v in list(self.own.values()) + [e for e in self.init_entries.values() if e]:
            keys.update(v)
        if sc.kind == "history":
            self.ids = {k: k for k in keys}
        else:
            self.ids = {k: i + 1 for i, k in enumerate(sorted(keys))}
        self.rev = {v: k for k, v in self.ids.items()}

    def close(self):
        for sb in self.templates.values():
            sb.close()

    def val(self, entries):
        return ",".join(str(self.ids[e]) for e in entries) if entries else "e"

    def model_cmds(self):
        out = []
        for pid, pr in sorted(self.sc.procs.items()):
            m = pr["model"]
            if m in ("snap", "asnap"):
                out.append("%d=%s:%d" % (pid, m, self.ids[self.own[pid][0]]))
            elif m in ("cc", "ub"):
                out.append("%d=%s:%s" % (pid, m, self.val(self.own[pid])))
            else:
                out.append("%d=%s" % (pid, m))
        return ";".join(out)

    def model_line(self, init, polls, sched):
        prior = "-" if init == "absent" else self.val(self.init_entries[init])
        return "sched\t%s\t%d\t%s\t%s\t%s" % (prior, polls, ",".join(self.sc.pts), self.model_cmds(), ",".join(map(str, sched)) if sched else "-")


def copy_of(tsb):
    sb = Sandbox(prefix="sgv-c14-")
    shutil.rmtree(sb.proj)
    shutil.copytree(tsb.proj, sb.proj, symlinks=True)
    return sb


def parse_model(line):
    f = line.split("\t")
    plan = []
    for tok in f[0].split():
        if tok == "/":
            continue
        pid, kind, where = tok.split(":", 2)
        plan.append((int(pid), kind, where))
    out = {"plan": plan, "target": f[1].split("=", 1)[1], "vers": f[2].split("=", 1)[1], "procs": {}}
    for ps in f[3:]:
        parts = ps.split("/")
        d = {"phase": parts[1]}
        for kv in parts[2:]:
            k, v = kv.split("=", 1)
            d[k] = v
        d["trace"] = [x for x in d["trace"].split(",") if x]
        out["procs"][int(parts[0])] = d
    return out


def mvalue(s):
    """model value string -> list of ids (None when not a complete document)"""
    if s.startswith("val:"):
        t = s[4:]
        return [] if t == "e" else [int(x) for x in t.split(",")]
    return None


def run_real(cli, setup, init, m, sched=None, lock_ms=LOCK_MS):
    """Drive real processes through the model's plan; return observations."""
    sc = setup.sc
    with copy_of(setup.templates[init]) as sb:
        sync = os.path.join(sb.base, "sync")
        ctl = schedmod.Controller(sync)
        tr = os.path.join(sb.base, "trace")
        for pid, pr in sc.procs.items():
            env = dict(sb.env)
            # one trace file per process: the operating-system pid does not identify a process (PID namespaces)
            env.update(base_env(pr["now"], {"SGV_TRACE": "%s.p%d" % (tr, pid), "SGV_LOCK_TIMEOUT_MS": str(lock_ms)}))
            ctl.add(pid, (["unshare", "--pid", "--fork"] if sc.ns else []) + [cli, "--color", "never"] + pr["args"], env, sb.proj)
        target = os.path.join(sb.proj, KIND_FILE[sc.kind])
        lockfile = target + ".lock"
        inodes = []

        probes = []

        def sample():
            try:
                inodes.append(os.stat(lockfile).st_ino)
            except FileNotFoundError:
                inodes.append(None)
            probes.append(probe_read(target))
        sample()
        div = ctl.run_plan(m["plan"], sc.pts, after_event=sample)
        if div is not None and sched is not None:
            # the real processes left the model's plan: go on model-free with the rest of the schedule,
            # so that the property oracle still sees how this schedule ends
            k = div["index"]
            rest = list(sched[k + 1:] if div["done"] else sched[k:]) if k < len(sched) else []
            ctl.run_raw(rest, after_event=sample)
        ctl.finish()
        sample()
        traces = {pid: [n for v in read_trace("%s.p%d" % (tr, pid)).values() for n in v] for pid in sc.procs}
        st, doc, _ = read_state(target)
        obs = {"divergence": div, "lock_inodes": inodes, "probes": probes, "lock_ms": lock_ms, "state": st, "entries": entries_of(sc.kind, doc) if doc else None,
               "temps": temp_files(os.path.dirname(target), os.path.basename(target)), "procs": {}}
        for pid, pr in ctl.procs.items():
            obs["procs"][pid] = {"rc": pr.rc, "out": pr.out.replace(sb.base, "<SB>"), "err": pr.err.replace(sb.base, "<SB>"),
                                 "trace": traces.get(pid, []), "waits": pr.waits}
        return obs


def probe_read(path):
    """One more reader, run by the controller after every event (all controlled processes rest at a
    barrier or have exited): open the state file, take the shared lock without waiting, read.
    -> absent | locked (a writer holds the exclusive lock: no read) | empty | torn | ok"""
    import fcntl
    try:
        f = open(path, "rb")
    except FileNotFoundError:
        return "absent"
    with f:
        try:
            fcntl.flock(f, fcntl.LOCK_SH | fcntl.LOCK_NB)
        except OSError:
            return "locked"
        try:
            raw = f.read()
        finally:
            fcntl.flock(f, fcntl.LOCK_UN)
    if not raw:
        return "empty"
    try:
        json.loads(raw.decode("utf-8"))
        return "ok"
    except Exception:
        return "torn"


def reported(sc, pid, op):
    """Did the process tell its user that the snapshot was recorded?"""
    if sc.procs[pid]["model"] == "asnap":
        return "Auto-snapshot recorded" in op["err"]
    return "Snapshot recorded" in op["out"]


def expected_rc(setup, pid, mp):
    sc = setup.sc
    m = sc.procs[pid]["model"]
    if mp["phase"] == "fail":
        return 2
    if m == "cb":
        failing = set()
        for q, pr in sc.procs.items():
            if pr["model"] == "ub":
                failing.update(setup.ids[e] for e in setup.own[q])
        loaded = set() if mp["loaded"] == "e" else {int(x) for x in mp["loaded"].split(",")}
        return 0 if failing <= loaded else 1
    return setup.solo_rc[pid]


def compare(setup, init, m, o):
    """model vs implementation; returns list of mismatch descriptions"""
    sc = setup.sc
    mm = []
    seen = [x for x in o["lock_inodes"] if x is not None]
    if len(set(seen)) > 1 or (seen and any(x is None for x in o["lock_inodes"][o["lock_inodes"].index(seen[0]):])):
        mm.append({"relation": "the update-lock name <file>.lock denotes one and the same inode from its creation on (C14_update_lock_name_stable: never unbound or rebound)",
                   "impl": o["lock_inodes"]})
    if o["divergence"]:
        mm.append({"relation": "real processes follow the model's plan event by event", "impl": o["divergence"]})
        return mm
    mv = mvalue(m["target"])
    if m["target"] == "absent":
        if o["state"] != "absent":
            mm.append({"relation": "final target", "impl": o["state"], "model": "absent"})
    elif mv is None:
        if o["state"] not in ("empty", "torn"):
            mm.append({"relation": "final target", "impl": o["state"], "model": m["target"]})
    else:
        got = None if o["entries"] is None else [setup.ids.get(e, -1) for e in o["entries"]]
        if sc.kind != "history":
            got, mv = (sorted(got) if got is not None else None), sorted(mv)
        if got != mv:
            mm.append({"relation": "final target entries == parse (final_target (exec init sched))", "impl": got, "model": mv})
    if o["temps"]:
        mm.append({"relation": "no temp file is left when all processes have finished", "impl": o["temps"]})
    for pid, mp in m["procs"].items():
        op = o["procs"][pid]
        mt = [x for x in mp["trace"] if not x.startswith("!")]
        if op["trace"] != mt:
            mm.append({"relation": "SGV_TRACE of process %d == model trace" % pid, "impl": op["trace"], "model": mt})
        if op["rc"] != expected_rc(setup, pid, mp):
            mm.append({"relation": "exit status of process %d" % pid, "impl": [op["rc"], op["err"][-200:]], "model": expected_rc(setup, pid, mp)})
        if reported(sc, pid, op) != (mp["ack"] == "true"):
            mm.append({"relation": "process %d reports Snapshot recorded" % pid, "impl": op["out"][:80], "model": mp["ack"]})
        if ("save skipped" in op["err"]) != ("!save_skipped" in mp["trace"]):
            mm.append({"relation": "process %d warns that the save was skipped" % pid, "impl": op["err"][-200:], "model": mp["saved"]})
        if ("Failed to acquire update lock" in op["err"]) != ("!update_lock_timeout" in mp["trace"]):
            mm.append({"relation": "process %d warns about the update lock" % pid, "impl": op["err"][-200:], "model": mp["trace"]})
        if ("Failed to acquire read lock" in op["err"]) != ("!read_lock_timeout" in mp["trace"]):
            mm.append({"relation": "process %d warns about the read lock" % pid, "impl": op["err"][-200:], "model": mp["trace"]})
        short = [w for w in op["waits"] if w[0] == "timeout" and w[2] < o["lock_ms"] / 1000.0 - 0.02]
        if short:
            mm.append({"relation": "a lock attempt the model lets time out waits for the whole time-out in process %d" % pid, "impl": short, "model": ">= %d ms" % o["lock_ms"]})
        if sc.procs[pid]["model"] == "hist" and mp["phase"] == "done":
            n = len([x for x in mp["loaded"].split(",") if x and x != "e"])
            want = "No history entries found." if n == 0 else "History (%d of %d entries)" % (n, n)
            if not op["out"].startswith(want):
                mm.append({"relation": "stats history lists what the model's reader loaded", "impl": op["out"][:60], "model": want})
    return mm


def oracle(setup, init, m, o):
    """The property on the implementation. Returns list of (class, what)."""
    sc = setup.sc
    bad = []
    final = o["entries"]
    for pid, op in o["procs"].items():
        for (kind, where, dt) in op["waits"]:
            # the first event contains the process start-up (config, scan); lock waits are in the later ones
            if kind != "spawn" and dt > (LOCK_MS + POLL_MS) / 1000.0 + SLACK_S:
                bad.append(("wait", "process %d waited %.2fs in one step (lock time-out %d ms)" % (pid, dt, LOCK_MS)))
        if "EOF while parsing" in op["err"] or "JSON" in op["err"] and op["rc"] == 2:
            bad.append(("torn-read", "process %d read an empty or torn %s file: %s" % (pid, sc.kind, op["err"].strip()[:100])))
        if sc.procs[pid]["model"] in ("snap", "asnap") and reported(sc, pid, op):
            ts = setup.own[pid][0]
            # every acknowledged snapshot is an entry of its own (two acknowledged in the same second: two entries)
            acked_same = [q for q, oq in o["procs"].items() if sc.procs[q]["model"] in ("snap", "asnap") and reported(sc, q, oq) and setup.own[q][0] == ts]
            if final is None or final.count(ts) < len(acked_same):
                skipped = "save skipped" in op["err"]
                bad.append(("skipped-acked" if skipped else "lost-update",
                            "process %d reported Snapshot recorded (entry %d; %d processes reported an entry with this time stamp) but the final history is %s" % (pid, ts, len(acked_same), final)))
        if sc.procs[pid]["model"] == "hist" and op["rc"] == 0:
            # a reader-only command lists what the file held at some moment of the run: the initial entries plus
            # 0..k of the snapshots of the other processes (the file is only ever replaced by a complete document)
            n0 = len(setup.init_entries[init] or [])
            k = sum(1 for q in sc.procs if sc.procs[q]["model"] in ("snap", "asnap"))
            # the TOTAL the header names is what the reader loaded; how many of them it prints is a display default
            mh = re.match(r"History \((\d+) of (\d+) entries\)", op["out"])
            total = 0 if op["out"].startswith("No history entries found.") else (int(mh.group(2)) if mh else None)
            if total is None or not (n0 <= total <= n0 + k):
                bad.append(("reader-lost-entries", "process %d (`%s`) printed `%s` although the history file held %d..%d entries during the whole run"
                            % (pid, " ".join(sc.procs[pid]["args"]), op["out"].strip().splitlines()[0][:60] if op["out"].strip() else op["err"].strip()[-80:], n0, n0 + k)))
    for i, pr in enumerate(o.get("probes", [])):
        if pr in ("empty", "torn"):
            bad.append(("torn-read", "a reader that opened the %s file and took the shared lock after event %d of the schedule read an %s file" % (sc.kind, i, pr)))
            break
    if o["state"] in ("empty", "torn"):
        bad.append(("torn-final", "the final %s file is %s" % (sc.kind, o["state"])))
    writers = [pid for pid, pr in sc.procs.items() if pr["model"] in ("ub", "cc")]
    if writers and final is not None:
        init_e = set(setup.init_entries[init] or [])
        cands = []
        if sc.kind == "baseline":
            cands = [set(setup.own[p]) for p in writers] + [init_e]
        else:
            own = [set(setup.own[p]) for p in writers]
            cands = [init_e] + [init_e | x for x in own] + [init_e | own[0] | own[-1]] + own + [own[0] | own[-1]]
        if set(final) not in cands:
            bad.append(("not-a-writers-content", "final %s entries %s are not what one of the writers wrote" % (sc.kind, sorted(final))))
    return bad


def witness_schedules(counts):
    """Systematic schedules at sync-point granularity: sequential, alternating, and every
    `one process paused after k segments while the others run to completion` (this is where
    locks are found held: polls and time-outs)."""
    pids = sorted(counts)
    out = []
    for order in (pids, pids[::-1]):
        out.append([p for p in order for _ in range(counts[p] + 1)])
    out.append([p for _ in range(max(counts.values()) + 1) for p in pids])
    for p in pids:
        others = [q for q in pids if q != p]
        for k in range(1, counts[p]):
            out.append([p] * k + [q for q in others for _ in range(counts[q] + 2)] + [p] * (counts[p] - k + 1))
    if len(pids) == 2:
        a, b = pids
        out.append([a] * 2 + [b] * 2 + [a] * (counts[a]) + [b] * (counts[b]))     # D15 shape: load, load, save, save
    return out


def update_lock_family(tier):
    """Three snapshot processes x, y, z around the update lock (segments: -> upd:before_lock ->
    upd:after_lock -> snap:after_load -> exit): x is paused inside its load-modify-save section
    after i segments, y after j (lock file opened, or trying to lock), x runs to its end, y goes
    on for k more segments, z runs for m segments, then y and z finish. polls = 0: a lock attempt
    that finds the lock held is the time-out outcome, so the plan has no no-op events."""
    orders = [(1, 2, 3), (3, 1, 2)] if tier == "quick" else [(1, 2, 3), (3, 1, 2), (2, 3, 1), (2, 1, 3)]
    out = []
    for (x, y, z) in orders:
        for i in (2, 3):
            for j in (1, 2):
                for k in (1, 2):
                    for m in (1, 2, 3, 4):
                        out.append([x] * i + [y] * j + [x] * (4 - i) + [y] * k + [z] * m + [y] * 4 + [z] * 4)
    return out


def run(ctx):
    cli, drv = prepare_state(ctx)
    proofs_ok = proofs_step(ctx, PROP_FILES)
    rng = ctx.rng
    S = scenarios()
    setups = []
    jobs = []       # (setup, init, polls, sched, tag)
    try:
        for sc in S:
            su = Setup(cli, sc)
            setups.append(su)
            three = len(sc.procs) == 3
            if sc.pts is PTS_UPD:
                for init in ("absent", "valid"):
                    for w in update_lock_family(ctx.tier):
                        jobs.append((su, init, 0, w, "update-lock-family"))
                continue
            for init in ("absent", "valid"):
                # segments of each process when it runs alone
                solo = parse_model(model(drv, [su.model_line(init, 1, [])])[0])
                counts = {p: sum(1 for (q, k, w) in solo["plan"] if q == p and k != "stuck") for p in sc.procs}
                for w in witness_schedules(counts):
                    jobs.append((su, init, 1, w, "witness"))
                    if three or sc.link or rng.random() < 0.35:
                        jobs.append((su, init, 0, w, "witness-polls0"))
                if (sc.link and ctx.tier == "quick") or sc.ns:
                    continue
                if ctx.tier == "thorough" and not three and not (sc.pts is PTS_TEMP and init == "valid"):
                    for s in schedmod.interleavings(counts):
                        jobs.append((su, init, 1, s, "enumerated"))
                    allsch = list(schedmod.interleavings(counts))
                    for s in rng.sample(allsch, min(40, len(allsch))):
                        jobs.append((su, init, 0, s, "sampled-polls0"))
                else:
                    n = (4 if not three else 3) if ctx.tier == "quick" else 100
                    base = [p for p, c in counts.items() for _ in range(c + 1)]
                    for _ in range(n):
                        s = list(base)
                        rng.shuffle(s)
                        jobs.append((su, init, rng.choice([0, 1, 1]), s, "sampled"))
        setups_by_name = {su.sc.name: su for su in setups}
        # corpus first
        cp = os.path.join(CORPUS, "state.jsonl")
        if os.path.exists(cp):
            byname = {su.sc.name: su for su in setups}
            cj = [json.loads(x) for x in open(cp) if x.strip()]
            jobs = [(byname[j["scenario"]], j["init"], j["polls"], j["schedule"], "corpus") for j in cj if j["scenario"] in byname] + jobs
        # model side in one batch
        mouts = model(drv, [su.model_line(init, polls, s) for (su, init, polls, s, tag) in jobs])
        ms = [parse_model(x) for x in mouts]
        for (su, init, polls, sch, tag), m in zip(jobs, ms):
            for (pid, kind, where) in m["plan"]:
                if kind != "stuck" and where not in su.sc.pts + ["exit", "spawn"]:
                    raise CheckBroken("scenario %s: process %d rests at %s which is not a sync point (a contended lock is not preceded by a barrier)" % (su.sc.name, pid, where))

        def one(i):
            su, init, polls, s, tag = jobs[i]
            return run_real(cli, su, init, ms[i], s)

        t0 = time.time()
        with cf.ThreadPoolExecutor(max_workers=8) as ex:
            obs = list(ex.map(one, range(len(jobs))))
        real_s = time.time() - t0
        mism, fails, hist = [], [], {}
        contended, timeouts, maxwait, maxadv = set(), 0, 0.0, 0.0
        known_seen = {}
        for (su, init, polls, s, tag), m, o in zip(jobs, ms, obs):
            key = f"{su.sc.name}/{init}/{tag}"
            hist[key] = hist.get(key, 0) + 1
            case = {"scenario": su.sc.name, "init": init, "polls": polls, "schedule": s, "points": su.sc.pts,
                    "commands": {p: pr["args"] for p, pr in su.sc.procs.items()}}
            kinds = [k for (_, k, _) in m["plan"]]
            if "poll" in kinds or "timeout" in kinds:
                contended.add((su.sc.name, init, polls, tuple(s)))
            timeouts += kinds.count("timeout")
            for op in o["procs"].values():
                for (wk, _, dt) in op["waits"]:
                    if wk == "timeout":
                        maxwait = max(maxwait, dt)
                    elif wk == "adv":
                        maxadv = max(maxadv, dt)
            mm = compare(su, init, m, o)
            if mm and o["divergence"] and "waited" not in str(mm):
                # one retry for scheduling noise (machine under load)
                o = run_real(cli, su, init, m, s)
                mm = compare(su, init, m, o)
            for x in mm:
                x["case"] = case
                mism.append(x)
            found = oracle(su, init, m, o)
            if any(k_ == "wait" for k_, _ in found):
                # a wall-clock measurement: the same schedule is run once more; a wait that does not come back was a
                # stall of the machine (snapshot of the sandbox, swap), not of the lock protocol, which is deterministic
                # under the controller
                again = oracle(su, init, m, run_real(cli, su, init, m, s))
                if not any(k_ == "wait" for k_, _ in again):
                    found = [x_ for x_ in found if x_[0] != "wait"]
                    ctx.cov["waits_not_reproduced"] = ctx.cov.get("waits_not_reproduced", 0) + 1
            for klass, what in found:
                rec = {"kind": "property-oracle", "class": klass, "what": what, "case": case,
                       "model": {"target": m["target"], "vers": m["vers"], "acks": {p: d["ack"] for p, d in m["procs"].items()}},
                       "replay_cmd": "python3 tools/vp.py check C14 --replay <this file>"}
                kf = {"lost-update": "K14_lost_update", "skipped-acked": "K14_skipped_acked", "torn-read": "K14_placeholder_read"}.get(klass)
                # a known class must also be what the model predicts for this schedule
                if kf and not mm and ctx.known(kf, what):
                    known_seen[kf] = known_seen.get(kf, 0) + 1
                else:
                    fails.append(rec)
        free_stats = free_running(ctx, cli, setups_by_name, fails)
        ctx.cov["lock_wait_timing"] = timing(ctx, cli, drv, setups_by_name, fails, mism)
    finally:
        for su in setups:
            su.close()
    ctx.cov["evaluations"] = len(jobs) + free_stats["runs"]
    ctx.cov["free_running"] = free_stats
    ctx.cov["distinct_nontrivial"] = len(contended)
    ctx.cov["traces_validated_against_impl"] = len(jobs) - len({json.dumps(x["case"], sort_keys=True) for x in mism})
    ctx.cov["exhaustive"] = False
    ctx.cov["two_process_interleavings_enumerated_completely"] = ctx.tier == "thorough"
    ctx.cov["rule"] = ("each case = real processes (2, sampled 3) of one command pair on one initial state of the shared file, driven through one schedule "
                       "over the sync points %s by tools/sched.py; the plan (advance / poll / time-out per event) comes from the extracted Coq model. "
                       "quick: witness schedules + sampled; thorough: every interleaving of the segments of two processes. "
                       "non-trivial = distinct (scenario, init, polls, schedule) in which at least one lock attempt found the lock held (poll or time-out)" % sorted({p for sc in S for p in sc.pts}))
    ctx.cov["input_distribution"] = hist
    ctx.cov["model_vs_impl_mismatches"] = len(mism)
    ctx.cov["lock_timeouts_explored"] = timeouts
    ctx.cov["max_lock_timeout_wait_s"] = round(maxwait, 3)
    ctx.cov["max_other_step_s"] = round(maxadv, 3)
    ctx.cov["lock_timeout_ms"] = LOCK_MS
    ctx.cov["real_run_wall_s"] = round(real_s, 1)
    ctx.cov["spawns"] = sum(len(j[0].sc.procs) for j in jobs)
    fc = {}
    for f in fails:
        fc[f["class"] + " @ " + f["case"]["scenario"]] = fc.get(f["class"] + " @ " + f["case"]["scenario"], 0) + 1
    ctx.cov["oracle_failures_outside_known_classes"] = fc
    for i in (2, 4, len(jobs) // 2):
        su, init, polls, s, tag = jobs[i]
        ctx.sample({"scenario": su.sc.name, "init": init, "polls": polls, "schedule": s, "plan": " ".join("%d:%s:%s" % e for e in ms[i]["plan"]),
                    "model_final": ms[i]["target"], "impl_final": obs[i]["entries"], "exits": {p: d["rc"] for p, d in obs[i]["procs"].items()}})
    ctx.cov["trusted_base"] = TRUSTED_COMMON + [
        "kernel flock(2)/rename(2) semantics as modelled in State/Fs.v (per-inode reader-writer lock; rename rebinds atomically)",
        "the barrier hooks pause a process only at a hook point; between two points it performs the model's steps of that segment",
        "wall-clock bounds (no step waits longer than the lock time-out) are measured on this run, not proved"]
    ctx.assumptions = ["`none waits longer than the lock time-out` is read PER LOCK ACQUISITION (what try_lock_*_with_timeout promises, what C14_lock_wait_within_timeout "
                       "proves and what the timing cases measure). One command performs up to three acquisitions in a row (update lock, shared read lock, exclusive "
                       "write lock), so one process may wait up to three time-outs in total (witness on the original code: a snapshot waits 0.8 s for the update lock, "
                       "then 1.0 s for the write lock with SGV_LOCK_TIMEOUT_MS=1000, then reports `save skipped`); C14_wait_bounded / C14_finishes_under_any_schedule "
                       "bound that total (rank x (polls + 1) own steps). The per-process reading would be a finding (K14_cumulative_wait); it is not claimed.",
                       "processes interact only through the one state file of the scenario", "retention limits are not configured (every recorded snapshot must stay)"]
    xcheck(ctx, drv, jobs)
    for f in fails[:5]:
        ctx.violation(f)
    if not fails:
        if mism:
            ctx.violation({"kind": "correspondence-broken", "relation": mism[0]["relation"], "first_mismatch": mism[0], "mismatches": len(mism),
                           "note": "the model no longer describes the concurrent behaviour, so the C14 theorems do not transfer; the property oracle found no violating schedule among %d" % len(jobs)},
                          no_input=True)
        elif not proofs_ok:
            ctx.violation({"kind": "proof-broken", "details": ctx.proof_broken}, no_input=True)


def free_running(ctx, cli, setups_by_name, fails):
    """No barriers: k real snapshot processes started together contend for the update lock with the
    real polling loop and the default 5 s time-out. Every process must finish well inside the
    time-out, and every snapshot reported as recorded must be in the final history (the model's
    prediction for any serial order: the initial entries plus every acknowledged entry)."""
    import subprocess
    su = setups_by_name["snapshot x3"]
    runs = 8 if ctx.tier == "quick" else 40
    stats = {"runs": 0, "processes": 0, "max_process_wall_s": 0.0, "all_recorded": 0}
    for n in range(runs):
        init = "valid" if n % 2 else "absent"
        k = 3 + n % 3
        with copy_of(su.templates[init]) as sb:
            procs = []
            t0 = time.time()
            for i in range(k):
                env = dict(sb.env)
                env.update(base_env(NOW0 + 10 + i))
                procs.append((NOW0 + 10 + i, time.time(), subprocess.Popen([cli, "--color", "never", "snapshot", "--no-sloc-cache", "--force"], cwd=sb.proj, env=env,
                                                                          stdout=subprocess.PIPE, stderr=subprocess.PIPE)))
            acked = []
            for ts, t1, p in procs:
                so, se = p.communicate(timeout=60)
                wall = time.time() - t1
                stats["max_process_wall_s"] = max(stats["max_process_wall_s"], round(wall, 3))
                if p.returncode != 0:
                    fails.append({"kind": "property-oracle", "class": "free-run-exit", "what": "snapshot exits %s: %s" % (p.returncode, se.decode()[-200:]),
                                  "case": {"scenario": "free-running snapshots", "init": init, "processes": k}})
                if b"Snapshot recorded" in so:
                    acked.append(ts)
                if wall > 5.0 + 0.05 + SLACK_S:
                    fails.append({"kind": "property-oracle", "class": "wait", "what": "free-running snapshot took %.2fs (lock time-out 5 s)" % wall,
                                  "case": {"scenario": "free-running snapshots", "init": init, "processes": k}})
            st, doc, _ = read_state(os.path.join(sb.proj, HISTORY))
            final = entries_of("history", doc) if doc else None
            stats["runs"] += 1
            stats["processes"] += k
            want = set(su.init_entries[init] or []) | set(acked)
            if final is None or set(final) != want or len(final) != len(want):
                fails.append({"kind": "property-oracle", "class": "lost-update", "what": "free-running snapshots: acknowledged %s, initial %s, final history %s" % (acked, su.init_entries[init], final),
                              "case": {"scenario": "free-running snapshots", "init": init, "processes": k}})
            elif len(acked) == k:
                stats["all_recorded"] += 1
    return stats


TIMING = [
    # (scenario, init, schedule at polls = 0, waiting process, what it waits for)
    ("snapshot+snapshot", "valid", [1, 1, 2, 2], 2, "exclusive update lock held by a snapshot paused inside its load-modify-save section"),
    ("update-baseline+check--baseline", "valid", [2, 2, 1, 1, 1, 1], 1, "exclusive lock on the baseline while a reader holds the shared lock"),
    ("update-baseline+check--baseline", "valid", [1, 1, 1, 1, 2, 2], 2, "shared lock on the baseline while a writer holds the exclusive lock"),
]


def timing(ctx, cli, drv, setups_by_name, fails, mism):
    """No process waits longer than the lock time-out: a waiter that finds the lock held for good gives
    up after time-out (+ at most one 50 ms poll, C14_lock_wait_within_timeout). Measured with a
    1000 ms time-out, one case at a time (nothing else of this check runs meanwhile); a measurement
    above the bound is repeated (the machine may be loaded) and only the smallest one counts."""
    want_ms = int(model(drv, ["wait\t%d\tconst" % TIMING_MS])[0])
    bound = want_ms / 1000.0 + 0.05 + TIMING_SLACK_S
    out = []
    for name, init, s, waiter, what in TIMING:
        su = setups_by_name[name]
        m = parse_model(model(drv, [su.model_line(init, 0, s)])[0])
        best, o = None, None
        for attempt in range(4):
            o = run_real(cli, su, init, m, s, lock_ms=TIMING_MS)
            w = [x[2] for x in o["procs"][waiter]["waits"] if x[0] == "timeout"]
            mm = compare(su, init, m, o)
            if mm or len(w) != 1:
                best = None
                continue
            best = w[0] if best is None else min(best, w[0])
            if best <= bound:
                break
        case = {"scenario": name, "init": init, "polls": 0, "schedule": s, "lock_timeout_ms": TIMING_MS, "waiter": waiter, "waits_for": what}
        if best is None:
            mism.append({"relation": "timing case follows the model's plan (one time-out of the waiter)", "case": case, "impl": compare(su, init, m, o)[:2]})
            continue
        out.append({"waits_for": what, "waited_s": round(best, 3)})
        if best > bound:
            fails.append({"kind": "property-oracle", "class": "wait", "case": case,
                          "what": "process %d waited %.3f s for a lock with a time-out of %d ms (bound: time-out + one 50 ms poll + %.2f s slack = %.2f s; model: %d ms)"
                                  % (waiter, best, TIMING_MS, TIMING_SLACK_S, bound, want_ms)})
    return {"lock_timeout_ms": TIMING_MS, "bound_s": round(bound, 3), "measured": out}


def coq_cmd(tok):
    m, _, arg = tok.partition(":")
    lst = "[" + ";".join(arg.split(",")) + "]" if arg and arg != "e" else "[]"
    return {"snap": "cmd_snapshot %s" % arg, "asnap": "cmd_auto_snapshot %s" % arg, "hist": "cmd_stats_history", "ub": "cmd_update_baseline %s" % lst,
            "cb": "cmd_check_baseline", "cc": "cmd_check_cache %s" % lst}[m]


def xcheck(ctx, drv, jobs):
    """Extraction against vm_compute: the same scheduling events evaluated inside Coq."""
    pick = list(range(len(jobs)))
    ctx.rng.shuffle(pick)
    pick = pick[:25 if ctx.tier == "quick" else 120]
    exprs, lines = [], []
    for i in pick:
        su, init, polls, sch, tag = jobs[i]
        line = su.model_line(init, polls, sch)
        f = line.split("\t")
        lines.append("\t".join(["schedraw"] + f[1:]))
        prior = "None" if f[1] == "-" else "Some (ser [%s])" % ";".join(x for x in f[1].split(",") if x != "e")
        pts = "[" + ";".join('"%s"%%string' % x for x in f[3].split(",")) + "]"
        cmds = "[" + ";".join("(%s, %s)" % (it.split("=")[0], coq_cmd(it.split("=")[1])) for it in f[4].split(";")) + "]"
        pids = sorted(int(it.split("=")[0]) for it in f[4].split(";"))
        sched = "[" + ";".join(f[5].split(",")) + "]" if f[5] != "-" else "[]"
        per = " ++ ".join("(match procs s %d with None => [7] | Some r => [if acked r then 1 else 0; match saved r with None => 0 | Some true => 1 | Some false => 2 end; if finished r then 1 else 0] end)" % p for p in pids)
        exprs.append("let s := fold_left (fun s p => fst (event %s s p)) %s (init_sys (%s) %s %s) in "
                     "(match final_target s with None => [0] | Some b => match parse b with Some v => 1 :: v | None => [2] end end) ++ [99] ++ %s"
                     % (pts, sched, prior, polls_nat(f[2]), cmds, per))
    res = coq_eval("From Coq Require Import NArith List String.\nFrom SG Require Import State.Fs State.AtomicWrite State.Concurrency.", exprs)
    mouts = model(drv, lines)
    diffs = [(l, r, mo) for l, r, mo in zip(lines, res, mouts) if [int(x) for x in re.findall(r"\d+", r)] != [int(x) for x in mo.split(",")]]
    ctx.cov["extraction_crosscheck"] = {"cases": len(exprs), "disagreements": len(diffs)}
    if diffs or len(res) != len(exprs):
        raise CheckBroken("extracted OCaml and vm_compute disagree on %d/%d schedules; first: %s" % (len(diffs), len(exprs), diffs[:1]))


def polls_nat(s):
    return "%s%%nat" % s


def replay(ctx, path):
    j = json.load(open(path))
    cli, drv = prepare_state(ctx)
    c = j.get("case") or j.get("first_mismatch", {}).get("case")
    if not c or "schedule" not in c:
        print("this replay names no single schedule (free-running case or proof obligation):", json.dumps(j)[:600])
        return 0
    sc = [s for s in scenarios() if s.name == c["scenario"]][0]
    su = Setup(cli, sc)
    try:
        m = parse_model(model(drv, [su.model_line(c["init"], c["polls"], c["schedule"])])[0])
        o = run_real(cli, su, c["init"], m, c["schedule"])
        print("plan :", " ".join("%d:%s:%s" % e for e in m["plan"]))
        print("model: final", m["target"], "vers", m["vers"], {p: (d["phase"], d["ack"], d["saved"]) for p, d in m["procs"].items()})
        print("impl : final", o["state"], o["entries"], {p: (d["rc"], d["out"][:40], d["err"][-120:]) for p, d in o["procs"].items()})
        print("diff :", compare(su, c["init"], m, o))
        print("oracle:", oracle(su, c["init"], m, o))
    finally:
        su.close()
    return 0
