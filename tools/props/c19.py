"""C19 -- diff and staged modes check exactly what git says changed."""
import ast
import concurrent.futures as cf
import json
import random
import shutil
import tempfile
from gen_git import *  # noqa

PROP_FILES = ["Git/Properties_C19.v"]
MANIFEST = dict(
    technique="Coq proof (nested induction over git trees) on a Gallina port of git/diff.rs + check_git_diff.rs, tied by differential execution of the extracted model against GitDiff (library) and `check --diff/--staged` (CLI) on random histories built with the real git, plus git diff as an independent oracle",
    text="Theorems C19_tree_diff_exact, C19_equal_oid_equal_flatten, C19_subtree_cases, C19_range_parse, C19_diff_files_exact, C19_diff_run_is_restriction, C19_files_list_is_restricted, C19_staged_exact hold for all trees / indexes / file lists (unbounded; names unique per tree). The tie to the Rust code is a seeded differential run over scripted git histories (adds, edits, deletions, renames, chmod, file<->directory swaps, nesting, branches, tags, merges, symlinks, submodule entries, empty repository, staged/partially staged states, detached HEAD, linked work trees with their own HEAD and index, an index named by GIT_INDEX_FILE) and every ref/range spelling, at library level (raw sets) and CLI level (reported files, statuses, structure results; also with an explicit --files list of members and non-members of the set and of spellings through symbolic links, fixes D105 / D190), and git diff --raw/--name-only --no-renames as second oracle.",
    note="Trusted: Coq kernel, extraction (ExtrOcamlBasic), harness sgv-git, gix object reading and rev-parsing (entering as data: the two trees / the index are read with git ls-tree / ls-files), SHA-1 collision freeness (object-id equality is modelled as structural equality), std::fs::canonicalize (entering as a table computed with os.path.realpath). Mode-only changes are changes, as for git diff --name-only (fix D70); git diff records that touch only symlinks / submodules are not about regular files and are left out of the oracle.",
    ref="5 (C19)")

SG_ARGS = ["check", "--format", "json", "--color", "never"]


def prepare_git(ctx):
    bins = cargo_build(["sgcli", "sgv-git"])
    ok, log = coq_make(["Git/TreeDiff.vo", "Extract/ExtractGit.vo"])
    if not ok:
        raise CheckBroken("coq model build failed:\n" + log[-3000:])
    model = ocaml_build("git_drv", ["git_ex"])
    return bins["sgcli"], bins["sgv-git"], model


# ------------------------------------------------------------------ one repository

def cli(sb, exe, cwd, extra, env=None):
    rc, out, err = sb.run(exe, SG_ARGS + extra, cwd=cwd, env=dict({"RAYON_NUM_THREADS": "2"}, **(env or {})), timeout=120)
    return rc, out, err


REG = ("100644", "100755")


def regular_change(r):
    """Does a git diff --raw record (srcmode, dstmode, srcoid, dstoid, status, path) describe a change of a
    regular file?  Every record with a regular file on either side does: content changes, mode-only
    changes (chmod; C19 asks for agreement with git diff --name-only on histories with mode changes, fix
    D70), and a regular file replaced by a link or the reverse, even when the blob id happens to be the
    same.  Records where neither side is a regular file (symlink / submodule added, deleted, retargeted)
    do not concern regular files at all."""
    return r[0] in REG or r[1] in REG


def stable_py(a, b):
    """python port of Git.TreeDiff.stable on nested trees (a = base list, b = target list)"""
    da = {e[0]: e for e in a}
    for e in b:
        o = da.get(e[0])
        if o is None:
            continue
        sa, sb_ = o[1] in "lc", e[1] in "lc"
        if sa != sb_:
            return False
        if o[1] == "t" and e[1] == "t" and not stable_py(o[2], e[2]):
            return False
    return True


def spec_sets(fa, fb):
    """right-hand sides of C19_tree_diff_exact on flattened trees (path -> (kind, oid))"""
    reg = lambda d, p: d[p] if p in d and d[p][0] in "bx" else None        # (mode, id) of a regular file
    chg = sorted(p for p in fb if reg(fb, p) is not None and reg(fa, p) != reg(fb, p))
    dele = sorted(p for p in fa if reg(fa, p) is not None and reg(fb, p) is None)
    return chg, dele


def run_script_case(script, subdir, exes, queries=None, seed=0, tier="quick", variant="norm", keep=None, staged_files=None, alt_index=None):
    """Execute one scripted history and all its queries against the implementation.
    Returns a dict with everything the model side and the oracles need."""
    sgcli, sgvgit, _ = exes
    rng = random.Random(seed)
    hist = {}
    with Sandbox("sgv-git-") as sb:
        repo = Repo(sb, subdir)
        if script is None:
            if variant == "nocommit":
                repo.do(["git", "init", "-q", "-b", "main"])
                repo.do(["write", CFG_NAME, rng.choice(CFGS)])
                for _ in range(rng.randint(1, 5)):
                    mutate_worktree(rng, repo, [], hist)
            else:
                build_history(rng, repo, hist, rng.randint(2, 6) if tier == "quick" else rng.randint(2, 10))
            index_state(rng, repo, hist)
        else:
            repo.replay(script)
        out = {"script": repo.script, "subdir": subdir, "variant": variant, "hist": hist, "seed": seed, "cases": [], "problems": []}
        info = repo_info(repo)
        commits = info["commits"]
        trees = {c: read_tree(repo, c) for c in commits}
        flats = {c: flat(trees[c]) for c in commits}
        if commits:
            rc, o = repo.git("rev-parse", *[c + "^{tree}" for c in commits])
            troid = dict(zip(commits, o.decode().split()))
        else:
            troid = {}
        idx = read_index(repo)
        cwd = os.path.join(repo.root, subdir) if subdir else repo.root      # repo.root: the linked work tree if the script made one
        sub_b = (subdir.encode() + b"/") if subdir else b""

        # ---- full run. When the project root is not the repository root the tool keeps its state in
        # <project>/.sloc-guard/, which the first run creates and later runs count as a subdirectory:
        # one discarded warm-up run so that every compared run sees the same tree.
        if subdir:
            cli(sb, sgcli, cwd, [])
        rc, o, e = cli(sb, sgcli, cwd, [])
        if rc not in (0, 1):
            out["problems"].append({"what": "full run failed", "rc": rc, "stderr": e[:300]})
            return out
        full_content, full_struct = split_results(o)
        full_files = [sub_b + p.encode() for p, _ in full_content]
        full_status = {sub_b + p.encode(): r for p, r in full_content}
        cand = set(full_files)
        for c in commits:
            cand |= set(flats[c])
        cand |= {p for (p, _, _, _) in idx}
        # spellings through symbolic links that a user could pass to --files (fix D190): a link to a regular
        # file, a file reached through a linked directory
        link_cands = []
        for l in repo.walk()[1]:
            rp = os.path.realpath(repo.abs(l))
            if os.path.isfile(rp):
                link_cands.append(l.encode())
            elif os.path.isdir(rp):
                link_cands += [(l + "/" + x).encode() for x in sorted(os.listdir(rp))[:3] if os.path.isfile(os.path.join(rp, x))]
        link_cands = [p for p in link_cands if p.startswith(sub_b)]
        cand |= set(link_cands)
        for q0 in (queries or []):
            cand |= {sub_b + f.encode() for f in (q0.get("files") or [])}
        cand |= {sub_b + f.encode() for f in (staged_files or [])}
        cmap = canon_map(repo, sorted(cand))
        cw = canon_wire(cmap)
        fw = paths_wire(full_files)
        out["full"] = {"files": [p.decode("utf-8", "replace") for p in full_files], "structure": len(full_struct),
                       "non_canonical_files": sum(1 for p in full_files if cmap.get(p) != p)}

        def check_cli_result(o2, label):
            """statuses equal the full run's, structure results identical; returns reported files"""
            content, struct = split_results(o2)
            files = [sub_b + p.encode() for p, _ in content]
            bad = []
            for (p, r), f in zip(content, files):
                if f not in full_status:
                    bad.append("reported %r which the full run does not report" % p)
                elif full_status[f] != r:
                    bad.append("status of %r differs from the full run: %s vs %s" % (p, r, full_status[f]))
            if struct != full_struct:
                def brief(x):
                    j = json.loads(x)
                    return "%s [%s] %s" % (j.get("path"), j.get("status"), j.get("override_reason"))
                lost = [brief(x) for x in full_struct if x not in struct]
                spurious = [brief(x) for x in struct if x not in full_struct]
                bad.append("structure results differ from the full run (%d vs %d entries): missing from the restricted run %s; "
                           "only in the restricted run %s%s" % (len(struct), len(full_struct), lost[:4], spurious[:4],
                                                              "" if lost or spurious else " (same entries, different order)"))
            return files, bad

        def listed_leg(mode_args, oracle, fixed=None):
            """`--files L` next to --diff / --staged (fix D105): L is a mix of members and non-members of the
            changed set, as the user would spell them from the project root; sometimes a path that does not
            exist.  Returns what was listed, what was reported, and the deviations from the full run."""
            if fixed is not None:
                rels = list(fixed)
            else:
                ins = [p for p in full_files if p in oracle]
                outs = [p for p in full_files if p not in oracle]
                pick = rng.sample(ins, min(len(ins), rng.randint(0, 2))) + rng.sample(outs, min(len(outs), rng.randint(1, 2)))
                rng.shuffle(pick)
                rels = [p[len(sub_b):].decode() for p in pick]
                if rng.random() < 0.15:
                    rels.insert(rng.randint(0, len(rels)), "no such file.rs")
                if link_cands and rng.random() < 0.4:
                    rels.insert(rng.randint(0, len(rels)), rng.choice(link_cands)[len(sub_b):].decode())
            if not rels:
                return None
            rc3, o3, e3 = cli(sb, sgcli, cwd, mode_args + ["--files"] + rels)
            leg = {"args": rels, "listed": [sub_b + r.encode() for r in rels]}
            if rc3 not in (0, 1):
                leg["error"] = {"rc": rc3, "stderr": e3[:300]}
                return leg
            content, struct = split_results(o3)
            leg["cli"] = [sub_b + p.encode() for p, _ in content]
            leg["bad"] = []
            for (p, r) in content:
                f = sub_b + p.encode()
                if f not in full_status:
                    leg["bad"].append("reported %r which the full run does not report" % p)
                elif full_status[f] != r:
                    leg["bad"].append("status of %r differs from the full run: %s vs %s" % (p, r, full_status[f]))
            if struct:
                leg["bad"].append("--files run carries %d structure results" % len(struct))
            leg["expected"] = [f for f in leg["listed"] if f in oracle]
            return leg

        # ---- staged
        lib_lines = ["staged\t" + cwd]
        lib_meta = [("staged",)]
        rc, o2, e2 = cli(sb, sgcli, cwd, ["--staged"])
        case = {"kind": "staged", "head": tree_wire(trees[info["head"]]) if info["head"] else "-",
                "index": index_wire(idx), "canon": cw, "files": fw, "unmerged": any(st for *_x, st in idx)}
        if rc in (0, 1):
            files, bad = check_cli_result(o2, "staged")
            case["cli"] = files
            case["cli_bad"] = bad
            raw = git_raw_diff(repo, ["--cached"])
            changed = {r[5]: r for r in raw if regular_change(r)}
            case["oracle"] = [p for p in full_files if p in changed and is_regular_on_disk(repo, p)]
            case["raw"] = {p.decode("utf-8", "replace"): list(r[:5]) for p, r in changed.items()}
            case["name_only_ok"] = git_name_only(repo, ["--cached"]) == sorted(r[5] for r in raw)
            # classifiers for the known classes
            case["link_targets"] = [cmap.get(p) for (p, k, _, _) in idx if k == "l" and cmap.get(p) is not None]
            case["index_deleted_present"] = [r[5] for r in raw if r[4] == "D" and r[0] in ("100644", "100755") and is_regular_on_disk(repo, r[5])]
            if staged_files is not None or (script is None and rng.random() < 0.6):
                leg = listed_leg(["--staged"], case["oracle"], staged_files)
                if leg:
                    case["listed"] = leg
        else:
            case["cli_error"] = {"rc": rc, "stderr": e2[:300]}
        out["cases"].append(case)

        # ---- staged, with the index git names in GIT_INDEX_FILE (fix D191): the state a pre-commit hook sees
        # under `git commit -a` (a copy of the index with every tracked modification added), under
        # `git add -A` semantics, or a name where no file exists (an empty index)
        if alt_index is None and script is None and rng.random() < 0.3:
            alt_index = rng.choice(["add -u", "add -u", "add -A", "missing"])
        if alt_index and not case.get("unmerged") and "cli" in case:
            alt = os.path.join(sb.base, "alt-index")
            rc0, o0 = repo.git("rev-parse", "--git-path", "index")
            own = os.path.join(repo.root, o0.decode().strip())
            if alt_index != "missing" and os.path.exists(own):
                shutil.copy2(own, alt)
            genv = {"GIT_INDEX_FILE": alt}
            repo.extra_env = genv
            try:
                if alt_index != "missing":
                    repo.git("add", "-u" if alt_index == "add -u" else "-A", ok_fail=True)
                idx2 = read_index(repo)
                raw2 = git_raw_diff(repo, ["--cached"])
            finally:
                repo.extra_env = None
            cand2 = {p_ for (p_, _, _, _) in idx2} - set(cmap)
            cmap2 = dict(cmap)
            cmap2.update(canon_map(repo, sorted(cand2)))
            case2 = {"kind": "staged_alt", "how": alt_index, "head": case["head"], "index": index_wire(idx2), "canon": canon_wire(cmap2), "files": fw,
                     "unmerged": any(st for *_x, st in idx2)}
            rc2, o2, e2 = cli(sb, sgcli, cwd, ["--staged"], env=genv)
            if rc2 in (0, 1):
                files2, bad2 = check_cli_result(o2, "staged_alt")
                changed2 = {r[5]: r for r in raw2 if regular_change(r)}
                case2["cli"] = files2
                case2["cli_bad"] = bad2
                case2["oracle"] = [p_ for p_ in full_files if p_ in changed2 and is_regular_on_disk(repo, p_)]
                case2["own_oracle"] = case["oracle"]
                lo2, _, _ = run_lines(sgvgit, ["staged\t" + cwd], timeout=60, env=dict(sb.env, **genv))
                case2["lib"] = lo2[0] if lo2 else "<NOANSWER>"
            else:
                case2["cli_error"] = {"rc": rc2, "stderr": e2[:300]}
            out["cases"].append(case2)

        # ---- diff queries
        qs = []
        if queries is not None:
            qs = queries
        elif commits:
            pairs = []
            head = info["head"]
            for c in commits:
                for p in info["parents"][c]:
                    pairs.append((p, c))
                    if rng.random() < 0.5:
                        pairs.append((c, p))       # reversed: what the child added is deleted, files still on disk
            for c in commits:
                pairs.append((c, head))
            for _ in range(4):
                pairs.append((rng.choice(commits), rng.choice(commits)))
            rng.shuffle(pairs)
            # commits that hold a pure in-place rename: their (parent, commit) and (commit-parent, HEAD) pairs
            # go to the front more often, so the CLI legs (first ncli pairs) see them
            rc_set = set(getattr(repo, "rename_commits", []))
            front = [pr for pr in pairs if pr[1] in rc_set and pr[0] in info["parents"].get(pr[1], []) and rng.random() < 0.5]
            if front:
                pairs = front[:2] + [pr for pr in pairs if pr not in front[:2]]
            npairs = 6 if tier == "quick" else 14
            ncli = 3 if tier == "quick" else 6
            for i, (a, b) in enumerate(pairs[:npairs]):
                sa = rng.choice(spellings_for(rng, a, info))
                sb2 = rng.choice(spellings_for(rng, b, info))
                form = "A..B"
                if b == head:
                    form = rng.choice(["A..B", "A..", "A"])
                qs.append({"a": a, "b": b, "spa": sa, "spb": sb2, "form": form, "cli": i < ncli})
        # corpus queries name their commits by spelling only
        for q in qs:
            for side, sp in (("a", "spa"), ("b", "spb")):
                if side not in q:
                    rc1, o4 = repo.git("rev-parse", "--verify", "-q", q[sp][1] + "^{commit}", ok_fail=True)
                    q[side] = o4.decode().strip() if rc1 == 0 else None
        # verify the spellings with git itself
        sps = sorted({q["spa"][1] for q in qs} | {q["spb"][1] for q in qs})
        resolved = {}
        if sps:
            rc, o3 = repo.git("rev-parse", *[s + "^{commit}" for s in sps], ok_fail=True)
            if rc == 0:
                resolved = dict(zip(sps, o3.decode().split()))
            else:
                for s in sps:
                    rc1, o4 = repo.git("rev-parse", "--verify", "-q", s + "^{commit}", ok_fail=True)
                    if rc1 == 0:
                        resolved[s] = o4.decode().strip()
        for q in qs:
            a, b = q["a"], q["b"]
            if resolved.get(q["spa"][1]) != a or resolved.get(q["spb"][1]) != b:
                out["problems"].append({"what": "generator produced a spelling git resolves differently", "q": q})
                continue
            spa, spb = q["spa"][1], q["spb"][1]
            rng_str = {"A..B": spa + ".." + spb, "A..": spa + "..", "A": spa}[q["form"]]
            case = {"kind": "diff", "a": a, "b": b, "range": rng_str, "spk": [q["spa"][0], q["spb"][0], q["form"]],
                    "ta": tree_wire(trees[a]), "tb": tree_wire(trees[b]), "canon": cw, "files": fw,
                    "oid_equal": troid[a] == troid[b], "stable": stable_py(trees[a], trees[b])}
            chg, dele = spec_sets(flats[a], flats[b])
            case["spec"] = [chg, dele]
            lib_lines.append("range\t%s\t%s\t%s" % (cwd, hx(spa), hx(spb if q["form"] == "A..B" else "HEAD")))
            lib_meta.append(("range", len(out["cases"])))
            if q.get("cli"):
                rc, o2, e2 = cli(sb, sgcli, cwd, ["--diff", rng_str])
                if rc in (0, 1):
                    files, bad = check_cli_result(o2, "diff")
                    case["cli"] = files
                    case["cli_bad"] = bad
                    raw = git_raw_diff(repo, [a, b])
                    changed = {r[5]: r for r in raw if regular_change(r)}
                    case["oracle"] = [p for p in full_files if p in changed and is_regular_on_disk(repo, p)]
                    case["raw_special"] = [r[5] for r in raw if r[0] in ("120000", "160000") or r[1] in ("120000", "160000")]
                    case["alias_targets"] = [v for k, v in cmap.items() if v != k]
                    case["name_only_ok"] = git_name_only(repo, [a, b]) == sorted(r[5] for r in raw)
                    if q.get("files") is not None or (queries is None and rng.random() < 0.5):
                        leg = listed_leg(["--diff", rng_str], case["oracle"], q.get("files"))
                        if leg:
                            case["listed"] = leg
                else:
                    case["cli_error"] = {"rc": rc, "stderr": e2[:300]}
            out["cases"].append(case)
        # ---- spellings --diff must reject (no base, three dots, empty)
        if commits and queries is None:
            for bad_range in ["..HEAD", "HEAD...HEAD", ""]:
                if rng.random() < 0.34:
                    rc, o2, e2 = cli(sb, sgcli, cwd, ["--diff=" + bad_range])
                    out["cases"].append({"kind": "reject", "range": bad_range, "rc": rc})
        elif not commits and queries is None:
            rc, o2, e2 = cli(sb, sgcli, cwd, ["--diff", "HEAD"])
            out["cases"].append({"kind": "reject", "range": "HEAD (no commits)", "rc": rc})
        # ---- library level
        lo, lrc, lerr = run_lines(sgvgit, lib_lines, timeout=120, env=sb.env)
        for k, meta in enumerate(lib_meta):
            ans = lo[k] if k < len(lo) else "<NOANSWER>"
            if meta[0] == "staged":
                out["cases"][0]["lib"] = ans
            else:
                out["cases"][meta[1]]["lib"] = ans
        out["ngit"] = repo.ngit
        if keep is not None:
            keep(repo, out)
    return out


# ------------------------------------------------------------------ the check

def corpus_cases():
    p = os.path.join(CORPUS, "git.jsonl")
    out = []
    # SGV_NO_CORPUS=1: generated histories only (to measure what the generator finds by itself)
    if os.path.exists(p) and not os.environ.get("SGV_NO_CORPUS"):
        for line in open(p):
            if line.strip():
                out.append(json.loads(line))
    return out


def full_set_of(res):
    return set(f.encode() for f in res.get("full", {}).get("files", []))


def dec_list(ps):
    return [p.decode("utf-8", "replace") for p in ps]


def private_copies(exes):
    """Other checks rebuild in the same cargo target directory while this one runs (cargo replaces the
    binaries in place): work on private copies, removed at the end of the run."""
    d = tempfile.mkdtemp(prefix="sgv-gitbin-", dir=os.environ.get("SGV_TMP", "/tmp"))
    out = []
    for e in exes[:2]:
        t = os.path.join(d, os.path.basename(e))
        shutil.copy2(e, t)
        out.append(t)
    return d, (out[0], out[1], exes[2])


def run(ctx):
    bindir, exes = private_copies(prepare_git(ctx))
    try:
        run_with(ctx, exes)
    finally:
        shutil.rmtree(bindir, ignore_errors=True)


def run_with(ctx, exes):
    sgcli, sgvgit, model = exes
    proofs_ok = proofs_step(ctx, PROP_FILES)
    nrepo = 300 if ctx.tier == "quick" else 2500
    jobs = []
    for c in corpus_cases():
        jobs.append(dict(script=c["script"], subdir=c.get("subdir"), queries=c.get("queries"), seed=0, variant="corpus:" + c.get("name", "?"), staged_files=c.get("staged_files"), alt_index=c.get("alt_index")))
    for k in range(nrepo):
        r = ctx.rng.random()
        variant = "nocommit" if r < 0.07 else ("subdir" if r < 0.17 else "norm")
        jobs.append(dict(script=None, subdir="pkg" if variant == "subdir" else None, seed=ctx.rng.randrange(1 << 40), variant=variant))
    results = []
    with cf.ThreadPoolExecutor(max_workers=14) as ex:
        futs = [ex.submit(run_script_case, j["script"], j["subdir"], exes, j.get("queries"), j["seed"], ctx.tier, j["variant"], None, j.get("staged_files"), j.get("alt_index")) for j in jobs]
        for f in futs:
            results.append(f.result())

    # ---- model side: one line per comparison
    lines, meta = [], []
    for ri, res in enumerate(results):
        for ci, c in enumerate(res["cases"]):
            if c["kind"] == "diff":
                lines.append("range\t%s\t%s\t%s" % (c["ta"], c["tb"], c["canon"])); meta.append((ri, ci, "range"))
                lines.append("cmp\t%s\t%s" % (c["ta"], c["tb"])); meta.append((ri, ci, "cmp"))
                lines.append("oideq\t%s\t%s" % (c["ta"], c["tb"])); meta.append((ri, ci, "oideq"))
                lines.append("wf\t%s" % c["ta"]); meta.append((ri, ci, "wf"))
                lines.append("wf\t%s" % c["tb"]); meta.append((ri, ci, "wf"))
                if "cli" in c:
                    lines.append("diff\t%s\t%s\t%s\t%s" % (c["ta"], c["tb"], c["canon"], c["files"])); meta.append((ri, ci, "diff"))
                if "listed" in c and "cli" in c["listed"]:
                    lines.append("diff\t%s\t%s\t%s\t%s" % (c["ta"], c["tb"], c["canon"], paths_wire(c["listed"]["listed"]))); meta.append((ri, ci, "listed"))
            elif c["kind"] == "staged_alt" and "cli" in c:
                lines.append("staged\t%s\t%s\t%s" % (c["head"], c["index"], c["canon"])); meta.append((ri, ci, "alt_lib"))
                lines.append("stagedf\t%s\t%s\t%s\t%s" % (c["head"], c["index"], c["canon"], c["files"])); meta.append((ri, ci, "alt_cli"))
            elif c["kind"] == "staged":
                lines.append("staged\t%s\t%s\t%s" % (c["head"], c["index"], c["canon"])); meta.append((ri, ci, "staged"))
                if "cli" in c:
                    lines.append("stagedf\t%s\t%s\t%s\t%s" % (c["head"], c["index"], c["canon"], c["files"])); meta.append((ri, ci, "stagedf"))
                if "listed" in c and "cli" in c["listed"]:
                    lines.append("stagedf\t%s\t%s\t%s\t%s" % (c["head"], c["index"], c["canon"], paths_wire(c["listed"]["listed"]))); meta.append((ri, ci, "listed"))
    mouts, merrs = run_sharded(model, lines, timeout=600)
    if merrs or any(o.startswith("BAD") or o == "BADLINE" for o in mouts):
        raise CheckBroken("model driver failed: %s" % (merrs[:1] or [o for o in mouts if o.startswith("BAD")][:1]))

    mism, viol, stats = [], [], {"lib_range": 0, "lib_staged": 0, "cli_diff": 0, "cli_staged": 0, "oideq": 0, "spec_instances": 0,
                                 "pairs_with_special_typechange": 0, "rejects": 0, "spelling_rejected_by_gix": 0,
                                 "cli_files_list": 0, "cli_files_list_members": 0, "cli_files_list_nonmembers": 0, "cli_files_list_symlink_spellings": 0,
                                 "staged_alt_index": 0, "staged_alt_index_differs_from_own": 0}
    hist, spk_hist, variants = {}, {}, {}
    nontrivial = set()
    stats["scanned_files"] = sum(len(r["full"]["files"]) for r in results if "full" in r)
    stats["scanned_files_not_canonical"] = sum(r["full"]["non_canonical_files"] for r in results if "full" in r)
    stats["runs_with_structure_results"] = sum(1 for r in results if "full" in r and r["full"]["structure"])
    for res in results:
        variants[res["variant"].split(":")[0]] = variants.get(res["variant"].split(":")[0], 0) + 1
        for k, v in res["hist"].items():
            hist[k] = hist.get(k, 0) + v
        for p in res["problems"]:
            raise CheckBroken("generator problem: %s" % json.dumps(p, default=str)[:600])

    def replay_obj(res, c, extra):
        d = {"script": res["script"], "subdir": res["subdir"], "variant": res["variant"], "case_kind": c["kind"]}
        if c["kind"] == "diff":
            d["queries"] = [{"a": c["a"], "b": c["b"], "spa": ["sha", c["a"]], "spb": ["sha", c["b"]], "form": "A..B", "cli": True}]
            d["range_used"] = c["range"]
            if "listed" in c:
                d["queries"][0]["files"] = c["listed"]["args"]
        elif c["kind"] == "staged" and "listed" in c:
            d["staged_files"] = c["listed"]["args"]
        elif c["kind"] == "staged_alt":
            d["alt_index"] = c["how"]
        d.update(extra)
        d["replay_cmd"] = "python3 tools/vp.py check C19 --replay <this file>"
        return d

    for (ri, ci, what), mo in zip(meta, mouts):
        res = results[ri]
        c = res["cases"][ci]
        if what == "range":
            stats["lib_range"] += 1
            for k in c["spk"]:
                spk_hist[k] = spk_hist.get(k, 0) + 1
            lib = c.get("lib", "<NOANSWER>")
            if lib.startswith("ERR"):
                core = c["spk"][0] in CORE_SPELLINGS and c["spk"][1] in CORE_SPELLINGS
                if core:
                    mism.append((res, c, "library get_changed_files_range(%s) = %s but git resolves both refs" % (c["range"], lib)))
                else:
                    stats["spelling_rejected_by_gix"] += 1
                    ctx.notes.append({"spelling_rejected": c["range"], "kinds": c["spk"], "answer": lib})
                continue
            if lib != mo:
                mism.append((res, c, "get_changed_files_range: impl %s / model %s" % (dec_list(parse_paths(lib)) if lib.startswith("OK") else lib, dec_list(parse_paths(mo)))))
            if len(mo) > 2:
                nontrivial.add((c["ta"], c["tb"]))
        elif what == "cmp":
            # instance of C19_tree_diff_exact on real trees
            if not c["stable"]:
                stats["pairs_with_special_typechange"] += 1
            if True:
                stats["spec_instances"] += 1
                f = mo.split(" ")
                di = f.index("D")
                mc = sorted(unhx(h) for h in f[1:di] if h)
                md = sorted(unhx(h) for h in f[di + 1:] if h)
                if [mc, md] != c["spec"]:
                    mism.append((res, c, "model compare_trees_recursive differs from the right-hand side of C19_tree_diff_exact: %s vs %s" % ([dec_list(mc), dec_list(md)], [dec_list(x) for x in c["spec"]])))
        elif what == "wf":
            if mo != "1":
                raise CheckBroken("a tree read from git lists a name twice (hypothesis wf of the theorems fails)")
        elif what == "oideq":
            stats["oideq"] += 1
            if (mo == "1") != c["oid_equal"]:
                mism.append((res, c, "model oid_eqb on the root trees = %s but git tree ids equal = %s" % (mo, c["oid_equal"])))
        elif what == "diff":
            stats["cli_diff"] += 1
            m = parse_paths(mo)
            if c["cli"] != m:
                mism.append((res, c, "check --diff %s reported %s, model %s" % (c["range"], dec_list(c["cli"]), dec_list(m))))
            for b in c["cli_bad"]:
                viol.append((res, c, {"kind": "restriction", "what": b, "range": c["range"]}))
            if not c["name_only_ok"]:
                raise CheckBroken("git diff --raw and --name-only disagree")
            if c["cli"] != c["oracle"]:
                diff = set(c["cli"]) ^ set(c["oracle"])
                if diff and all(p in c["alias_targets"] and p in c["cli"] for p in diff):
                    if not ctx.known("symlink-alias", c["range"]):
                        viol.append((res, c, {"kind": "git-diff-oracle", "class": "symlink-alias", "range": c["range"], "reported": dec_list(c["cli"]), "git_diff_existing_regular": dec_list(c["oracle"])}))
                elif diff and all(p in c["raw_special"] for p in diff):
                    if not ctx.known("typechange-special", c["range"]):
                        viol.append((res, c, {"kind": "git-diff-oracle", "class": "typechange-special", "range": c["range"], "reported": dec_list(c["cli"]), "git_diff_existing_regular": dec_list(c["oracle"])}))
                else:
                    viol.append((res, c, {"kind": "git-diff-oracle", "range": c["range"], "reported": dec_list(c["cli"]), "git_diff_existing_regular": dec_list(c["oracle"])}))
        elif what == "alt_lib":
            if c["lib"] != mo:
                mism.append((res, c, "get_staged_files with GIT_INDEX_FILE (%s): impl %s / model %s" % (c["how"], c["lib"] if not c["lib"].startswith("OK") else dec_list(parse_paths(c["lib"])), dec_list(parse_paths(mo)))))
        elif what == "alt_cli":
            stats["staged_alt_index"] += 1
            if c["oracle"] != c["own_oracle"]:
                stats["staged_alt_index_differs_from_own"] += 1
            m = parse_paths(mo)
            if c["cli"] != m:
                mism.append((res, c, "check --staged with GIT_INDEX_FILE (%s) reported %s, model %s" % (c["how"], dec_list(c["cli"]), dec_list(m))))
            for b in c["cli_bad"]:
                viol.append((res, c, {"kind": "restriction", "what": b, "mode": "staged, GIT_INDEX_FILE: " + c["how"]}))
            if c["cli"] != c["oracle"] and not c["unmerged"]:
                viol.append((res, c, {"kind": "git-diff-oracle", "mode": "staged with GIT_INDEX_FILE naming a copy of the index after git " + c["how"],
                                      "reported": dec_list(c["cli"]), "git_diff_cached_existing_regular": dec_list(c["oracle"])}))
        elif what == "listed":
            # --files L with --diff / --staged (fix D105): exactly the listed members of the changed set
            L = c["listed"]
            stats["cli_files_list"] += 1
            stats["cli_files_list_members"] += len(L["expected"])
            stats["cli_files_list_symlink_spellings"] += sum(1 for x in L["listed"] if x not in full_set_of(res) and x.decode("utf-8", "replace") != (res["subdir"] + "/" if res["subdir"] else "") + "no such file.rs")
            stats["cli_files_list_nonmembers"] += len([x for x in L["listed"] if x not in L["expected"]])
            mode = "--staged" if c["kind"] == "staged" else "--diff " + c["range"]
            m = parse_paths(mo)
            if sorted(L["cli"]) != sorted(m):
                mism.append((res, c, "check %s --files %s reported %s, model %s" % (mode, L["args"], dec_list(L["cli"]), dec_list(m))))
            for b in L["bad"]:
                viol.append((res, c, {"kind": "restriction", "what": b, "mode": mode, "files": L["args"]}))
            if sorted(L["cli"]) != sorted(L["expected"]) and not (c["kind"] == "staged" and c["unmerged"]):
                viol.append((res, c, {"kind": "files-list-vs-changed-set", "mode": mode, "files": L["args"], "reported": dec_list(L["cli"]),
                                      "listed_members_of_git_diff": dec_list(L["expected"])}))
        elif what == "staged":
            stats["lib_staged"] += 1
            lib = c.get("lib", "<NOANSWER>")
            if lib != mo:
                mism.append((res, c, "get_staged_files: impl %s / model %s" % (lib if not lib.startswith("OK") else dec_list(parse_paths(lib)), dec_list(parse_paths(mo)))))
            if len(mo) > 2:
                nontrivial.add((c["head"], c["index"]))
        elif what == "stagedf":
            stats["cli_staged"] += 1
            m = parse_paths(mo)
            if c["cli"] != m:
                mism.append((res, c, "check --staged reported %s, model %s" % (dec_list(c["cli"]), dec_list(m))))
            for b in c["cli_bad"]:
                viol.append((res, c, {"kind": "restriction", "what": b, "mode": "staged"}))
            if not c["name_only_ok"]:
                raise CheckBroken("git diff --cached --raw and --name-only disagree")
            if c["cli"] != c["oracle"] and not c["unmerged"]:
                extra = [p for p in c["cli"] if p not in c["oracle"]]
                missing = [p for p in c["oracle"] if p not in c["cli"]]
                rest = False
                if extra:
                    if all(p in c["link_targets"] for p in extra):
                        if not ctx.known("staged-symlink-leak", "D21"):
                            rest = True
                    else:
                        rest = True
                if missing:
                    if all(p in c["index_deleted_present"] for p in missing):
                        if not ctx.known("staged-index-deletion", "D22"):
                            rest = True
                    else:
                        rest = True
                if rest:
                    viol.append((res, c, {"kind": "git-diff-oracle", "mode": "staged", "reported": dec_list(c["cli"]), "git_diff_cached_existing_regular": dec_list(c["oracle"]), "raw": c["raw"]}))
    for res in results:
        for c in res["cases"]:
            if c["kind"] == "reject":
                stats["rejects"] += 1
                if c["rc"] != 2:
                    viol.append((res, c, {"kind": "range-not-rejected", "range": c["range"], "rc": c["rc"]}))
            if "listed" in c and "error" in c["listed"]:
                viol.append((res, c, {"kind": "cli-error", "details": c["listed"]["error"], "files": c["listed"]["args"], "range": c.get("range")}))
            if c["kind"] == "reject":
                pass
            elif "cli_error" in c:
                core = c["kind"] in ("staged", "staged_alt") or (c["spk"][0] in CORE_SPELLINGS and c["spk"][1] in CORE_SPELLINGS)
                if c["kind"] == "staged" and "Failed to open git index" in c["cli_error"]["stderr"] and ctx.known("no-index-file", ""):
                    pass
                elif core:
                    viol.append((res, c, {"kind": "cli-error", "details": c["cli_error"], "range": c.get("range")}))
                else:
                    stats["spelling_rejected_by_gix"] += 1

    # ---- parse_diff_range: library vs model on random strings
    pstats = parse_tie(ctx, sgvgit, model, mism)

    evals = sum(stats[k] for k in ("lib_range", "lib_staged", "cli_diff", "cli_staged", "rejects", "cli_files_list", "staged_alt_index")) + pstats["strings"]
    ctx.cov["evaluations"] = evals
    ctx.cov["distinct_nontrivial"] = len(nontrivial) + pstats["distinct_ranges"]
    ctx.cov["traces_validated_against_impl"] = evals - len(mism)
    ctx.cov["model_vs_impl_mismatches"] = len(mism)
    ctx.cov["rule"] = ("seeded scripted histories executed with the real git (work-tree mutation, git add -A, commit, branch, switch, tag, merge; then a random index state); "
                       "for each repository: full run, --staged, several --diff ranges in random ref spellings (CLI), every sampled commit pair through GitDiff at library level; "
                       "each compared with the extracted Coq model fed the trees from git ls-tree -r -t / the index from git ls-files -s, and with git diff --raw --no-renames (content changes, existing regular files); "
                       "plus random strings through parse_diff_range. non-trivial = distinct (tree A, tree B) or (HEAD, index) inputs with a non-empty model answer, "
                       "plus distinct range strings containing two dots")
    ctx.cov["input_distribution"] = {"repositories": len(results), "variants": variants, "operations": hist, "spelling_kinds": spk_hist, "comparisons": stats,
                                     "git_spawns": sum(r.get("ngit", 0) for r in results), "parse": pstats}
    for res in results[len(corpus_cases()):len(corpus_cases()) + 2]:
        ctx.sample({"script": res["script"][:40], "cases": [{k: (v if not isinstance(v, (bytes, list)) or k in ("spk",) else str(v)[:200]) for k, v in c.items() if k in ("kind", "range", "spk", "lib", "a", "b")} for c in res["cases"][:4]]})
    ctx.cov["trusted_base"] = TRUSTED_COMMON + [
        "gix object reading / rev-parsing and git's own ls-tree, ls-files, diff --raw (the trees and the index enter the model as data read with the git binary)",
        "SHA-1 collision freeness: object-id equality is modelled as structural equality (cross-checked per commit pair against the real tree ids)",
        "std::fs::canonicalize / Path::exists enter the model as a table computed with os.path.realpath on the same work tree"]
    ctx.assumptions = ["no tree lists a name twice (git fsck invariant); names are valid UTF-8 (the code errors out otherwise)",
                       "the status of a file is a function of the file alone (checked: every reported result equals the full run's)"]
    xcheck(ctx, results, model)
    # ---- verdicts
    for (res, c, v) in viol[:5]:
        ctx.violation(replay_obj(res, c, v))
    if not viol:
        if mism:
            res, c, what = mism[0]
            ctx.violation(replay_obj(res, c, {"kind": "correspondence-broken", "relation": "sgv-git / sgcli == extracted Git.TreeDiff", "first_mismatch": what, "mismatches": len(mism),
                                              "note": "the model no longer describes the code, so theorems C19_* no longer transfer; no input violating C19 itself was found among %d comparisons" % evals}), no_input=True)
        elif not proofs_ok:
            ctx.violation({"kind": "proof-broken", "details": ctx.proof_broken}, no_input=True)


CORE_SPELLINGS = {"sha", "abbrev", "branch", "refs/heads", "heads/", "tag", "refs/tags", "tags/", "HEAD", "HEAD~k", "HEAD^^", "HEAD~", "@", "@~k",
                  "branch~k", "sha~0", "sha^0", "sha^{commit}", "tag^{commit}", "tag^{}", "tag^0", "merge^2", "A..B", "A..", "A"}


def parse_tie(ctx, sgvgit, model, mism):
    rng = ctx.rng
    n = 3000 if ctx.tier == "quick" else 30000
    alpha = [".", ".", "..", "...", "a", "HEAD", "main", "~1", "^", "/", "@", "{", "}", " ", "é", "v1", "\U0001f600", "-"]
    strs = ["", ".", "..", "...", "a..", "..a", "a..b", "a...b", "a..b..c", "a.b", ".a..b", "a. .b", "HEAD", "HEAD..", "HEAD~1..HEAD"]
    for _ in range(n):
        strs.append("".join(rng.choice(alpha) for _ in range(rng.choice([0, 1, 2, 3, 3, 4, 5, 8]))))
    lines = ["parse\t" + hx(s) for s in strs]
    io, ie = run_sharded(sgvgit, lines, timeout=300)
    mo, me = run_sharded(model, lines, timeout=300)
    if me:
        raise CheckBroken("model driver failed on parse lines")
    bad = 0
    for s, a, b in zip(strs, io, mo):
        if a != b:
            bad += 1
            if bad == 1:
                mism.append(({"script": [], "subdir": None, "variant": "parse"}, {"kind": "parse", "range": s}, "parse_diff_range(%r): impl %s / model %s" % (s, a, b)))
    return {"strings": len(strs), "distinct_ranges": len({s for s in strs if ".." in s}), "errors": sum(1 for a in io if a == "ERR"), "mismatches": bad}


def coq_tree(wire, short):
    """Gallina term for a tree wire; object ids shortened through the table `short`."""
    toks = wire.split(" ")
    pos = [0]

    def nxt():
        pos[0] += 1
        return toks[pos[0] - 1]

    def bl(h):
        return "[" + ";".join(str(x) for x in unhx(h)) + "]"

    def oid(h):
        return "[" + ";".join(str(x) for x in short[h]) + "]"

    def entries(k):
        es = []
        for _ in range(k):
            t = nxt()
            if t == "b":
                x, nm, o = nxt(), nxt(), nxt()
                es.append("(%s, Blob %s %s)" % (bl(nm), "true" if x == "1" else "false", oid(o)))
            elif t == "l":
                nm, o = nxt(), nxt()
                es.append("(%s, Link %s)" % (bl(nm), oid(o)))
            elif t == "c":
                nm, o = nxt(), nxt()
                es.append("(%s, Commit %s)" % (bl(nm), oid(o)))
            else:
                nm, k2 = nxt(), int(nxt())
                es.append("(%s, Tree %s)" % (bl(nm), entries(k2)))
        return "[" + "; ".join(es) + "]"
    return entries(int(nxt()))


def shorten(wires):
    """consistent renaming of object ids to short byte strings (same renaming on both sides)"""
    table = {}
    for w in wires:
        toks = w.split(" ")
        for i, t in enumerate(toks):
            if len(t) == 80 and t not in table:     # hex of a 40-character id
                table[t] = [48 + (len(table) // 10) % 10, 48 + len(table) % 10, 65 + (len(table) // 100) % 26]
    return table


def short_wire(w, table):
    return " ".join(hx(bytes(table[t])) if t in table else t for t in w.split(" "))


def xcheck(ctx, results, model):
    """evaluate compare_trees_recursive inside Coq (vm_compute) on a sub-sample and compare with extraction"""
    pool = [c for res in results for c in res["cases"] if c["kind"] == "diff" and len(c["ta"]) + len(c["tb"]) < 6000]
    ctx.rng.shuffle(pool)
    pick = pool[:12 if ctx.tier == "quick" else 60]
    if not pick:
        ctx.cov["extraction_crosscheck"] = {"cases": 0}
        return
    exprs, lines = [], []
    for c in pick:
        tb = shorten([c["ta"], c["tb"]])
        a, b = coq_tree(c["ta"], tb), coq_tree(c["tb"], tb)
        exprs.append("let r := compare_trees_recursive %s %s in (paths_with Chg r, paths_with Del r)" % (a, b))
        lines.append("cmp\t%s\t%s" % (short_wire(c["ta"], tb), short_wire(c["tb"], tb)))
    res = coq_eval("From Coq Require Import NArith List.\nFrom SG Require Import Git.TreeDiff.", exprs)
    mo, _, _ = run_lines(model, lines)
    bad = 0
    for r, m in zip(res, mo):
        try:
            val = ast.literal_eval(r.replace(";", ","))
        except Exception:
            bad += 1
            continue
        enc_p = lambda p: b"/".join(bytes(nm) for nm in p)
        cc = sorted({enc_p(p) for p in val[0]})
        dd = sorted({enc_p(p) for p in val[1]})
        f = m.split(" ")
        di = f.index("D")
        mc = sorted(unhx(h) for h in f[1:di] if h)
        md = sorted(unhx(h) for h in f[di + 1:] if h)
        if (cc, dd) != (mc, md):
            bad += 1
    ctx.cov["extraction_crosscheck"] = {"cases": len(pick), "disagreements": bad}
    if bad or len(res) != len(pick):
        raise CheckBroken("extracted OCaml and vm_compute disagree on %d/%d cases" % (bad, len(pick)))


def replay(ctx, path):
    j = json.load(open(path))
    exes = prepare_git(ctx)
    if j.get("case_kind") == "parse" or not j.get("script"):
        print(json.dumps(j, indent=1)[:2000])
        return 0

    def keep(repo, out):
        for c in out["cases"]:
            print("case", c["kind"], c.get("range", ""))
            if "listed" in c:
                L = c["listed"]
                print("   --files  %s -> reported %s ; listed members of the git set %s ; %s" % (L["args"], dec_list(L.get("cli", [])), dec_list(L.get("expected", [])), L.get("bad") or L.get("error") or ""))
            for k in ("lib", "cli", "oracle", "cli_bad", "cli_error", "spec"):
                if k in c:
                    v = c[k]
                    print("   %-8s %s" % (k, dec_list(v) if isinstance(v, list) and v and isinstance(v[0], bytes) else v))
    res = run_script_case(j["script"], j.get("subdir"), exes, j.get("queries") or [], 0, "quick", "replay", keep, j.get("staged_files"), j.get("alt_index"))
    model = exes[2]
    for c in res["cases"]:
        if c["kind"] == "diff":
            o, _, _ = run_lines(model, ["range\t%s\t%s\t%s" % (c["ta"], c["tb"], c["canon"]), "diff\t%s\t%s\t%s\t%s" % (c["ta"], c["tb"], c["canon"], c["files"])])
            print("model range:", dec_list(parse_paths(o[0])), " diff:", dec_list(parse_paths(o[1])))
        elif c["kind"] in ("staged", "staged_alt"):
            o, _, _ = run_lines(model, ["staged\t%s\t%s\t%s" % (c["head"], c["index"], c["canon"]), "stagedf\t%s\t%s\t%s\t%s" % (c["head"], c["index"], c["canon"], c["files"])])
            print("model staged:", dec_list(parse_paths(o[0])), " stagedf:", dec_list(parse_paths(o[1])))
    return 0
